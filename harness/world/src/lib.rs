//! Tiny typed universes over the real `WarpState`, and the boring reference model `RefState`.
//!
//! * [`Universe`] — tables of real ids (instances, nodes, edges, types) addressed by small indices.
//! * [`RefState`] — the abstract state: plain `BTreeMap`s keyed by indices.  Written against the
//!   property statements, not against `snapshot.rs` / `tick_patch.rs`.
//! * [`Universe::build`] / [`Universe::read`] — abstract → real (with a caller-chosen insertion
//!   order) and real → abstract (through public accessors + the enumeration hook only).
//! * [`Spec`] — per-element option lists whose cartesian product, filtered by the independent
//!   well-formedness predicate [`RefState::well_formed`], enumerates a universe exhaustively.

use std::collections::{BTreeMap, BTreeSet, VecDeque};

use bytes::Bytes;
use warp_core::verif_hooks as hooks;
use warp_core::{
    make_edge_id, make_node_id, make_type_id, make_warp_id, AtomPayload, AttachmentKey,
    AttachmentOwner, AttachmentPlane, AttachmentValue, EdgeId, EdgeKey, EdgeRecord, GraphStore,
    NodeId, NodeKey, NodeRecord, TypeId, WarpId, WarpInstance, WarpState,
};

/// Index types (small integers into the [`Universe`] tables).
pub type W = u8;
pub type N = u8;
pub type E = u8;
pub type T = u8;

/// Abstract attachment value.
#[derive(Clone, Debug, PartialEq, Eq, PartialOrd, Ord, Hash)]
pub enum RefAtt {
    Atom(T, Vec<u8>),
    Descend(W),
}

/// Abstract attachment slot.
#[derive(Clone, Copy, Debug, PartialEq, Eq, PartialOrd, Ord, Hash)]
pub enum RefSlot {
    Node(W, N),
    Edge(W, E),
}

/// Abstract instance record.
#[derive(Clone, Debug, PartialEq, Eq, PartialOrd, Ord, Hash)]
pub struct RefInstance {
    pub root: N,
    pub parent: Option<RefSlot>,
}

/// Abstract edge record.
#[derive(Clone, Copy, Debug, PartialEq, Eq, PartialOrd, Ord, Hash)]
pub struct RefEdge {
    pub from: N,
    pub to: N,
    pub ty: T,
}

/// The reference model of a multi-instance state.
#[derive(Clone, Debug, Default, PartialEq, Eq, PartialOrd, Ord, Hash)]
pub struct RefState {
    pub instances: BTreeMap<W, RefInstance>,
    pub nodes: BTreeMap<(W, N), T>,
    pub edges: BTreeMap<(W, E), RefEdge>,
    pub atts: BTreeMap<RefSlot, RefAtt>,
}

impl RefState {
    /// Independent well-formedness predicate:
    /// exactly one parentless instance and it is instance 0; every instance's root node exists;
    /// every node/edge lives in an existing instance; edge endpoints exist in the same instance;
    /// every attachment's owner exists; `Descend(w)` on slot k ⇔ instance w has parent k.
    pub fn well_formed(&self) -> bool {
        let parentless: Vec<_> = self
            .instances
            .iter()
            .filter(|(_, i)| i.parent.is_none())
            .map(|(w, _)| *w)
            .collect();
        if parentless != vec![0] {
            return false;
        }
        for (w, inst) in &self.instances {
            if !self.nodes.contains_key(&(*w, inst.root)) {
                return false;
            }
            if let Some(slot) = inst.parent {
                if self.atts.get(&slot) != Some(&RefAtt::Descend(*w)) {
                    return false;
                }
                // a portal never lives inside the instance it opens
                let owner_w = match slot {
                    RefSlot::Node(ow, _) | RefSlot::Edge(ow, _) => ow,
                };
                if owner_w == *w {
                    return false;
                }
            }
        }
        for (w, _) in self.nodes.keys() {
            if !self.instances.contains_key(w) {
                return false;
            }
        }
        for ((w, _), e) in &self.edges {
            if !self.instances.contains_key(w)
                || !self.nodes.contains_key(&(*w, e.from))
                || !self.nodes.contains_key(&(*w, e.to))
            {
                return false;
            }
        }
        for (slot, att) in &self.atts {
            let owner_ok = match slot {
                RefSlot::Node(w, n) => self.nodes.contains_key(&(*w, *n)),
                RefSlot::Edge(w, e) => self.edges.contains_key(&(*w, *e)),
            };
            if !owner_ok {
                return false;
            }
            if let RefAtt::Descend(cw) = att {
                match self.instances.get(cw) {
                    Some(i) if i.parent == Some(*slot) => {}
                    _ => return false,
                }
            }
        }
        true
    }

    /// Content reachable from the root (instance 0's root node): follows edges inside an
    /// instance and descends through `Descend` attachments on reachable nodes and on edges
    /// leaving reachable nodes.  Returned as a canonical, comparable value: this is what the
    /// state root is supposed to commit to (C06).
    pub fn reachable_content(&self) -> RefState {
        let mut out = RefState::default();
        let Some(root_inst) = self.instances.get(&0) else {
            return out;
        };
        let mut seen_nodes: BTreeSet<(W, N)> = BTreeSet::new();
        let mut seen_warps: BTreeSet<W> = BTreeSet::new();
        let mut q: VecDeque<(W, N)> = VecDeque::new();
        seen_nodes.insert((0, root_inst.root));
        seen_warps.insert(0);
        q.push_back((0, root_inst.root));
        while let Some((w, n)) = q.pop_front() {
            let mut descend = |cw: W,
                               seen_warps: &mut BTreeSet<W>,
                               seen_nodes: &mut BTreeSet<(W, N)>,
                               q: &mut VecDeque<(W, N)>| {
                seen_warps.insert(cw);
                if let Some(ci) = self.instances.get(&cw) {
                    if seen_nodes.insert((cw, ci.root)) {
                        q.push_back((cw, ci.root));
                    }
                }
            };
            if let Some(RefAtt::Descend(cw)) = self.atts.get(&RefSlot::Node(w, n)) {
                descend(*cw, &mut seen_warps, &mut seen_nodes, &mut q);
            }
            for ((ew, eid), e) in &self.edges {
                if *ew == w && e.from == n {
                    if seen_nodes.insert((w, e.to)) {
                        q.push_back((w, e.to));
                    }
                    if let Some(RefAtt::Descend(cw)) = self.atts.get(&RefSlot::Edge(w, *eid)) {
                        descend(*cw, &mut seen_warps, &mut seen_nodes, &mut q);
                    }
                }
            }
        }
        for w in &seen_warps {
            if let Some(i) = self.instances.get(w) {
                out.instances.insert(*w, i.clone());
            }
        }
        for (k, t) in &self.nodes {
            if seen_nodes.contains(k) && self.nodes.contains_key(k) {
                out.nodes.insert(*k, *t);
                if let Some(a) = self.atts.get(&RefSlot::Node(k.0, k.1)) {
                    out.atts.insert(RefSlot::Node(k.0, k.1), a.clone());
                }
            }
        }
        for ((w, eid), e) in &self.edges {
            if seen_nodes.contains(&(*w, e.from)) {
                out.edges.insert((*w, *eid), *e);
                if let Some(a) = self.atts.get(&RefSlot::Edge(*w, *eid)) {
                    out.atts.insert(RefSlot::Edge(*w, *eid), a.clone());
                }
            }
        }
        out
    }

    /// Compact JSON rendering for samples / replay files.
    pub fn to_json(&self) -> serde_json::Value {
        serde_json::json!({
            "instances": self.instances.iter().map(|(w,i)| format!("W{w}:root=n{} parent={:?}", i.root, i.parent)).collect::<Vec<_>>(),
            "nodes": self.nodes.iter().map(|((w,n),t)| format!("W{w}.n{n}:t{t}")).collect::<Vec<_>>(),
            "edges": self.edges.iter().map(|((w,e),r)| format!("W{w}.e{e}:n{}->n{} t{}", r.from, r.to, r.ty)).collect::<Vec<_>>(),
            "atts": self.atts.iter().map(|(s,a)| format!("{s:?}={a:?}")).collect::<Vec<_>>(),
        })
    }

    /// Stable byte key.
    pub fn key(&self) -> Vec<u8> {
        format!("{self:?}").into_bytes()
    }
}

/// Tables of real identifiers.
#[derive(Clone, Debug)]
pub struct Universe {
    pub warps: Vec<WarpId>,
    pub nodes: Vec<NodeId>,
    pub edges: Vec<EdgeId>,
    pub types: Vec<TypeId>,
}

impl Default for Universe {
    fn default() -> Self {
        Self::labelled(3, 4, 3, 3)
    }
}

impl Universe {
    /// Ids derived from labels through the repository's own `make_*_id` functions.
    pub fn labelled(warps: usize, nodes: usize, edges: usize, types: usize) -> Self {
        Universe {
            warps: (0..warps)
                .map(|i| {
                    if i == 0 {
                        make_warp_id("root")
                    } else {
                        make_warp_id(&format!("verif/w{i}"))
                    }
                })
                .collect(),
            nodes: (0..nodes)
                .map(|i| make_node_id(&format!("verif/n{i}")))
                .collect(),
            edges: (0..edges)
                .map(|i| make_edge_id(&format!("verif/e{i}")))
                .collect(),
            types: (0..types)
                .map(|i| make_type_id(&format!("verif/t{i}")))
                .collect(),
        }
    }

    /// Caller-chosen raw ids (adversarial universes).
    pub fn raw(
        warps: Vec<[u8; 32]>,
        nodes: Vec<[u8; 32]>,
        edges: Vec<[u8; 32]>,
        types: Vec<[u8; 32]>,
    ) -> Self {
        Universe {
            warps: warps.into_iter().map(WarpId).collect(),
            nodes: nodes.into_iter().map(NodeId).collect(),
            edges: edges.into_iter().map(EdgeId).collect(),
            types: types.into_iter().map(TypeId).collect(),
        }
    }

    pub fn warp(&self, w: W) -> WarpId {
        self.warps[w as usize]
    }
    pub fn node(&self, n: N) -> NodeId {
        self.nodes[n as usize]
    }
    pub fn edge(&self, e: E) -> EdgeId {
        self.edges[e as usize]
    }
    pub fn ty(&self, t: T) -> TypeId {
        self.types[t as usize]
    }
    pub fn node_key(&self, w: W, n: N) -> NodeKey {
        NodeKey {
            warp_id: self.warp(w),
            local_id: self.node(n),
        }
    }
    pub fn edge_key(&self, w: W, e: E) -> EdgeKey {
        EdgeKey {
            warp_id: self.warp(w),
            local_id: self.edge(e),
        }
    }
    pub fn slot_key(&self, s: RefSlot) -> AttachmentKey {
        match s {
            RefSlot::Node(w, n) => AttachmentKey::node_alpha(self.node_key(w, n)),
            RefSlot::Edge(w, e) => AttachmentKey::edge_beta(self.edge_key(w, e)),
        }
    }
    pub fn att_value(&self, a: &RefAtt) -> AttachmentValue {
        match a {
            RefAtt::Atom(t, b) => {
                AttachmentValue::Atom(AtomPayload::new(self.ty(*t), Bytes::from(b.clone())))
            }
            RefAtt::Descend(w) => AttachmentValue::Descend(self.warp(*w)),
        }
    }
    pub fn edge_record(&self, e: E, r: &RefEdge) -> EdgeRecord {
        EdgeRecord {
            id: self.edge(e),
            from: self.node(r.from),
            to: self.node(r.to),
            ty: self.ty(r.ty),
        }
    }
    pub fn instance_record(&self, w: W, i: &RefInstance) -> WarpInstance {
        WarpInstance {
            warp_id: self.warp(w),
            root_node: self.node(i.root),
            parent: i.parent.map(|s| self.slot_key(s)),
        }
    }
    /// Root key of the root instance of `s` (instance 0).
    pub fn root_key(&self, s: &RefState) -> NodeKey {
        let r = s.instances.get(&0).map(|i| i.root).unwrap_or(0);
        self.node_key(0, r)
    }

    fn w_ix(&self, w: &WarpId) -> Option<W> {
        self.warps.iter().position(|x| x == w).map(|i| i as W)
    }
    fn n_ix(&self, n: &NodeId) -> Option<N> {
        self.nodes.iter().position(|x| x == n).map(|i| i as N)
    }
    fn e_ix(&self, e: &EdgeId) -> Option<E> {
        self.edges.iter().position(|x| x == e).map(|i| i as E)
    }
    fn t_ix(&self, t: &TypeId) -> Option<T> {
        self.types.iter().position(|x| x == t).map(|i| i as T)
    }
    fn slot_ix(&self, k: &AttachmentKey) -> Option<RefSlot> {
        match (k.owner, k.plane) {
            (AttachmentOwner::Node(nk), AttachmentPlane::Alpha) => Some(RefSlot::Node(
                self.w_ix(&nk.warp_id)?,
                self.n_ix(&nk.local_id)?,
            )),
            (AttachmentOwner::Edge(ek), AttachmentPlane::Beta) => Some(RefSlot::Edge(
                self.w_ix(&ek.warp_id)?,
                self.e_ix(&ek.local_id)?,
            )),
            _ => None,
        }
    }
    fn att_ix(&self, v: &AttachmentValue) -> Option<RefAtt> {
        match v {
            AttachmentValue::Atom(a) => Some(RefAtt::Atom(self.t_ix(&a.type_id)?, a.bytes.to_vec())),
            AttachmentValue::Descend(w) => Some(RefAtt::Descend(self.w_ix(w)?)),
        }
    }

    /// Abstract → real, inserting in canonical (sorted) order.
    pub fn build(&self, s: &RefState) -> WarpState {
        self.build_ordered(s, false)
    }

    /// Abstract → real.  `reverse` inserts every collection in descending order instead, so two
    /// builds of the same abstract state differ in insertion order (edge buckets preserve
    /// insertion order in the real store).
    pub fn build_ordered(&self, s: &RefState, reverse: bool) -> WarpState {
        let order: Vec<usize> = Vec::new();
        self.build_with(s, reverse, &order)
    }

    /// Abstract → real with an explicit permutation of the edge insertion order
    /// (`edge_perm` indexes into the sorted edge list; empty = identity).
    pub fn build_with(&self, s: &RefState, reverse: bool, edge_perm: &[usize]) -> WarpState {
        let mut state = WarpState::new();
        let mut ws: Vec<W> = s.instances.keys().copied().collect();
        if reverse {
            ws.reverse();
        }
        for w in ws {
            let inst = &s.instances[&w];
            let mut store = GraphStore::new(self.warp(w));
            let mut ns: Vec<(N, T)> = s
                .nodes
                .iter()
                .filter(|((nw, _), _)| *nw == w)
                .map(|((_, n), t)| (*n, *t))
                .collect();
            if reverse {
                ns.reverse();
            }
            for (n, t) in &ns {
                store.insert_node(self.node(*n), NodeRecord { ty: self.ty(*t) });
            }
            let mut es: Vec<(E, RefEdge)> = s
                .edges
                .iter()
                .filter(|((ew, _), _)| *ew == w)
                .map(|((_, e), r)| (*e, *r))
                .collect();
            if reverse {
                es.reverse();
            }
            if !edge_perm.is_empty() && edge_perm.len() == es.len() {
                es = edge_perm.iter().map(|i| es[*i]).collect();
            }
            for (e, r) in &es {
                store.insert_edge(self.node(r.from), self.edge_record(*e, r));
            }
            let mut as_: Vec<(&RefSlot, &RefAtt)> = s
                .atts
                .iter()
                .filter(|(slot, _)| match slot {
                    RefSlot::Node(aw, _) | RefSlot::Edge(aw, _) => *aw == w,
                })
                .collect();
            if reverse {
                as_.reverse();
            }
            for (slot, a) in as_ {
                match slot {
                    RefSlot::Node(_, n) => {
                        store.set_node_attachment(self.node(*n), Some(self.att_value(a)));
                    }
                    RefSlot::Edge(_, e) => {
                        store.set_edge_attachment(self.edge(*e), Some(self.att_value(a)));
                    }
                }
            }
            hooks::warp_state::upsert_instance(&mut state, self.instance_record(w, inst), store);
        }
        state
    }

    /// Real → abstract through public accessors (plus the instance/store enumeration hook).
    /// `Err` names the first thing that has no abstract counterpart (unknown id, attachment on a
    /// missing owner, store without instance, inconsistent edge bucket …) — i.e. an incoherent
    /// or out-of-universe store.
    pub fn read(&self, state: &WarpState) -> Result<RefState, String> {
        let mut out = RefState::default();
        let insts = hooks::warp_state::instances(state);
        let store_ids = hooks::warp_state::store_ids(state);
        let inst_ids: Vec<WarpId> = insts.iter().map(|i| i.warp_id).collect();
        if inst_ids != store_ids {
            return Err(format!(
                "instances/stores desynced: {} instances, {} stores",
                inst_ids.len(),
                store_ids.len()
            ));
        }
        for inst in &insts {
            let w = self
                .w_ix(&inst.warp_id)
                .ok_or_else(|| "unknown warp id".to_string())?;
            let root = self
                .n_ix(&inst.root_node)
                .ok_or_else(|| "unknown root node id".to_string())?;
            let parent = match &inst.parent {
                None => None,
                Some(k) => Some(
                    self.slot_ix(k)
                        .ok_or_else(|| "unknown parent slot".to_string())?,
                ),
            };
            out.instances.insert(w, RefInstance { root, parent });
            let store = state
                .store(&inst.warp_id)
                .ok_or_else(|| "instance without store".to_string())?;
            if store.warp_id() != inst.warp_id {
                return Err("store.warp_id != instance.warp_id".into());
            }
            for (nid, rec) in store.iter_nodes() {
                let n = self.n_ix(nid).ok_or_else(|| "unknown node id".to_string())?;
                let t = self
                    .t_ix(&rec.ty)
                    .ok_or_else(|| "unknown node type".to_string())?;
                out.nodes.insert((w, n), t);
            }
            for (from, bucket) in store.iter_edges() {
                if bucket.is_empty() {
                    return Err("empty edge bucket retained".into());
                }
                for rec in bucket {
                    if rec.from != *from {
                        return Err("edge.from != bucket key".into());
                    }
                    let e = self
                        .e_ix(&rec.id)
                        .ok_or_else(|| "unknown edge id".to_string())?;
                    let r = RefEdge {
                        from: self
                            .n_ix(&rec.from)
                            .ok_or_else(|| "unknown edge.from".to_string())?,
                        to: self
                            .n_ix(&rec.to)
                            .ok_or_else(|| "unknown edge.to".to_string())?,
                        ty: self
                            .t_ix(&rec.ty)
                            .ok_or_else(|| "unknown edge type".to_string())?,
                    };
                    if out.edges.insert((w, e), r).is_some() {
                        return Err("duplicate edge id across buckets".into());
                    }
                    if !store.has_edge(&rec.id) {
                        return Err("edge in bucket but has_edge() is false (index desync)".into());
                    }
                }
            }
            // reverse index must not know edges that are in no bucket
            for e in 0..self.edges.len() {
                let id = self.edge(e as E);
                if store.has_edge(&id) && !out.edges.contains_key(&(w, e as E)) {
                    return Err("has_edge() true for an edge in no bucket (index desync)".into());
                }
            }
            for (nid, v) in store.iter_node_attachments() {
                let n = self
                    .n_ix(nid)
                    .ok_or_else(|| "unknown attachment node id".to_string())?;
                let a = self
                    .att_ix(v)
                    .ok_or_else(|| "unknown attachment value ids".to_string())?;
                out.atts.insert(RefSlot::Node(w, n), a);
            }
            for (eid, v) in store.iter_edge_attachments() {
                let e = self
                    .e_ix(eid)
                    .ok_or_else(|| "unknown attachment edge id".to_string())?;
                let a = self
                    .att_ix(v)
                    .ok_or_else(|| "unknown attachment value ids".to_string())?;
                out.atts.insert(RefSlot::Edge(w, e), a);
            }
        }
        Ok(out)
    }

    /// Full coherence check of a real state against an abstract one: equal content *and* the
    /// store's internal indexes agree with its buckets (exercised through `delete_edge_exact`
    /// / `delete_node_isolated` on a scratch clone: every edge must be deletable from exactly
    /// its bucket, after which every node must be isolated-deletable).
    pub fn coherent(&self, state: &WarpState) -> Result<RefState, String> {
        let r = self.read(state)?;
        let mut scratch = state.clone();
        for ((w, e), rec) in &r.edges {
            let store = scratch
                .store_mut(&self.warp(*w))
                .ok_or_else(|| "store vanished".to_string())?;
            // deleting from a wrong bucket must fail, from the right one succeed
            for n in 0..self.nodes.len() {
                if n as N != rec.from && store.delete_edge_exact(self.node(n as N), self.edge(*e)) {
                    return Err(format!("edge e{e} deletable from wrong bucket n{n}"));
                }
            }
            if !store.delete_edge_exact(self.node(rec.from), self.edge(*e)) {
                return Err(format!("edge e{e} not deletable from its bucket (index desync)"));
            }
        }
        for (w, n) in r.nodes.keys() {
            let store = scratch
                .store_mut(&self.warp(*w))
                .ok_or_else(|| "store vanished".to_string())?;
            if let Err(e) = store.delete_node_isolated(self.node(*n)) {
                return Err(format!(
                    "node n{n} not isolated after deleting all edges: {e:?} (reverse index desync)"
                ));
            }
        }
        for w in r.instances.keys() {
            let store = scratch
                .store(&self.warp(*w))
                .ok_or_else(|| "store vanished".to_string())?;
            if store.iter_edge_attachments().next().is_some() {
                return Err("edge attachment survived deletion of every edge".into());
            }
            if store.iter_node_attachments().next().is_some() {
                return Err("node attachment survived deletion of every node".into());
            }
        }
        Ok(r)
    }

    /// The real state root of `state` rooted at the root of abstract state `s`.
    pub fn state_root(&self, state: &WarpState, s: &RefState) -> [u8; 32] {
        hooks::snapshot::state_root(state, &self.root_key(s))
    }
}

/// Per-element option lists; the product filtered by `well_formed` is the universe.
#[derive(Clone, Debug, Default)]
pub struct Spec {
    /// (instance, options): `None` = absent.
    pub instances: Vec<(W, Vec<Option<RefInstance>>)>,
    pub nodes: Vec<((W, N), Vec<Option<T>>)>,
    pub edges: Vec<((W, E), Vec<Option<RefEdge>>)>,
    pub atts: Vec<(RefSlot, Vec<Option<RefAtt>>)>,
}

impl Spec {
    /// Enumerate every well-formed state of the product space.  Returns (states, raw_count).
    pub fn enumerate(&self) -> (Vec<RefState>, u64) {
        let mut dims = Vec::new();
        for (_, o) in &self.instances {
            dims.push(o.len());
        }
        for (_, o) in &self.nodes {
            dims.push(o.len());
        }
        for (_, o) in &self.edges {
            dims.push(o.len());
        }
        for (_, o) in &self.atts {
            dims.push(o.len());
        }
        let mut out = Vec::new();
        let raw = mc::enumerate::product(&dims, |ix| {
            let mut s = RefState::default();
            let mut p = 0;
            for (w, o) in &self.instances {
                if let Some(i) = &o[ix[p]] {
                    s.instances.insert(*w, i.clone());
                }
                p += 1;
            }
            for (k, o) in &self.nodes {
                if let Some(t) = &o[ix[p]] {
                    s.nodes.insert(*k, *t);
                }
                p += 1;
            }
            for (k, o) in &self.edges {
                if let Some(e) = &o[ix[p]] {
                    s.edges.insert(*k, *e);
                }
                p += 1;
            }
            for (k, o) in &self.atts {
                if let Some(a) = &o[ix[p]] {
                    s.atts.insert(*k, a.clone());
                }
                p += 1;
            }
            if s.well_formed() {
                out.push(s);
            }
        });
        out.sort();
        out.dedup();
        (out, raw)
    }
}

fn atom(t: T, b: &[u8]) -> Option<RefAtt> {
    Some(RefAtt::Atom(t, b.to_vec()))
}
fn edge(from: N, to: N, ty: T) -> Option<RefEdge> {
    Some(RefEdge { from, to, ty })
}

/// `U_A`: single instance, nodes n0 (root) n1 n2, types t0 t1, edges e0 e1, payloads ∅/"A"/"AB".
/// `level` 0 = quick (≈ hundreds of states), 1 = thorough (≈ 10^4).
pub fn spec_u_a(level: u8) -> Spec {
    let root = RefInstance {
        root: 0,
        parent: None,
    };
    let mut s = Spec {
        instances: vec![(0, vec![Some(root)])],
        ..Default::default()
    };
    if level == 0 {
        s.nodes = vec![
            ((0, 0), vec![Some(0), Some(1)]),
            ((0, 1), vec![None, Some(0), Some(1)]),
            ((0, 2), vec![None, Some(0)]),
        ];
        s.edges = vec![
            (
                (0, 0),
                vec![
                    None,
                    edge(0, 1, 0),
                    edge(1, 0, 0),
                    edge(0, 1, 1),
                    edge(0, 2, 0),
                    edge(0, 0, 0),
                ],
            ),
            ((0, 1), vec![None, edge(1, 2, 0), edge(0, 1, 0)]),
        ];
        s.atts = vec![
            (RefSlot::Node(0, 0), vec![None, atom(0, b"A")]),
            (
                RefSlot::Node(0, 1),
                vec![None, atom(0, b"A"), atom(0, b"AB"), atom(1, b"A")],
            ),
            (
                RefSlot::Edge(0, 0),
                vec![None, atom(0, b"A"), atom(0, b""), atom(1, b"A")],
            ),
        ];
    } else {
        s.nodes = vec![
            ((0, 0), vec![Some(0), Some(1)]),
            ((0, 1), vec![None, Some(0), Some(1)]),
            ((0, 2), vec![None, Some(0), Some(1)]),
        ];
        let mut e0 = vec![None];
        for f in 0..3u8 {
            for t in 0..3u8 {
                e0.push(edge(f, t, 0));
            }
        }
        e0.push(edge(0, 1, 1));
        e0.push(edge(1, 0, 1));
        s.edges = vec![
            ((0, 0), e0),
            (
                (0, 1),
                vec![None, edge(1, 2, 0), edge(0, 1, 0), edge(2, 0, 0), edge(0, 1, 1)],
            ),
        ];
        s.atts = vec![
            (RefSlot::Node(0, 0), vec![None, atom(0, b"A")]),
            (
                RefSlot::Node(0, 1),
                vec![None, atom(0, b"A"), atom(0, b"AB"), atom(1, b"A")],
            ),
            (RefSlot::Node(0, 2), vec![None, atom(0, b"A")]),
            (
                RefSlot::Edge(0, 0),
                vec![None, atom(0, b"A"), atom(0, b""), atom(1, b"A")],
            ),
            (RefSlot::Edge(0, 1), vec![None, atom(0, b"AB")]),
        ];
    }
    s
}

/// `U_B`: root instance W0 {n0 root, n1, e0: n0→n1 | n1→n0 | n0→n0 | absent} and child instances W1
/// (portal on node n1, on node n0, or on edge e0) and W2 (portal inside W1), with child roots and
/// optional extra nodes/edges/attachments inside the children.
pub fn spec_u_b(level: u8) -> Spec {
    let root = RefInstance {
        root: 0,
        parent: None,
    };
    let w1_opts = vec![
        None,
        Some(RefInstance {
            root: 0,
            parent: Some(RefSlot::Node(0, 1)),
        }),
        Some(RefInstance {
            root: 0,
            parent: Some(RefSlot::Edge(0, 0)),
        }),
        Some(RefInstance {
            root: 1,
            parent: Some(RefSlot::Node(0, 1)),
        }),
        Some(RefInstance {
            root: 0,
            parent: Some(RefSlot::Node(0, 0)),
        }),
    ];
    let w2_opts = vec![
        None,
        Some(RefInstance {
            root: 0,
            parent: Some(RefSlot::Node(1, 0)),
        }),
    ];
    let mut s = Spec {
        instances: vec![(0, vec![Some(root)]), (1, w1_opts), (2, w2_opts)],
        ..Default::default()
    };
    s.nodes = vec![
        ((0, 0), vec![Some(0)]),
        ((0, 1), vec![None, Some(0)]),
        ((1, 0), vec![None, Some(0), Some(1)]),
        ((1, 1), vec![None, Some(0)]),
        ((2, 0), vec![None, Some(0)]),
    ];
    s.edges = vec![
        // n0→n1, n1→n0 (unreachable unless n1 is reached otherwise) and the self-loop n0→n0: an
        // edge whose target is ALREADY visited when the edge is scanned, so an edge-owned portal on
        // it is the only way its child instance becomes reachable
        ((0, 0), vec![None, edge(0, 1, 0), edge(1, 0, 0), edge(0, 0, 0)]),
        ((1, 0), vec![None, edge(0, 1, 0)]),
    ];
    s.atts = vec![
        (
            RefSlot::Node(0, 0),
            vec![None, atom(0, b"A"), Some(RefAtt::Descend(1))],
        ),
        (
            RefSlot::Node(0, 1),
            vec![None, atom(0, b"A"), Some(RefAtt::Descend(1))],
        ),
        (
            RefSlot::Edge(0, 0),
            vec![None, atom(0, b"A"), Some(RefAtt::Descend(1))],
        ),
        (
            RefSlot::Node(1, 0),
            vec![None, atom(0, b"A"), Some(RefAtt::Descend(2))],
        ),
    ];
    if level > 0 {
        s.atts.push((RefSlot::Node(1, 1), vec![None, atom(0, b"AB")]));
        s.atts.push((RefSlot::Edge(1, 0), vec![None, atom(1, b"A")]));
        s.atts.push((RefSlot::Node(2, 0), vec![None, atom(0, b"A")]));
    }
    s
}

/// Self-test: build→read round trip over a universe, and reverse build equality.
pub fn selftest() -> Result<(u64, u64), String> {
    let u = Universe::default();
    let mut total = 0;
    for spec in [spec_u_a(0), spec_u_b(0)] {
        let (states, _) = spec.enumerate();
        for s in &states {
            let real = u.build(s);
            let back = u.coherent(&real)?;
            if &back != s {
                return Err(format!("round trip mismatch for {s:?}"));
            }
            let rev = u.build_ordered(s, true);
            if u.read(&rev)? != *s {
                return Err("reverse build mismatch".into());
            }
        }
        total += states.len() as u64;
    }
    let (a, _) = spec_u_a(0).enumerate();
    Ok((total, a.len() as u64))
}
