//! Run one engine tick over an abstract pre-state and a candidate enqueue sequence, on the real
//! `Engine`, and collect everything the properties compare.

use warp_core::{
    Engine, EngineBuilder, FootprintViolation, FootprintViolationWithPanic, SchedulerKind, Snapshot,
    TickReceipt, TickReceiptDisposition, WarpState, WarpTickPatchV1,
};
use world::{RefState, N, W};

use crate::{all_rules, universe};

/// One candidate: (rule name, instance, scope node index).
pub type Cand = (&'static str, W, N);

/// Everything a committed tick produced.
pub struct TickOutcome {
    pub snapshot: Snapshot,
    pub receipt: TickReceipt,
    pub patch: WarpTickPatchV1,
    pub post: WarpState,
    pub pre: WarpState,
    pub applied: Vec<bool>,
    pub apply_results: Vec<String>,
}

/// How a tick failed.
#[derive(Debug, Clone, PartialEq, Eq)]
pub enum TickFailure {
    /// `commit_with_receipt` returned `Err`.
    EngineError(String),
    /// Unwound with a `FootprintViolation` payload (Debug of its kind, op_kind).
    Violation { kind: String, op_kind: String, with_panic: bool },
    /// Unwound with some other payload.
    Panic(String),
    /// Harness-level problem (engine could not be built …).
    Setup(String),
}

/// Build a fresh engine over `pre` with the interpreter rules registered.
pub fn engine_for(pre: &RefState, kind: SchedulerKind, workers: usize) -> Result<Engine, String> {
    let u = universe();
    let state = u.build(pre);
    let mut e = EngineBuilder::from_state(state, u.root_key(pre))
        .scheduler(kind)
        .workers(workers)
        .build()
        .map_err(|e| format!("engine build: {e:?}"))?;
    for r in all_rules() {
        e.register_rule(r).map_err(|e| format!("register: {e:?}"))?;
    }
    Ok(e)
}

/// Enqueue `seq` (in that order, duplicates allowed) and commit.  On failure also returns the
/// engine's state after the failed commit (must equal the pre-state).
pub fn run_tick(
    pre: &RefState,
    seq: &[Cand],
    kind: SchedulerKind,
    workers: usize,
) -> Result<TickOutcome, (TickFailure, Option<WarpState>)> {
    let u = universe();
    let mut engine =
        engine_for(pre, kind, workers).map_err(|e| (TickFailure::Setup(e), None))?;
    run_tick_on(&mut engine, Some(pre), seq).map_err(|f| {
        let st = engine.state().clone();
        let _ = u;
        (f, Some(st))
    })
}

/// Same on a caller-owned engine (multi-tick histories).
pub fn run_tick_on(
    engine: &mut Engine,
    pre_ref: Option<&RefState>,
    seq: &[Cand],
) -> Result<TickOutcome, TickFailure> {
    let u = universe();
    let pre = engine.state().clone();
    let tx = engine.begin();
    let mut apply_results = Vec::new();
    for (rule, w, n) in seq {
        let stack = pre_ref.map(|p| descent_stack(p, *w)).unwrap_or_default();
        match engine.apply_in_warp(tx, u.warp(*w), rule, &u.node(*n), &stack) {
            Ok(r) => apply_results.push(format!("{r:?}")),
            Err(e) => {
                engine.abort(tx);
                return Err(TickFailure::Setup(format!("apply: {e:?}")));
            }
        }
    }
    let res = std::panic::catch_unwind(std::panic::AssertUnwindSafe(|| {
        engine.commit_with_receipt(tx)
    }));
    match res {
        Ok(Ok((snapshot, receipt, patch))) => {
            let applied = receipt
                .entries()
                .iter()
                .map(|e| matches!(e.disposition, TickReceiptDisposition::Applied))
                .collect();
            Ok(TickOutcome {
                snapshot,
                receipt,
                patch,
                post: engine.state().clone(),
                pre,
                applied,
                apply_results,
            })
        }
        Ok(Err(e)) => Err(TickFailure::EngineError(format!("{e:?}"))),
        Err(p) => {
            if let Some(v) = p.downcast_ref::<FootprintViolation>() {
                Err(TickFailure::Violation {
                    kind: format!("{:?}", v.kind),
                    op_kind: v.op_kind.to_string(),
                    with_panic: false,
                })
            } else if let Some(v) = p.downcast_ref::<FootprintViolationWithPanic>() {
                Err(TickFailure::Violation {
                    kind: format!("{:?}", v.violation.kind),
                    op_kind: v.violation.op_kind.to_string(),
                    with_panic: true,
                })
            } else {
                Err(TickFailure::Panic(mc::panic_message(&p)))
            }
        }
    }
}

/// Legacy engine-inbox tick: `intent` (the bytes of a serialised [`Program`]) is ingested as a
/// pending inbox event; one tick then runs `Engine::dispatch_next_intent` — which enqueues the
/// first matching `cmd/*` handler (our interpreter rule) **and the system rule `sys/ack_pending`
/// on the same event scope**, i.e. a user rewrite and a system rewrite in one work unit — plus the
/// candidates of `seq`, and commits.  Returns the outcome, or the classified failure together
/// with the engine state after the failed commit and the state just before the tick.
pub fn run_inbox_tick(
    pre: &RefState,
    intent: &[u8],
    seq: &[Cand],
    kind: SchedulerKind,
    workers: usize,
) -> Result<TickOutcome, (TickFailure, Option<WarpState>, Option<WarpState>)> {
    let u = universe();
    let mut engine = engine_for(pre, kind, workers).map_err(|e| (TickFailure::Setup(e), None, None))?;
    engine
        .register_rule(warp_core::inbox::ack_pending_rule())
        .map_err(|e| (TickFailure::Setup(format!("register ack_pending: {e:?}")), None, None))?;
    engine
        .ingest_intent(intent)
        .map_err(|e| (TickFailure::Setup(format!("ingest: {e:?}")), None, None))?;
    let before = engine.state().clone();
    let tx = engine.begin();
    match engine.dispatch_next_intent(tx) {
        Ok(warp_core::DispatchDisposition::Consumed { handler_matched: true, .. }) => {}
        other => {
            engine.abort(tx);
            return Err((TickFailure::Setup(format!("dispatch: {other:?}")), None, Some(before)));
        }
    }
    let mut apply_results = Vec::new();
    for (rule, w, n) in seq {
        let stack = descent_stack(pre, *w);
        match engine.apply_in_warp(tx, u.warp(*w), rule, &u.node(*n), &stack) {
            Ok(r) => apply_results.push(format!("{r:?}")),
            Err(e) => {
                engine.abort(tx);
                return Err((TickFailure::Setup(format!("apply: {e:?}")), None, Some(before)));
            }
        }
    }
    match commit_classified(&mut engine, tx, before.clone(), apply_results) {
        Ok(o) => Ok(o),
        Err(f) => Err((f, Some(engine.state().clone()), Some(before))),
    }
}

fn commit_classified(
    engine: &mut Engine,
    tx: warp_core::TxId,
    pre: WarpState,
    apply_results: Vec<String>,
) -> Result<TickOutcome, TickFailure> {
    let res = std::panic::catch_unwind(std::panic::AssertUnwindSafe(|| engine.commit_with_receipt(tx)));
    match res {
        Ok(Ok((snapshot, receipt, patch))) => {
            let applied = receipt
                .entries()
                .iter()
                .map(|e| matches!(e.disposition, TickReceiptDisposition::Applied))
                .collect();
            Ok(TickOutcome { snapshot, receipt, patch, post: engine.state().clone(), pre, applied, apply_results })
        }
        Ok(Err(e)) => Err(TickFailure::EngineError(format!("{e:?}"))),
        Err(p) => {
            if let Some(v) = p.downcast_ref::<FootprintViolation>() {
                Err(TickFailure::Violation { kind: format!("{:?}", v.kind), op_kind: v.op_kind.to_string(), with_panic: false })
            } else if let Some(v) = p.downcast_ref::<FootprintViolationWithPanic>() {
                Err(TickFailure::Violation { kind: format!("{:?}", v.violation.kind), op_kind: v.violation.op_kind.to_string(), with_panic: true })
            } else {
                Err(TickFailure::Panic(mc::panic_message(&p)))
            }
        }
    }
}

/// Abstract form of [`descent_stack`]: the portal slots (root → … → `w`) a rewrite inside `w` is
/// reached through, which the engine adds to its read set.
pub fn descent_slots(pre: &RefState, w: W) -> Vec<world::RefSlot> {
    let mut chain = Vec::new();
    let mut cur = w;
    let mut guard = 0;
    while let Some(inst) = pre.instances.get(&cur) {
        let Some(slot) = inst.parent else { break };
        chain.push(slot);
        cur = match slot {
            world::RefSlot::Node(pw, _) | world::RefSlot::Edge(pw, _) => pw,
        };
        guard += 1;
        if guard > 8 {
            break;
        }
    }
    chain.reverse();
    chain
}

/// The chain of portal slots from the root instance down to `w` (root → … → w), as the engine's
/// `descent_stack` argument expects.
pub fn descent_stack(pre: &RefState, w: W) -> Vec<warp_core::AttachmentKey> {
    let u = universe();
    let mut chain = Vec::new();
    let mut cur = w;
    let mut guard = 0;
    while let Some(inst) = pre.instances.get(&cur) {
        let Some(slot) = inst.parent else { break };
        chain.push(u.slot_key(slot));
        cur = match slot {
            world::RefSlot::Node(pw, _) | world::RefSlot::Edge(pw, _) => pw,
        };
        guard += 1;
        if guard > 8 {
            break;
        }
    }
    chain.reverse();
    chain
}

/// Byte fingerprint of everything C01/C02 call "the outcome": snapshot hashes, receipt entries
/// with dispositions and blockers, patch (digest, ops, slots), post-state.
pub fn outcome_fingerprint(o: &TickOutcome) -> Vec<u8> {
    let mut s = String::new();
    let sn = &o.snapshot;
    s.push_str(&format!(
        "hash={} root={} parents={:?} plan={} decision={} rewrites={} patch={} policy={}\n",
        mc::hex(&sn.hash),
        mc::hex(&sn.state_root),
        sn.parents.iter().map(|p| mc::hex(p)).collect::<Vec<_>>(),
        mc::hex(&sn.plan_digest),
        mc::hex(&sn.decision_digest),
        mc::hex(&sn.rewrites_digest),
        mc::hex(&sn.patch_digest),
        sn.policy_id
    ));
    for (i, e) in o.receipt.entries().iter().enumerate() {
        s.push_str(&format!(
            "entry {i}: rule={} scope_hash={} scope={:?} disp={:?} blocked_by={:?}\n",
            mc::hex(&e.rule_id),
            mc::hex(&e.scope_hash),
            e.scope,
            e.disposition,
            o.receipt.blocked_by(i)
        ));
    }
    s.push_str(&format!("receipt_digest={}\n", mc::hex(&o.receipt.digest())));
    s.push_str(&format!(
        "patch digest={} ops={:?} in={:?} out={:?}\n",
        mc::hex(&o.patch.digest()),
        o.patch.ops(),
        o.patch.in_slots(),
        o.patch.out_slots()
    ));
    s.push_str(&format!("post={:?}\n", universe().read(&o.post)));
    s.into_bytes()
}
