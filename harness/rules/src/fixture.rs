//! Runtime fixture: a real `WorldlineRuntime` + `ProvenanceService` + `Engine` with the
//! interpreter rules registered, driven by intents whose bytes are programs.
//!
//! `WorldlineRuntime` and `ProvenanceService` are `Clone + Debug`; `Engine` is not `Clone`, so an
//! explicit-state search keeps `(runtime, provenance)` as the cloned state and makes a fresh
//! engine per transition with [`fresh_engine`] (engine-owned configuration is constant: rules,
//! policy, scheduler kind, workers).

use warp_core::{
    make_head_id, make_intent_kind, Engine, EngineBuilder, GraphStore, InboxAddress, InboxPolicy,
    IngressEnvelope, IngressTarget, IntentKind, NodeRecord, PlaybackMode, ProvenanceService,
    RuntimeError, SchedulerCoordinator, SchedulerKind, StepRecord, WorldlineId, WorldlineRuntime,
    WorldlineState, WriterHead, WriterHeadKey,
};
use world::RefState;

use crate::{all_rules, universe, Program};

/// Worldline id `[n; 32]`.
pub fn wl(n: u8) -> WorldlineId {
    WorldlineId::from_bytes([n; 32])
}

/// Intent kind used for program intents.
pub fn prog_kind() -> IntentKind {
    make_intent_kind("verif/program")
}
/// A second kind (for kind-filter policies).
pub fn other_kind() -> IntentKind {
    make_intent_kind("verif/other")
}

/// A fresh engine with the interpreter rules registered.
pub fn fresh_engine(kind: SchedulerKind, workers: usize) -> Engine {
    let u = universe();
    let mut store = GraphStore::default();
    store.insert_node(u.node(0), NodeRecord { ty: u.ty(0) });
    let mut e = EngineBuilder::new(store, u.node(0))
        .scheduler(kind)
        .workers(workers)
        .build();
    for r in all_rules() {
        let _ = e.register_rule(r);
    }
    e
}

/// The default base state of a worldline: single instance, nodes n0 (root), n1, n2 of type t0,
/// edge e0: n0→n1.
pub fn base_state() -> RefState {
    let mut s = RefState::default();
    s.instances.insert(
        0,
        world::RefInstance {
            root: 0,
            parent: None,
        },
    );
    s.nodes.insert((0, 0), 0);
    s.nodes.insert((0, 1), 0);
    s.nodes.insert((0, 2), 0);
    s.edges.insert(
        (0, 0),
        world::RefEdge {
            from: 0,
            to: 1,
            ty: 0,
        },
    );
    s
}

/// The real `WorldlineState` for an abstract state.
pub fn worldline_state(s: &RefState) -> WorldlineState {
    let u = universe();
    WorldlineState::new(u.build(s), u.root_key(s)).expect("well-formed base state")
}

/// Runtime + provenance (cloneable part of the system).
#[derive(Clone, Debug)]
pub struct Rt {
    pub runtime: WorldlineRuntime,
    pub provenance: ProvenanceService,
    /// Registered heads in registration order.
    pub heads: Vec<WriterHeadKey>,
}

impl Rt {
    /// `worldlines` worldlines (ids `wl(1)`, `wl(2)` …), each with `heads_per` writer heads
    /// (`h0` is the default writer; `h1` also serves the named inbox `"named"`), all `AcceptAll`.
    pub fn new(worldlines: u8, heads_per: u8) -> Rt {
        let mut runtime = WorldlineRuntime::new();
        let mut heads = Vec::new();
        for w in 1..=worldlines {
            runtime
                .register_worldline(wl(w), worldline_state(&base_state()))
                .expect("register worldline");
            for h in 0..heads_per {
                let key = WriterHeadKey {
                    worldline_id: wl(w),
                    head_id: make_head_id(&format!("h{h}")),
                };
                runtime
                    .register_writer_head(WriterHead::with_routing(
                        key,
                        PlaybackMode::Play,
                        InboxPolicy::AcceptAll,
                        if h == 1 {
                            Some(InboxAddress("named".to_owned()))
                        } else {
                            None
                        },
                        h == 0,
                    ))
                    .expect("register head");
                heads.push(key);
            }
        }
        let mut provenance = ProvenanceService::new();
        for (id, frontier) in runtime.worldlines().iter() {
            provenance
                .register_worldline(*id, frontier.state())
                .expect("register provenance");
        }
        Rt {
            runtime,
            provenance,
            heads,
        }
    }

    /// One scheduler pass on a fresh engine.
    pub fn super_tick(&mut self, kind: SchedulerKind) -> Result<Vec<StepRecord>, RuntimeError> {
        let mut engine = fresh_engine(kind, 1);
        SchedulerCoordinator::super_tick(&mut self.runtime, &mut self.provenance, &mut engine)
    }

    /// One scheduler pass on a caller-owned engine.
    pub fn super_tick_with(
        &mut self,
        engine: &mut Engine,
    ) -> Result<Vec<StepRecord>, RuntimeError> {
        SchedulerCoordinator::super_tick(&mut self.runtime, &mut self.provenance, engine)
    }

    /// Full `Debug` fingerprint of the cloneable system state.
    pub fn fingerprint(&self) -> Vec<u8> {
        format!("{:?}\n{:?}", self.runtime, self.provenance).into_bytes()
    }
}

/// An intent carrying `program` for the default writer of `worldline`.
pub fn intent_default(worldline: WorldlineId, program: &Program) -> IngressEnvelope {
    IngressEnvelope::local_intent(
        IngressTarget::DefaultWriter {
            worldline_id: worldline,
        },
        prog_kind(),
        program.to_bytes(),
    )
}

/// An intent for an exact head.
pub fn intent_exact(head: WriterHeadKey, kind: IntentKind, program: &Program) -> IngressEnvelope {
    IngressEnvelope::local_intent(IngressTarget::ExactHead { key: head }, kind, program.to_bytes())
}
