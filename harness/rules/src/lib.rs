//! Data-driven rewrite rules.
//!
//! Rule function pointers cannot capture, so the *program* a rewrite executes is carried by data
//! the rule can read through its `GraphView`: the attachment of its **scope node**.
//!
//! * Direct engine use (`Engine::apply`): the pre-state contains "program carrier" nodes
//!   `p0..p7` (universe nodes 4..12) whose α attachment is `Atom(PROG_TYPE, program bytes)`;
//!   a candidate is `(rule, carrier node)`.
//! * Runtime ingress (`WorldlineRuntime::ingest` + `super_tick`): the engine materialises an event
//!   node whose attachment holds the intent bytes; an intent whose bytes are program bytes is
//!   matched by the `cmd/verif-*` rules below (rules named `cmd/…` are tried on ingress events).
//!
//! A [`Program`] is a list of [`Step`]s over the fixed [`universe()`].  From a program we derive
//! * the **honest footprint** (every read the executor performs, every op target as the
//!   repository's own attribution documents it, plus the read of the carrier attachment),
//! * "omit exactly item k" dishonest variants (C14),
//! * a **reference interpretation** over `world::RefState` ([`ref_effects`], [`RefOp`]).
//!
//! Three registered rules share the same interpreter and differ only in id/name, so that two
//! candidates can share a scope and differ in rule id.

use std::sync::OnceLock;

use bytes::Bytes;
use warp_core::{
    make_type_id, AtomPayload, AttachmentKey, AttachmentValue, ConflictPolicy, EdgeKey, EdgeRecord,
    Footprint, GraphView, NodeId, NodeKey, NodeRecord, PatternGraph, PortalInit, RewriteRule,
    TickDelta, WarpId, WarpInstance, WarpOp,
};
use world::{RefAtt, RefEdge, RefInstance, RefSlot, RefState, Universe, E, N, T, W};

/// Magic prefix of program bytes.
pub const MAGIC: &[u8; 4] = b"VPRG";
/// Index of the program attachment type in [`universe()`].types.
pub const T_PROG: T = 3;
/// First program-carrier node index.
pub const CARRIER0: N = 4;
/// Number of carrier nodes.
pub const CARRIERS: N = 8;

/// The fixed universe: 3 instances, nodes n0..n3 + carriers p0..p7, 3 edges, types t0..t2 + program type.
pub fn universe() -> &'static Universe {
    static U: OnceLock<Universe> = OnceLock::new();
    U.get_or_init(|| {
        let mut u = Universe::labelled(3, 12, 3, 3);
        u.types.push(make_type_id("verif/program"));
        // Carrier ids are chosen by a deterministic label search so that work-unit sharding
        // (shard = first id byte) both collides and separates them: carriers 4,5 share a shard,
        // 6,7 share another, 8..11 are pairwise distinct and distinct from those.
        let shard = |n: &warp_core::NodeId| n.0[0];
        let mut pool: Vec<warp_core::NodeId> = (0..4000)
            .map(|j| warp_core::make_node_id(&format!("verif/p{j}")))
            .collect();
        let mut take = |pred: &dyn Fn(&warp_core::NodeId) -> bool| -> warp_core::NodeId {
            let i = pool.iter().position(|n| pred(n)).expect("label search");
            pool.remove(i)
        };
        let c4 = take(&|_| true);
        let s45 = shard(&c4);
        let c5 = take(&|n| shard(n) == s45);
        let c6 = take(&|n| shard(n) != s45);
        let s67 = shard(&c6);
        let c7 = take(&|n| shard(n) == s67);
        let mut used = vec![s45, s67];
        let mut rest = Vec::new();
        for _ in 0..4 {
            let u2 = used.clone();
            let c = take(&|n| !u2.contains(&shard(n)));
            used.push(shard(&c));
            rest.push(c);
        }
        let carriers = [c4, c5, c6, c7, rest[0], rest[1], rest[2], rest[3]];
        for (i, c) in carriers.iter().enumerate() {
            u.nodes[4 + i] = *c;
        }
        u
    })
}

/// Attachment values programs can write (index → value).
pub fn val(ix: u8) -> Option<RefAtt> {
    match ix {
        0 => None,
        1 => Some(RefAtt::Atom(0, b"A".to_vec())),
        2 => Some(RefAtt::Atom(0, b"AB".to_vec())),
        3 => Some(RefAtt::Atom(1, b"A".to_vec())),
        4 => Some(RefAtt::Atom(0, Vec::new())),
        5 => Some(RefAtt::Atom(0, b"B".to_vec())),
        // re-assert a portal: writing the value the slot already holds is a valid op that still
        // DECLARES a write of the portal slot (conflicts with every rewrite reached through it)
        254 => Some(RefAtt::Descend(1)),
        255 => Some(RefAtt::Descend(2)),
        _ => Some(RefAtt::Atom(2, vec![ix])),
    }
}

/// One step of a program.  Node/edge arguments are universe indices in the scope's instance.
#[derive(Clone, Copy, Debug, PartialEq, Eq, PartialOrd, Ord, Hash)]
pub enum Step {
    /// `SetAttachment(node n α, val(v))`.
    SetNodeAtt { n: N, v: u8 },
    /// Read node `from`'s attachment and write it to node `to`.
    CopyNodeAtt { from: N, to: N },
    UpsertNode { n: N, ty: T },
    DeleteNode { n: N },
    UpsertEdge { e: E, from: N, to: N, ty: T },
    DeleteEdge { e: E, from: N },
    SetEdgeAtt { e: E, v: u8 },
    /// Pure reads (exercise read enforcement).
    ReadNode { n: N },
    ReadAdj { n: N },
    ReadNodeAtt { n: N },
    ReadEdgeAtt { e: E },
    HasEdge { e: E },
    /// Executor panics at this point.
    Panic,
    /// Instance-level op emitted by a user rule (always a violation under enforcement).
    OpenPortal { n: N, w: W, root: N },
    UpsertInstance { w: W, root: N },
    /// Write into another instance than the scope's.
    CrossSetNodeAtt { w: W, n: N, v: u8 },
    /// Match precondition (matcher only; contributes a read to the honest footprint).
    RequireNode { n: N },
    RequireNoNode { n: N },
    RequireEdge { e: E },
    /// Emits `DeleteNode` for a node that the matcher did not require (may be an invalid op).
    DeleteNodeUnchecked { n: N },
}

/// A program plus dishonesty knobs.
#[derive(Clone, Debug, PartialEq, Eq, PartialOrd, Ord, Hash, Default)]
pub struct Program {
    pub steps: Vec<Step>,
    /// Index into [`Program::honest_items`] of the footprint item to omit (255 = honest).
    pub omit: u8,
}

impl Program {
    pub fn new(steps: Vec<Step>) -> Self {
        Program { steps, omit: 255 }
    }
    pub fn omitting(&self, k: u8) -> Self {
        Program {
            steps: self.steps.clone(),
            omit: k,
        }
    }

    /// Serialise: MAGIC, omit, then 6 bytes per step.
    pub fn to_bytes(&self) -> Vec<u8> {
        let mut out = MAGIC.to_vec();
        out.push(self.omit);
        for s in &self.steps {
            let b: [u8; 6] = match *s {
                Step::SetNodeAtt { n, v } => [0, n, v, 0, 0, 0],
                Step::CopyNodeAtt { from, to } => [1, from, to, 0, 0, 0],
                Step::UpsertNode { n, ty } => [2, n, ty, 0, 0, 0],
                Step::DeleteNode { n } => [3, n, 0, 0, 0, 0],
                Step::UpsertEdge { e, from, to, ty } => [4, e, from, to, ty, 0],
                Step::DeleteEdge { e, from } => [5, e, from, 0, 0, 0],
                Step::SetEdgeAtt { e, v } => [6, e, v, 0, 0, 0],
                Step::ReadNode { n } => [7, n, 0, 0, 0, 0],
                Step::ReadAdj { n } => [8, n, 0, 0, 0, 0],
                Step::ReadNodeAtt { n } => [9, n, 0, 0, 0, 0],
                Step::ReadEdgeAtt { e } => [10, e, 0, 0, 0, 0],
                Step::HasEdge { e } => [11, e, 0, 0, 0, 0],
                Step::Panic => [12, 0, 0, 0, 0, 0],
                Step::OpenPortal { n, w, root } => [13, n, w, root, 0, 0],
                Step::UpsertInstance { w, root } => [14, w, root, 0, 0, 0],
                Step::CrossSetNodeAtt { w, n, v } => [15, w, n, v, 0, 0],
                Step::RequireNode { n } => [16, n, 0, 0, 0, 0],
                Step::RequireNoNode { n } => [17, n, 0, 0, 0, 0],
                Step::RequireEdge { e } => [18, e, 0, 0, 0, 0],
                Step::DeleteNodeUnchecked { n } => [19, n, 0, 0, 0, 0],
            };
            out.extend_from_slice(&b);
        }
        out
    }

    pub fn from_bytes(b: &[u8]) -> Option<Program> {
        if b.len() < 5 || &b[..4] != MAGIC || (b.len() - 5) % 6 != 0 {
            return None;
        }
        let omit = b[4];
        let mut steps = Vec::new();
        for c in b[5..].chunks(6) {
            let s = match c[0] {
                0 => Step::SetNodeAtt { n: c[1], v: c[2] },
                1 => Step::CopyNodeAtt {
                    from: c[1],
                    to: c[2],
                },
                2 => Step::UpsertNode { n: c[1], ty: c[2] },
                3 => Step::DeleteNode { n: c[1] },
                4 => Step::UpsertEdge {
                    e: c[1],
                    from: c[2],
                    to: c[3],
                    ty: c[4],
                },
                5 => Step::DeleteEdge {
                    e: c[1],
                    from: c[2],
                },
                6 => Step::SetEdgeAtt { e: c[1], v: c[2] },
                7 => Step::ReadNode { n: c[1] },
                8 => Step::ReadAdj { n: c[1] },
                9 => Step::ReadNodeAtt { n: c[1] },
                10 => Step::ReadEdgeAtt { e: c[1] },
                11 => Step::HasEdge { e: c[1] },
                12 => Step::Panic,
                13 => Step::OpenPortal {
                    n: c[1],
                    w: c[2],
                    root: c[3],
                },
                14 => Step::UpsertInstance {
                    w: c[1],
                    root: c[2],
                },
                15 => Step::CrossSetNodeAtt {
                    w: c[1],
                    n: c[2],
                    v: c[3],
                },
                16 => Step::RequireNode { n: c[1] },
                17 => Step::RequireNoNode { n: c[1] },
                18 => Step::RequireEdge { e: c[1] },
                19 => Step::DeleteNodeUnchecked { n: c[1] },
                _ => return None,
            };
            // bounds: indices must address the universe
            let u = universe();
            let ok = match s {
                Step::SetNodeAtt { n, .. }
                | Step::UpsertNode { n, .. }
                | Step::DeleteNode { n }
                | Step::ReadNode { n }
                | Step::ReadAdj { n }
                | Step::ReadNodeAtt { n }
                | Step::RequireNode { n }
                | Step::RequireNoNode { n }
                | Step::DeleteNodeUnchecked { n } => (n as usize) < u.nodes.len(),
                Step::CopyNodeAtt { from, to } => {
                    (from as usize) < u.nodes.len() && (to as usize) < u.nodes.len()
                }
                Step::UpsertEdge { e, from, to, ty } => {
                    (e as usize) < u.edges.len()
                        && (from as usize) < u.nodes.len()
                        && (to as usize) < u.nodes.len()
                        && (ty as usize) < u.types.len()
                }
                Step::DeleteEdge { e, from } => {
                    (e as usize) < u.edges.len() && (from as usize) < u.nodes.len()
                }
                Step::SetEdgeAtt { e, .. }
                | Step::ReadEdgeAtt { e }
                | Step::HasEdge { e }
                | Step::RequireEdge { e } => (e as usize) < u.edges.len(),
                Step::Panic => true,
                Step::OpenPortal { n, w, root } => {
                    (n as usize) < u.nodes.len()
                        && (w as usize) < u.warps.len()
                        && (root as usize) < u.nodes.len()
                }
                Step::UpsertInstance { w, root } => {
                    (w as usize) < u.warps.len() && (root as usize) < u.nodes.len()
                }
                Step::CrossSetNodeAtt { w, n, .. } => {
                    (w as usize) < u.warps.len() && (n as usize) < u.nodes.len()
                }
            };
            if !ok {
                return None;
            }
            if let Step::UpsertNode { ty, .. } = s {
                if (ty as usize) >= u.types.len() {
                    return None;
                }
            }
            steps.push(s);
        }
        Some(Program { steps, omit })
    }

    /// The carrier attachment value for this program.
    pub fn carrier_att(&self) -> RefAtt {
        RefAtt::Atom(T_PROG, self.to_bytes())
    }

    /// Honest footprint items in a fixed order (item 0 is always the read of the scope's
    /// own attachment, which is how the executor learns its program).
    pub fn honest_items(&self, scope: Scope) -> Vec<FpItem> {
        let mut items = vec![FpItem::ARead(RefSlotOrScope::Scope)];
        let _ = scope;
        let mut push = |it: FpItem| {
            if !items.contains(&it) {
                items.push(it);
            }
        };
        for s in &self.steps {
            match *s {
                Step::SetNodeAtt { n, .. } => push(FpItem::AWrite(RefSlotOrScope::Node(n))),
                Step::CopyNodeAtt { from, to } => {
                    push(FpItem::ARead(RefSlotOrScope::Node(from)));
                    push(FpItem::AWrite(RefSlotOrScope::Node(to)));
                }
                Step::UpsertNode { n, .. } => push(FpItem::NWrite(n)),
                Step::DeleteNode { n } | Step::DeleteNodeUnchecked { n } => {
                    push(FpItem::NWrite(n));
                    push(FpItem::AWrite(RefSlotOrScope::Node(n)));
                }
                Step::UpsertEdge { e, from, .. } => {
                    push(FpItem::NWrite(from));
                    push(FpItem::EWrite(e));
                }
                Step::DeleteEdge { e, from } => {
                    push(FpItem::NWrite(from));
                    push(FpItem::EWrite(e));
                    push(FpItem::AWrite(RefSlotOrScope::Edge(e)));
                }
                Step::SetEdgeAtt { e, .. } => push(FpItem::AWrite(RefSlotOrScope::Edge(e))),
                Step::ReadNode { n } | Step::ReadAdj { n } => push(FpItem::NRead(n)),
                Step::RequireNode { n } | Step::RequireNoNode { n } => push(FpItem::NRead(n)),
                Step::ReadNodeAtt { n } => push(FpItem::ARead(RefSlotOrScope::Node(n))),
                Step::ReadEdgeAtt { e } => push(FpItem::ARead(RefSlotOrScope::Edge(e))),
                Step::HasEdge { e } | Step::RequireEdge { e } => push(FpItem::ERead(e)),
                Step::Panic => {}
                // instance-level / cross-instance steps cannot be declared honestly by a user
                // rule; they declare the attachment slot they touch in the scope's instance.
                Step::OpenPortal { n, .. } => push(FpItem::AWrite(RefSlotOrScope::Node(n))),
                Step::UpsertInstance { .. } | Step::CrossSetNodeAtt { .. } => {}
            }
        }
        items
    }

    /// True when the program contains a step that can never be lawful for a user rule.
    pub fn is_inherently_unlawful(&self) -> bool {
        self.steps.iter().any(|s| {
            matches!(
                s,
                Step::OpenPortal { .. } | Step::UpsertInstance { .. } | Step::CrossSetNodeAtt { .. }
            )
        })
    }
}

/// Where a rewrite runs (only the instance matters for key construction).
#[derive(Clone, Copy, Debug, PartialEq, Eq)]
pub struct Scope {
    pub w: W,
}

#[derive(Clone, Copy, Debug, PartialEq, Eq, PartialOrd, Ord, Hash)]
pub enum RefSlotOrScope {
    Scope,
    Node(N),
    Edge(E),
}

/// One footprint item.
#[derive(Clone, Copy, Debug, PartialEq, Eq, PartialOrd, Ord, Hash)]
pub enum FpItem {
    NRead(N),
    NWrite(N),
    ERead(E),
    EWrite(E),
    ARead(RefSlotOrScope),
    AWrite(RefSlotOrScope),
}

fn real_footprint(p: &Program, warp: WarpId, scope: &NodeId) -> Footprint {
    let u = universe();
    let mut fp = Footprint::default();
    let items = p.honest_items(Scope { w: 0 });
    for (i, it) in items.iter().enumerate() {
        if i as u8 == p.omit {
            continue;
        }
        let nk = |n: N| NodeKey {
            warp_id: warp,
            local_id: u.node(n),
        };
        let ek = |e: E| EdgeKey {
            warp_id: warp,
            local_id: u.edge(e),
        };
        let ak = |s: RefSlotOrScope| match s {
            RefSlotOrScope::Scope => AttachmentKey::node_alpha(NodeKey {
                warp_id: warp,
                local_id: *scope,
            }),
            RefSlotOrScope::Node(n) => AttachmentKey::node_alpha(nk(n)),
            RefSlotOrScope::Edge(e) => AttachmentKey::edge_beta(ek(e)),
        };
        match *it {
            FpItem::NRead(n) => fp.n_read.insert(nk(n)),
            FpItem::NWrite(n) => fp.n_write.insert(nk(n)),
            FpItem::ERead(e) => fp.e_read.insert(ek(e)),
            FpItem::EWrite(e) => fp.e_write.insert(ek(e)),
            FpItem::ARead(s) => fp.a_read.insert(ak(s)),
            FpItem::AWrite(s) => fp.a_write.insert(ak(s)),
        }
    }
    // Sound partition mask: every pair of footprints shares a bit, so the legacy scheduler's
    // prefilter never declares independence by mask alone.
    fp.factor_mask = u64::MAX;
    fp
}

fn program_of(view: GraphView<'_>, scope: &NodeId) -> Option<Program> {
    match view.node_attachment(scope) {
        Some(AttachmentValue::Atom(a)) => Program::from_bytes(&a.bytes),
        _ => None,
    }
}

fn matcher(view: GraphView<'_>, scope: &NodeId) -> bool {
    let Some(p) = program_of(view, scope) else {
        return false;
    };
    let u = universe();
    for s in &p.steps {
        let ok = match *s {
            Step::RequireNode { n } => view.node(&u.node(n)).is_some(),
            Step::RequireNoNode { n } => view.node(&u.node(n)).is_none(),
            Step::RequireEdge { e } => view.has_edge(&u.edge(e)),
            _ => true,
        };
        if !ok {
            return false;
        }
    }
    true
}

fn footprint(view: GraphView<'_>, scope: &NodeId) -> Footprint {
    match program_of(view, scope) {
        Some(p) => real_footprint(&p, view.warp_id(), scope),
        None => Footprint::default(),
    }
}

fn att_real(a: &Option<RefAtt>) -> Option<AttachmentValue> {
    a.as_ref().map(|a| universe().att_value(a))
}

fn executor(view: GraphView<'_>, scope: &NodeId, delta: &mut TickDelta) {
    let Some(p) = program_of(view, scope) else {
        return;
    };
    let u = universe();
    let warp = view.warp_id();
    let nk = |n: N| NodeKey {
        warp_id: warp,
        local_id: u.node(n),
    };
    for s in &p.steps {
        match *s {
            Step::SetNodeAtt { n, v } => delta.push(WarpOp::SetAttachment {
                key: AttachmentKey::node_alpha(nk(n)),
                value: att_real(&val(v)),
            }),
            Step::CopyNodeAtt { from, to } => {
                let v = view.node_attachment(&u.node(from)).cloned();
                delta.push(WarpOp::SetAttachment {
                    key: AttachmentKey::node_alpha(nk(to)),
                    value: v,
                });
            }
            Step::UpsertNode { n, ty } => delta.push(WarpOp::UpsertNode {
                node: nk(n),
                record: NodeRecord { ty: u.ty(ty) },
            }),
            Step::DeleteNode { n } | Step::DeleteNodeUnchecked { n } => {
                delta.push(WarpOp::DeleteNode { node: nk(n) });
            }
            Step::UpsertEdge { e, from, to, ty } => delta.push(WarpOp::UpsertEdge {
                warp_id: warp,
                record: EdgeRecord {
                    id: u.edge(e),
                    from: u.node(from),
                    to: u.node(to),
                    ty: u.ty(ty),
                },
            }),
            Step::DeleteEdge { e, from } => delta.push(WarpOp::DeleteEdge {
                warp_id: warp,
                from: u.node(from),
                edge_id: u.edge(e),
            }),
            Step::SetEdgeAtt { e, v } => delta.push(WarpOp::SetAttachment {
                key: AttachmentKey::edge_beta(EdgeKey {
                    warp_id: warp,
                    local_id: u.edge(e),
                }),
                value: att_real(&val(v)),
            }),
            Step::ReadNode { n } => {
                let _ = view.node(&u.node(n));
            }
            Step::ReadAdj { n } => {
                let _ = view.edges_from(&u.node(n)).count();
            }
            Step::ReadNodeAtt { n } => {
                let _ = view.node_attachment(&u.node(n));
            }
            Step::ReadEdgeAtt { e } => {
                let _ = view.edge_attachment(&u.edge(e));
            }
            Step::HasEdge { e } => {
                let _ = view.has_edge(&u.edge(e));
            }
            Step::Panic => std::panic::panic_any("verif program panic"),
            Step::OpenPortal { n, w, root } => delta.push(WarpOp::OpenPortal {
                key: AttachmentKey::node_alpha(nk(n)),
                child_warp: u.warp(w),
                child_root: u.node(root),
                init: PortalInit::Empty {
                    root_record: NodeRecord { ty: u.ty(0) },
                },
            }),
            Step::UpsertInstance { w, root } => delta.push(WarpOp::UpsertWarpInstance {
                instance: WarpInstance {
                    warp_id: u.warp(w),
                    root_node: u.node(root),
                    parent: None,
                },
            }),
            Step::CrossSetNodeAtt { w, n, v } => delta.push(WarpOp::SetAttachment {
                key: AttachmentKey::node_alpha(u.node_key(w, n)),
                value: att_real(&val(v)),
            }),
            Step::RequireNode { .. } | Step::RequireNoNode { .. } | Step::RequireEdge { .. } => {}
        }
    }
}

/// Names of the registered interpreter rules.  `cmd/…` names are also tried on runtime ingress.
pub const RULE_A: &str = "cmd/verif-a";
pub const RULE_B: &str = "cmd/verif-b";
pub const RULE_C: &str = "verif-c";
pub const RULE_NAMES: [&str; 3] = [RULE_A, RULE_B, RULE_C];

/// Rule ids (32-byte).  Chosen so that byte order of ids differs from registration order.
pub fn rule_id(name: &str) -> [u8; 32] {
    *blake3::hash(format!("verif-rule:{name}").as_bytes()).as_bytes()
}

/// Build one interpreter rule.
pub fn make_rule(name: &'static str) -> RewriteRule {
    RewriteRule {
        id: rule_id(name),
        name,
        left: PatternGraph { nodes: Vec::new() },
        matcher,
        executor,
        compute_footprint: footprint,
        factor_mask: u64::MAX,
        conflict_policy: ConflictPolicy::Abort,
        join_fn: None,
    }
}

/// All interpreter rules.
pub fn all_rules() -> Vec<RewriteRule> {
    RULE_NAMES.iter().map(|n| make_rule(n)).collect()
}

/// The real atom payload carrying a program (for `IngressEnvelope::local_intent` bytes use
/// `Program::to_bytes()` directly).
pub fn carrier_value(p: &Program) -> AttachmentValue {
    AttachmentValue::Atom(AtomPayload::new(
        universe().ty(T_PROG),
        Bytes::from(p.to_bytes()),
    ))
}

// ---------------------------------------------------------------------------------------------
// Reference interpretation
// ---------------------------------------------------------------------------------------------

/// Abstract op (mirrors what the statement calls "effects").
#[derive(Clone, Debug, PartialEq, Eq, PartialOrd, Ord, Hash)]
pub enum RefOp {
    DeleteEdge(W, E, N),
    DeleteNode(W, N),
    UpsertNode(W, N, T),
    UpsertEdge(W, E, RefEdge),
    SetAtt(RefSlot, Option<RefAtt>),
}

/// Does the program match in `pre` (instance `w`)?
pub fn ref_matches(p: &Program, pre: &RefState, w: W) -> bool {
    p.steps.iter().all(|s| match *s {
        Step::RequireNode { n } => pre.nodes.contains_key(&(w, n)),
        Step::RequireNoNode { n } => !pre.nodes.contains_key(&(w, n)),
        Step::RequireEdge { e } => pre.edges.contains_key(&(w, e)),
        _ => true,
    })
}

/// Effects of the program computed against `pre` (never against a partially updated state).
/// `None` when the program contains steps outside the reference's domain (panic, instance ops).
pub fn ref_effects(p: &Program, pre: &RefState, w: W) -> Option<Vec<RefOp>> {
    let mut out = Vec::new();
    for s in &p.steps {
        match *s {
            Step::SetNodeAtt { n, v } => out.push(RefOp::SetAtt(RefSlot::Node(w, n), val(v))),
            Step::CopyNodeAtt { from, to } => out.push(RefOp::SetAtt(
                RefSlot::Node(w, to),
                pre.atts.get(&RefSlot::Node(w, from)).cloned(),
            )),
            Step::UpsertNode { n, ty } => out.push(RefOp::UpsertNode(w, n, ty)),
            Step::DeleteNode { n } | Step::DeleteNodeUnchecked { n } => {
                out.push(RefOp::DeleteNode(w, n));
            }
            Step::UpsertEdge { e, from, to, ty } => {
                out.push(RefOp::UpsertEdge(w, e, RefEdge { from, to, ty }));
            }
            Step::DeleteEdge { e, from } => out.push(RefOp::DeleteEdge(w, e, from)),
            Step::SetEdgeAtt { e, v } => out.push(RefOp::SetAtt(RefSlot::Edge(w, e), val(v))),
            Step::ReadNode { .. }
            | Step::ReadAdj { .. }
            | Step::ReadNodeAtt { .. }
            | Step::ReadEdgeAtt { .. }
            | Step::HasEdge { .. }
            | Step::RequireNode { .. }
            | Step::RequireNoNode { .. }
            | Step::RequireEdge { .. } => {}
            Step::Panic
            | Step::OpenPortal { .. }
            | Step::UpsertInstance { .. }
            | Step::CrossSetNodeAtt { .. } => return None,
        }
    }
    Some(out)
}

/// Apply a set of abstract ops to an abstract state in the documented canonical phase order
/// (edge deletions, node deletions, node upserts, edge upserts, attachment writes).  Returns
/// `Err` when an op is not applicable (missing edge, node with incident edges, attachment owner
/// missing) — the reference for "invalid op".
pub fn ref_apply(pre: &RefState, ops: &[RefOp]) -> Result<RefState, String> {
    let mut s = pre.clone();
    let mut sorted: Vec<&RefOp> = ops.iter().collect();
    sorted.sort();
    sorted.dedup();
    for op in sorted {
        match op {
            RefOp::DeleteEdge(w, e, from) => match s.edges.get(&(*w, *e)) {
                Some(r) if r.from == *from => {
                    s.edges.remove(&(*w, *e));
                    s.atts.remove(&RefSlot::Edge(*w, *e));
                }
                _ => return Err(format!("DeleteEdge e{e}: missing or wrong bucket")),
            },
            RefOp::DeleteNode(w, n) => {
                if !s.nodes.contains_key(&(*w, *n)) {
                    return Err(format!("DeleteNode n{n}: missing"));
                }
                if s
                    .edges
                    .iter()
                    .any(|((ew, _), r)| ew == w && (r.from == *n || r.to == *n))
                {
                    return Err(format!("DeleteNode n{n}: not isolated"));
                }
                s.nodes.remove(&(*w, *n));
                s.atts.remove(&RefSlot::Node(*w, *n));
            }
            RefOp::UpsertNode(w, n, t) => {
                s.nodes.insert((*w, *n), *t);
            }
            RefOp::UpsertEdge(w, e, r) => {
                // re-parenting keeps the edge's attachment: the op only replaces the record
                s.edges.insert((*w, *e), *r);
            }
            RefOp::SetAtt(slot, v) => {
                let owner_ok = match slot {
                    RefSlot::Node(w, n) => s.nodes.contains_key(&(*w, *n)),
                    RefSlot::Edge(w, e) => s.edges.contains_key(&(*w, *e)),
                };
                if !owner_ok {
                    return Err(format!("SetAtt {slot:?}: owner missing"));
                }
                match v {
                    Some(a) => {
                        s.atts.insert(*slot, a.clone());
                    }
                    None => {
                        s.atts.remove(slot);
                    }
                }
            }
        }
    }
    Ok(s)
}

/// Reference conflict predicate on honest footprint items (same instance assumed by caller):
/// a write overlapping the other's read or write of the same node, edge or attachment.
pub fn ref_conflict(a: &[FpItem], sa: N, b: &[FpItem], sb: N) -> bool {
    #[derive(PartialEq, Eq, Clone, Copy)]
    enum Res {
        N(N),
        E(E),
        A(RefSlotOrScopeResolved),
    }
    #[derive(PartialEq, Eq, Clone, Copy)]
    enum RefSlotOrScopeResolved {
        Node(N),
        Edge(E),
    }
    let res = |it: &FpItem, scope: N| -> (Res, bool) {
        let slot = |s: RefSlotOrScope| match s {
            RefSlotOrScope::Scope => RefSlotOrScopeResolved::Node(scope),
            RefSlotOrScope::Node(n) => RefSlotOrScopeResolved::Node(n),
            RefSlotOrScope::Edge(e) => RefSlotOrScopeResolved::Edge(e),
        };
        match *it {
            FpItem::NRead(n) => (Res::N(n), false),
            FpItem::NWrite(n) => (Res::N(n), true),
            FpItem::ERead(e) => (Res::E(e), false),
            FpItem::EWrite(e) => (Res::E(e), true),
            FpItem::ARead(s) => (Res::A(slot(s)), false),
            FpItem::AWrite(s) => (Res::A(slot(s)), true),
        }
    };
    for x in a {
        let (rx, wx) = res(x, sa);
        for y in b {
            let (ry, wy) = res(y, sb);
            if rx == ry && (wx || wy) {
                return true;
            }
        }
    }
    false
}

/// Convenience: a pre-state with carrier nodes holding `programs[i]` on carrier `CARRIER0+i`
/// in instance `w` (carriers are isolated, unreachable nodes of type t2).
pub fn with_carriers(base: &RefState, w: W, programs: &[Program]) -> RefState {
    let mut s = base.clone();
    for (i, p) in programs.iter().enumerate() {
        let n = CARRIER0 + i as N;
        s.nodes.insert((w, n), 2);
        s.atts.insert(RefSlot::Node(w, n), p.carrier_att());
    }
    s
}

/// Unused-parameter shim so `RefInstance` stays imported for downstream users.
pub fn root_instance() -> RefInstance {
    RefInstance {
        root: 0,
        parent: None,
    }
}
pub mod tick;
pub mod fixture;
pub mod pool;

/// The interpreter's executor as a plain `ExecuteFn` (for `ExecItem::new`).
pub fn executor_fn() -> warp_core::ExecuteFn {
    executor
}

impl Program {
    /// The dishonest variant that omits exactly `item` from the declared footprint
    /// (`None` if the honest footprint does not contain it).
    pub fn omitting_item(&self, item: FpItem) -> Option<Program> {
        let items = self.honest_items(Scope { w: 0 });
        items
            .iter()
            .position(|i| *i == item)
            .map(|k| self.omitting(k as u8))
    }
}
