//! Pre-states, the program menu and candidate pools shared by C01 / C02 / C04(a) / C14.

use world::{RefAtt, RefEdge, RefInstance, RefSlot, RefState, N, W};

use crate::tick::Cand;
use crate::{with_carriers, Program, Step, CARRIER0, RULE_A, RULE_B};

/// A tick scenario: a pre-state (with carriers loaded) and the pool of candidates that match.
#[derive(Clone, Debug)]
pub struct Scenario {
    pub name: &'static str,
    pub pre: RefState,
    /// (candidate, program it runs)
    pub pool: Vec<(Cand, Program)>,
}

fn atom(t: u8, b: &[u8]) -> RefAtt {
    RefAtt::Atom(t, b.to_vec())
}

/// Chain n0→n1→n2 with attachments on n1 and e0, plus an isolated node n3.
pub fn pre_chain() -> RefState {
    let mut s = RefState::default();
    s.instances.insert(
        0,
        RefInstance {
            root: 0,
            parent: None,
        },
    );
    for n in 0..4u8 {
        s.nodes.insert((0, n), 0);
    }
    s.edges.insert(
        (0, 0),
        RefEdge {
            from: 0,
            to: 1,
            ty: 0,
        },
    );
    s.edges.insert(
        (0, 1),
        RefEdge {
            from: 1,
            to: 2,
            ty: 0,
        },
    );
    s.atts.insert(RefSlot::Node(0, 1), atom(0, b"A"));
    s.atts.insert(RefSlot::Edge(0, 0), atom(0, b"A"));
    s
}

/// Diamond-ish: n0→n1 (e0), n0→n2 (e1), no n3, attachment on n2.
pub fn pre_diamond() -> RefState {
    let mut s = RefState::default();
    s.instances.insert(
        0,
        RefInstance {
            root: 0,
            parent: None,
        },
    );
    for n in 0..3u8 {
        s.nodes.insert((0, n), if n == 2 { 1 } else { 0 });
    }
    s.edges.insert(
        (0, 0),
        RefEdge {
            from: 0,
            to: 1,
            ty: 0,
        },
    );
    s.edges.insert(
        (0, 1),
        RefEdge {
            from: 0,
            to: 2,
            ty: 1,
        },
    );
    s.atts.insert(RefSlot::Node(0, 2), atom(0, b"AB"));
    s
}

/// Two instances: W0 {n0 root → n1 (e0)}, portal on n1 into W1 {n0 root, n1, e0: n0→n1}.
pub fn pre_portal() -> RefState {
    let mut s = RefState::default();
    s.instances.insert(
        0,
        RefInstance {
            root: 0,
            parent: None,
        },
    );
    s.instances.insert(
        1,
        RefInstance {
            root: 0,
            parent: Some(RefSlot::Node(0, 1)),
        },
    );
    for n in 0..3u8 {
        s.nodes.insert((0, n), 0);
    }
    s.nodes.insert((1, 0), 0);
    s.nodes.insert((1, 1), 0);
    s.nodes.insert((1, 2), 0);
    s.edges.insert(
        (0, 0),
        RefEdge {
            from: 0,
            to: 1,
            ty: 0,
        },
    );
    s.edges.insert(
        (1, 0),
        RefEdge {
            from: 0,
            to: 1,
            ty: 0,
        },
    );
    s.atts.insert(RefSlot::Node(0, 1), RefAtt::Descend(1));
    s.atts.insert(RefSlot::Node(1, 1), atom(0, b"A"));
    s
}

/// Three instances nested two deep: W0 {n0 root → n1 (e0)}, portal on W0.n1 into W1 {n0 root → n1
/// (e0)}, portal on W1.n1 into W2 {n0 root, n1 (attachment), n2}.  A rewrite inside W2 is reached
/// through BOTH portal slots, so it reads both (descent chain).
pub fn pre_nested() -> RefState {
    let mut s = RefState::default();
    s.instances.insert(0, RefInstance { root: 0, parent: None });
    s.instances.insert(1, RefInstance { root: 0, parent: Some(RefSlot::Node(0, 1)) });
    s.instances.insert(2, RefInstance { root: 0, parent: Some(RefSlot::Node(1, 1)) });
    for n in 0..3u8 {
        s.nodes.insert((0, n), 0);
        s.nodes.insert((2, n), 0);
    }
    s.nodes.insert((1, 0), 0);
    s.nodes.insert((1, 1), 0);
    s.edges.insert((0, 0), RefEdge { from: 0, to: 1, ty: 0 });
    s.edges.insert((1, 0), RefEdge { from: 0, to: 1, ty: 0 });
    s.atts.insert(RefSlot::Node(0, 1), RefAtt::Descend(1));
    s.atts.insert(RefSlot::Node(1, 1), RefAtt::Descend(2));
    s.atts.insert(RefSlot::Node(2, 1), atom(0, b"A"));
    s
}

/// The honest micro-program menu (index → program).
pub fn menu() -> Vec<Program> {
    vec![
        // 0 set attachment
        Program::new(vec![Step::SetNodeAtt { n: 1, v: 2 }]),
        // 1 copy attachment n1 -> n2 (reads n1)
        Program::new(vec![Step::CopyNodeAtt { from: 1, to: 2 }]),
        // 2 new edge e2: n2 -> n0
        Program::new(vec![Step::UpsertEdge {
            e: 2,
            from: 2,
            to: 0,
            ty: 0,
        }]),
        // 3 delete edge e1 (n1 -> n2 in chain)
        Program::new(vec![
            Step::RequireEdge { e: 1 },
            Step::DeleteEdge { e: 1, from: 1 },
        ]),
        // 4 retarget + retype e0 in place (same from)
        Program::new(vec![Step::UpsertEdge {
            e: 0,
            from: 0,
            to: 2,
            ty: 1,
        }]),
        // 5 retype node n1
        Program::new(vec![Step::UpsertNode { n: 1, ty: 1 }]),
        // 6 delete isolated node n3 (and its attachment)
        Program::new(vec![Step::RequireNode { n: 3 }, Step::DeleteNode { n: 3 }]),
        // 7 edge attachment
        Program::new(vec![Step::SetEdgeAtt { e: 0, v: 3 }]),
        // 8 read-only
        Program::new(vec![
            Step::ReadNode { n: 1 },
            Step::ReadAdj { n: 1 },
            Step::HasEdge { e: 0 },
            Step::ReadNodeAtt { n: 2 },
        ]),
        // 9 two ops: create node then attach data to it and an edge from it
        Program::new(vec![
            Step::RequireNoNode { n: 3 },
            Step::UpsertNode { n: 3, ty: 1 },
            Step::UpsertEdge {
                e: 2,
                from: 3,
                to: 0,
                ty: 0,
            },
        ]),
        // 10 clear attachment on n1
        Program::new(vec![Step::SetNodeAtt { n: 1, v: 0 }]),
        // 12 re-assert the portal W0.n1 -> W1 (writes the slot with the value it already holds)
        // 13 re-assert the portal W1.n1 -> W2
        // 11 re-parent e0 (n0 -> n1 becomes n2 -> n1), keeps its attachment
        Program::new(vec![
            Step::RequireEdge { e: 0 },
            Step::UpsertEdge {
                e: 0,
                from: 2,
                to: 1,
                ty: 0,
            },
        ]),
        // 12
        Program::new(vec![Step::SetNodeAtt { n: 1, v: 254 }]),
        // 13
        Program::new(vec![Step::SetNodeAtt { n: 1, v: 255 }]),
    ]
}

fn scenario(
    name: &'static str,
    base: RefState,
    w: W,
    progs: &[usize],
    second_rule_on: &[usize],
) -> Scenario {
    let m = menu();
    let programs: Vec<Program> = progs.iter().map(|i| m[*i].clone()).collect();
    let pre = with_carriers(&base, w, &programs);
    let mut pool = Vec::new();
    for (i, p) in programs.iter().enumerate() {
        if !crate::ref_matches(p, &pre, w) {
            continue;
        }
        let n: N = CARRIER0 + i as N;
        pool.push(((RULE_A, w, n), p.clone()));
        if second_rule_on.contains(&i) {
            pool.push(((RULE_B, w, n), p.clone()));
        }
    }
    Scenario { name, pre, pool }
}

/// A tick whose candidates live in BOTH instances of `pre_portal` (W0 and the descended W1):
/// `parts` = (instance, program indices); carriers are numbered consecutively across the parts so
/// no two candidates share a scope node id.  Several candidates per instance land on different
/// virtual shards, so the executor sees >= 2 work units for one instance next to units of another.
fn scenario_multi(name: &'static str, base: RefState, parts: &[(W, &[usize])], second_rule_on: &[usize]) -> Scenario {
    let m = menu();
    let mut pre = base;
    let mut placed: Vec<(W, N, Program)> = Vec::new();
    let mut k = 0usize;
    for (w, progs) in parts {
        for i in *progs {
            let n: N = CARRIER0 + k as N;
            let p = m[*i].clone();
            pre.nodes.insert((*w, n), 2);
            pre.atts.insert(RefSlot::Node(*w, n), p.carrier_att());
            placed.push((*w, n, p));
            k += 1;
        }
    }
    let mut pool = Vec::new();
    for (j, (w, n, p)) in placed.iter().enumerate() {
        if !crate::ref_matches(p, &pre, *w) {
            continue;
        }
        pool.push(((RULE_A, *w, *n), p.clone()));
        if second_rule_on.contains(&j) {
            pool.push(((RULE_B, *w, *n), p.clone()));
        }
    }
    Scenario { name, pre, pool }
}

/// Scenarios.  `level` 0 = quick, 1 = thorough (adds the re-parent program, which the known C04
/// replay defect touches but whose *tick outcome* is lawful).
pub fn scenarios(level: u8) -> Vec<Scenario> {
    let mut v = vec![
        scenario("chain", pre_chain(), 0, &[0, 1, 2, 3, 5, 6, 7, 8], &[0, 2]),
        scenario("diamond", pre_diamond(), 0, &[0, 1, 4, 9, 10, 7, 8, 5], &[1]),
        scenario("portal-child", pre_portal(), 1, &[0, 1, 2, 5, 8, 10], &[0]),
        // W0: new edge e2 (n2→n0), read-only, retype n2?  (program 5 retypes n1, which carries the
        // portal: a node upsert keeps the attachment) — W1: set / copy attachment, new edge
        scenario_multi("two-instance", pre_portal(), &[(0, &[2, 8, 5]), (1, &[0, 1, 2])], &[3]),
        // nested portals: W0 program 12 re-asserts the OUTER portal slot (W0.n1 α), W1 program 13 the
        // INNER one (W1.n1 α); both conflict with every rewrite inside W2 through its descent chain
        scenario_multi("nested-portal", pre_nested(), &[(0, &[12, 2]), (1, &[13]), (2, &[0, 1, 5])], &[]),
    ];
    if level > 0 {
        v.push(scenario(
            "chain-reparent",
            pre_chain(),
            0,
            &[11, 0, 7, 3, 2, 4, 1, 8],
            &[11],
        ));
    }
    v
}
