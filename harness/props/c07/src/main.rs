//! Property check C07 — replay is path-independent (see /verif/DESIGN.md §4 "C07").
//!
//! 1. **Histories.**  Breadth-first search over `{ingest(program i), tick}` on the real
//!    `WorldlineRuntime` + `ProvenanceService` (one worldline, `rules::fixture::Rt`), dedup by the
//!    full `Debug` fingerprint of runtime + provenance.  The live frontier `WorldlineState` is
//!    cloned at every committed tick.  Every distinct provenance of length 1..=L is one history.
//! 2. **Per history**, two provenance variants: *real* (entries exactly as the runtime recorded
//!    them; checkpoints are `ProvenanceService::checkpoint(live frontier state at tick t)`) and
//!    *re-recorded* (`hist::decorate`: same entries with non-empty recorded outputs; checkpoints
//!    are checkpoint-free replay states).  For **every** subset of checkpoint ticks ⊆ {0..=len}:
//!    explicit-state search over cursor operations from a fresh `PlaybackCursor` (state rebuilt by
//!    re-execution because the cursor is not `Clone`), on the worldline itself and on
//!    `ProvenanceService::fork` children at every fork tick; plus a real `fork_strand` + one
//!    diverging commit on the child, then seeks over the diverged child.
//! 3. **Oracle.**  (a) reference model of the seek/step state machine written from the
//!    documentation of `PlaybackMode` (expected tick, mode, `StepResult`, typed `SeekError`);
//!    (b) in every cursor state the full `Debug` of `materialized_state()` equals the
//!    checkpoint-free replay of ticks 0..t from U0; (c) that reference equals what the live
//!    runtime held at t (everything but the process-local ingress ledger).

use hist::*;
use mc::{json, Level, Report, Value};
use rayon::prelude::*;
use rules::fixture::{wl, Rt};
use std::collections::{BTreeMap, BTreeSet, HashSet};
use std::sync::Mutex;
use warp_core::{
    CheckpointRef, CursorId, Engine, CursorRole, PlaybackCursor, PlaybackMode, ProvenanceService,
    ProvenanceStore, ReplayCheckpoint, SeekError, SeekThen, StepResult, WorldlineId,
    WorldlineState, WorldlineTick,
};

fn wt(t: u64) -> WorldlineTick {
    WorldlineTick::from_raw(t)
}

// ---------------------------------------------------------------------------------------------
// History generation
// ---------------------------------------------------------------------------------------------

#[derive(Clone, Copy, Debug, PartialEq, Eq, Hash, PartialOrd, Ord)]
enum GenOp {
    Ingest(u8),
    Tick,
}

fn gen_enc(ops: &[GenOp]) -> String {
    ops.iter()
        .map(|o| match o {
            GenOp::Ingest(p) => format!("I{p}"),
            GenOp::Tick => "T".to_string(),
        })
        .collect::<Vec<_>>()
        .join(" ")
}

fn gen_dec(s: &str) -> Vec<GenOp> {
    s.split_whitespace()
        .filter_map(|w| {
            if w == "T" {
                Some(GenOp::Tick)
            } else {
                w.strip_prefix('I').and_then(|p| p.parse().ok()).map(GenOp::Ingest)
            }
        })
        .collect()
}

#[derive(Clone)]
struct GenState {
    rt: Rt,
    /// live[t] = frontier state cloned when the frontier was at tick t (live[0] = U0).
    live: Vec<WorldlineState>,
    pending: u8,
}

fn frontier(rt: &Rt, w: WorldlineId) -> WorldlineState {
    rt.runtime.worldlines().get(&w).expect("worldline").state().clone()
}

fn gen_init() -> GenState {
    let rt = Rt::new(1, 1);
    let live = vec![frontier(&rt, wl(1))];
    GenState { rt, live, pending: 0 }
}

/// Apply one generation op with the real runtime.  `None` = pruned.
fn gen_step(s: &GenState, op: &GenOp, max_len: u64, max_pending: u8) -> Option<GenState> {
    let ps = programs();
    match *op {
        GenOp::Ingest(p) => {
            // up to 2 intents per tick while the history is shorter than `max_pending` ticks
            // (quick: first tick only, thorough: first two ticks), single intents later
            let mp = if len(&s.rt, wl(1)) < max_pending as u64 { 2 } else { 1 };
            if len(&s.rt, wl(1)) >= max_len || s.pending >= mp {
                return None;
            }
            let mut n = s.clone();
            match ingest(&mut n.rt, wl(1), &ps[p as usize]) {
                Ok(warp_core::IngressDisposition::Accepted { .. }) => {
                    n.pending += 1;
                    Some(n)
                }
                _ => None,
            }
        }
        GenOp::Tick => {
            if s.pending == 0 {
                return None;
            }
            let mut n = s.clone();
            let before = len(&n.rt, wl(1));
            if tick(&mut n.rt).is_err() {
                return None;
            }
            n.pending = 0;
            let after = len(&n.rt, wl(1));
            if after == before + 1 {
                n.live.push(frontier(&n.rt, wl(1)));
            } else if after != before {
                return None;
            }
            Some(n)
        }
    }
}

struct History {
    ops: Vec<GenOp>,
    rt: Rt,
    live: Vec<WorldlineState>,
}

// ---------------------------------------------------------------------------------------------
// Cursor operations and the reference model of the seek/step machine
// ---------------------------------------------------------------------------------------------

#[derive(Clone, Copy, Debug, PartialEq, Eq, Hash, PartialOrd, Ord)]
enum ModeSel {
    Keep,
    Paused,
    Play,
    StepForward,
    StepBack,
    Seek(u64, bool),
}

#[derive(Clone, Copy, Debug, PartialEq, Eq, Hash, PartialOrd, Ord)]
enum CurOp {
    SeekTo(u64),
    /// Set `cursor.mode` (unless `Keep`) and call `step()`.
    Step(ModeSel),
}

fn cur_enc(o: &CurOp) -> String {
    match o {
        CurOp::SeekTo(t) => format!("seek:{t}"),
        CurOp::Step(ModeSel::Keep) => "step".into(),
        CurOp::Step(ModeSel::Paused) => "step:Paused".into(),
        CurOp::Step(ModeSel::Play) => "step:Play".into(),
        CurOp::Step(ModeSel::StepForward) => "step:StepForward".into(),
        CurOp::Step(ModeSel::StepBack) => "step:StepBack".into(),
        CurOp::Step(ModeSel::Seek(t, p)) => format!("step:Seek({t},{})", if *p { "Play" } else { "Pause" }),
    }
}

fn cur_ops(n: u64, full: bool) -> Vec<CurOp> {
    let mut v = Vec::new();
    if full {
        for t in 0..=n + 2 {
            v.push(CurOp::SeekTo(t));
        }
        v.push(CurOp::Step(ModeSel::Keep));
        v.push(CurOp::Step(ModeSel::Paused));
        v.push(CurOp::Step(ModeSel::Play));
        v.push(CurOp::Step(ModeSel::StepForward));
        v.push(CurOp::Step(ModeSel::StepBack));
        for t in 0..=n + 1 {
            v.push(CurOp::Step(ModeSel::Seek(t, false)));
            v.push(CurOp::Step(ModeSel::Seek(t, true)));
        }
    } else {
        // reduced menu (fork children, re-recorded variant): every seek target, the persistent
        // Play mode, single steps both ways.  `Seek{t,..}` and `Paused` are covered by the full
        // menu on the worldline itself.
        for t in 0..=n + 1 {
            v.push(CurOp::SeekTo(t));
        }
        v.push(CurOp::Step(ModeSel::Keep));
        v.push(CurOp::Step(ModeSel::Play));
        v.push(CurOp::Step(ModeSel::StepForward));
        v.push(CurOp::Step(ModeSel::StepBack));
    }
    v
}

/// Reference model (reader cursor): position, mode; written from the `PlaybackMode` docs.
#[derive(Clone, Copy, Debug, PartialEq)]
struct Model {
    tick: u64,
    mode: PlaybackMode,
    n: u64,
    pin: u64,
}

#[derive(Debug, PartialEq, Clone)]
enum Outcome {
    Seek(Result<(), SeekError>),
    Step(Result<StepResult, SeekError>),
}

impl Model {
    fn seek(&mut self, target: u64) -> Result<(u64, u64), SeekError> {
        if target > self.pin {
            return Err(SeekError::PinnedFrontierExceeded {
                target: wt(target),
                pin: wt(self.pin),
            });
        }
        if target > self.n {
            return Err(SeekError::HistoryUnavailable { tick: wt(target) });
        }
        let from = self.tick;
        self.tick = target;
        Ok((from, target))
    }

    /// Returns the expected outcome and the (from,to) of the seek it performed, if any.
    fn apply(&mut self, op: &CurOp) -> (Outcome, Option<(u64, u64)>) {
        match *op {
            CurOp::SeekTo(t) => match self.seek(t) {
                Ok(ft) => (Outcome::Seek(Ok(())), Some(ft)),
                Err(e) => (Outcome::Seek(Err(e)), None),
            },
            CurOp::Step(sel) => {
                match sel {
                    ModeSel::Keep => {}
                    ModeSel::Paused => self.mode = PlaybackMode::Paused,
                    ModeSel::Play => self.mode = PlaybackMode::Play,
                    ModeSel::StepForward => self.mode = PlaybackMode::StepForward,
                    ModeSel::StepBack => self.mode = PlaybackMode::StepBack,
                    ModeSel::Seek(t, p) => {
                        self.mode = PlaybackMode::Seek {
                            target: wt(t),
                            then: if p { SeekThen::Play } else { SeekThen::Pause },
                        }
                    }
                }
                match self.mode {
                    PlaybackMode::Paused => (Outcome::Step(Ok(StepResult::NoOp)), None),
                    PlaybackMode::Play => {
                        if self.tick >= self.pin {
                            self.mode = PlaybackMode::Paused;
                            return (Outcome::Step(Ok(StepResult::ReachedFrontier)), None);
                        }
                        match self.seek(self.tick + 1) {
                            Ok(ft) => (Outcome::Step(Ok(StepResult::Advanced)), Some(ft)),
                            Err(e) => (Outcome::Step(Err(e)), None),
                        }
                    }
                    PlaybackMode::StepForward => {
                        if self.tick >= self.pin {
                            self.mode = PlaybackMode::Paused;
                            return (Outcome::Step(Ok(StepResult::ReachedFrontier)), None);
                        }
                        match self.seek(self.tick + 1) {
                            Ok(ft) => {
                                self.mode = PlaybackMode::Paused;
                                (Outcome::Step(Ok(StepResult::Advanced)), Some(ft))
                            }
                            Err(e) => (Outcome::Step(Err(e)), None),
                        }
                    }
                    PlaybackMode::StepBack => match self.seek(self.tick.saturating_sub(1)) {
                        Ok(ft) => {
                            self.mode = PlaybackMode::Paused;
                            (Outcome::Step(Ok(StepResult::Seeked)), Some(ft))
                        }
                        Err(e) => (Outcome::Step(Err(e)), None),
                    },
                    PlaybackMode::Seek { target, then } => match self.seek(target.as_u64()) {
                        Ok(ft) => {
                            self.mode = match then {
                                SeekThen::Play => PlaybackMode::Play,
                                SeekThen::Pause => PlaybackMode::Paused,
                            };
                            (Outcome::Step(Ok(StepResult::Seeked)), Some(ft))
                        }
                        Err(e) => (Outcome::Step(Err(e)), None),
                    },
                }
            }
        }
    }
}

fn apply_real(
    c: &mut PlaybackCursor,
    op: &CurOp,
    prov: &ProvenanceService,
    base: &WorldlineState,
) -> Outcome {
    match *op {
        CurOp::SeekTo(t) => Outcome::Seek(c.seek_to(wt(t), prov, base)),
        CurOp::Step(sel) => {
            match sel {
                ModeSel::Keep => {}
                ModeSel::Paused => c.mode = PlaybackMode::Paused,
                ModeSel::Play => c.mode = PlaybackMode::Play,
                ModeSel::StepForward => c.mode = PlaybackMode::StepForward,
                ModeSel::StepBack => c.mode = PlaybackMode::StepBack,
                ModeSel::Seek(t, p) => {
                    c.mode = PlaybackMode::Seek {
                        target: wt(t),
                        then: if p { SeekThen::Play } else { SeekThen::Pause },
                    }
                }
            }
            Outcome::Step(c.step(prov, base))
        }
    }
}

// ---------------------------------------------------------------------------------------------
// Fingerprints
// ---------------------------------------------------------------------------------------------

/// Full `Debug` of a worldline state without the process-local ingress ledger (the last field).
fn canon(s: &WorldlineState) -> String {
    let d = format!("{s:?}");
    match d.rfind(", committed_ingress: ") {
        Some(i) => d[..i].to_string(),
        None => d,
    }
}

/// Same with the `last_materialization` field blanked (for real-vs-re-recorded comparisons).
fn canon_no_mat(s: &WorldlineState) -> String {
    let d = canon(s);
    let (Some(a), Some(b)) = (d.rfind(", last_materialization: "), d.rfind(", last_materialization_errors: ")) else {
        return d;
    };
    format!("{}{}", &d[..a], &d[b..])
}

fn state_slice_of_cursor_debug(d: &str) -> Option<&str> {
    let a = d.find(", state: ")? + ", state: ".len();
    let b = d.rfind(", pin_max_tick: ")?;
    Some(&d[a..b])
}

fn tx_counter_of(d: &str) -> Option<u64> {
    let i = d.rfind("tx_counter: ")? + "tx_counter: ".len();
    let rest = &d[i..];
    let end = rest.find(|c: char| !c.is_ascii_digit()).unwrap_or(rest.len());
    rest[..end].parse().ok()
}

/// Field-by-field comparison of two worldline states through the public API (fast path; the
/// full `Debug` comparison is kept for references, live states and one state per tick per search).
/// Covers every field of `WorldlineState` except the process-local ingress ledger:
/// root, warp_state and initial_state (real `diff_state` must be empty both ways), state root,
/// tick_history, last_snapshot, last_materialization(+errors), tx counter (via
/// `Engine::snapshot_for_state(..).tx`).
fn same_state(engine: &Engine, a: &WorldlineState, b: &WorldlineState, with_mat: bool) -> Option<&'static str> {
    use warp_core::verif_hooks::tick_patch::diff_state;
    if a.root() != b.root() {
        return Some("root");
    }
    if a.state_root() != b.state_root() {
        return Some("state_root");
    }
    if !diff_state(a.warp_state(), b.warp_state()).is_empty() || !diff_state(b.warp_state(), a.warp_state()).is_empty() {
        return Some("warp_state");
    }
    if !diff_state(a.initial_state(), b.initial_state()).is_empty() || !diff_state(b.initial_state(), a.initial_state()).is_empty() {
        return Some("initial_state");
    }
    if a.tick_history() != b.tick_history() {
        return Some("tick_history");
    }
    if a.last_snapshot() != b.last_snapshot() {
        return Some("last_snapshot");
    }
    if engine.snapshot_for_state(a).tx != engine.snapshot_for_state(b).tx {
        return Some("tx_counter");
    }
    if with_mat {
        let (x, y) = (a.last_materialization(), b.last_materialization());
        if x.len() != y.len() || x.iter().zip(y).any(|(p, q)| p.channel != q.channel || p.data != q.data) {
            return Some("last_materialization");
        }
    }
    if a.last_materialization_errors().len() != b.last_materialization_errors().len() {
        return Some("last_materialization_errors");
    }
    None
}

// ---------------------------------------------------------------------------------------------
// Per-history analysis
// ---------------------------------------------------------------------------------------------

#[derive(Default)]
struct Out {
    counters: BTreeMap<String, u64>,
    outcomes: BTreeMap<String, u64>,
    nontrivial: Vec<u128>,
    violations: Vec<(String, Value)>,
    machinery: Vec<String>,
    states: u64,
    transitions: u64,
    traces: u64,
    evals: u64,
    sample: Option<Value>,
}

impl Out {
    fn absorb(&mut self, o: Out) {
        for (k, n) in o.counters {
            *self.counters.entry(k).or_insert(0) += n;
        }
        for (k, n) in o.outcomes {
            *self.outcomes.entry(k).or_insert(0) += n;
        }
        self.nontrivial.extend(o.nontrivial);
        self.violations.extend(o.violations);
        self.machinery.extend(o.machinery);
        self.states += o.states;
        self.transitions += o.transitions;
        self.traces += o.traces;
        self.evals += o.evals;
    }
    fn c(&mut self, k: &str, n: u64) {
        *self.counters.entry(k.to_string()).or_insert(0) += n;
    }
    fn o(&mut self, k: &str) {
        *self.outcomes.entry(k.to_string()).or_insert(0) += 1;
    }
}

#[derive(Clone, Copy)]
struct Cfg {
    depth: usize,
    fork_depth: usize,
    rerecorded_fork_depth: usize,
    /// run the strand-fork + diverging-commit continuation only for checkpoint subsets of at most
    /// this many checkpoints (plus the full subset)
    diverge_max_ckpts: u32,
    only_mask: Option<u32>,
}

struct Ctx<'a> {
    hist: &'a str,
    variant: &'a str,
    site: String,
    mask: u32,
}

impl Ctx<'_> {
    fn case(&self, path: &[CurOp]) -> Value {
        json!({
            "history": self.hist, "variant": self.variant, "site": self.site,
            "checkpoint_mask": self.mask,
            "path": path.iter().map(cur_enc).collect::<Vec<_>>(),
        })
    }
}

fn outcome_name(o: &Outcome) -> String {
    match o {
        Outcome::Seek(Ok(())) => "seek:Ok".into(),
        Outcome::Step(Ok(r)) => format!("step:{r:?}"),
        Outcome::Seek(Err(e)) | Outcome::Step(Err(e)) => {
            let d = format!("{e:?}");
            let name = d.split(|c| c == ' ' || c == '{' || c == '(').next().unwrap_or("").to_string();
            format!("typed_error:{name}")
        }
    }
}

/// Explicit-state search over cursor operations on (`prov`, `worldline`), `n` = history length.
/// `refs[t]` = canonical Debug of the checkpoint-free replay at tick t; `roots[t]` = live roots.
#[allow(clippy::too_many_arguments)]
fn cursor_search(
    out: &mut Out,
    ctx: &Ctx,
    prov: &ProvenanceService,
    worldline: WorldlineId,
    base: &WorldlineState,
    n: u64,
    ckpts: &BTreeSet<u64>,
    refs: &[String],
    refs_s: &[WorldlineState],
    engine: &Engine,
    roots: &[[u8; 32]],
    depth: usize,
    full_menu: bool,
    pin: u64,
) {
    let ops = cur_ops(n, full_menu);
    let fresh = || {
        PlaybackCursor::new(
            CursorId([0xC7; 32]),
            worldline,
            base.root().warp_id,
            CursorRole::Reader,
            base,
            wt(pin),
        )
    };
    // Cursor state key = (tick, mode, state equal to the reference for that tick).  The private
    // `replay_base_validated` flag is not part of the key: with a valid replay base (always the
    // case here) it only decides whether the base is re-hashed, never the outcome.
    let mut seen: HashSet<(u64, String)> = HashSet::new();
    let mut full_checked: BTreeSet<u64> = BTreeSet::new();
    // the initial state
    {
        let c = fresh();
        seen.insert((0, format!("{:?}", c.mode)));
        out.states += 1;
        if same_state(engine, c.materialized_state(), &refs_s[0], true).is_some() {
            out.violations.push((
                format!("c07:{}:fresh-cursor-state-differs-from-U0-replay", ctx.site_class()),
                json!({"case": ctx.case(&[])}),
            ));
        }
    }
    let mut frontier: Vec<Vec<CurOp>> = vec![Vec::new()];
    for _level in 0..depth {
        let mut next = Vec::new();
        for path in &frontier {
            for op in &ops {
                // re-execute the path from a fresh cursor (the cursor is not Clone)
                let mut c = fresh();
                let mut m = Model {
                    tick: 0,
                    mode: PlaybackMode::Paused,
                    n,
                    pin,
                };
                for p in path {
                    let _ = m.apply(p);
                }
                let mut full = path.clone();
                full.push(*op);
                let got = match mc::catch(|| {
                    for p in path {
                        let _ = apply_real(&mut c, p, prov, base);
                    }
                    apply_real(&mut c, op, prov, base)
                }) {
                    Ok(g) => g,
                    Err(msg) => {
                        out.transitions += 1;
                        let head: String = msg.chars().take(60).collect();
                        out.violations.push((
                            format!("c07:{}:panic during seek/step:{head}", ctx.site_class()),
                            json!({"case": ctx.case(&full), "panic": msg}),
                        ));
                        continue;
                    }
                };
                let (want, seek) = m.apply(op);
                out.transitions += 1;
                out.traces += 1;
                out.evals += 1;
                out.o(&outcome_name(&got));
                // vacuity bookkeeping
                let mut interesting = false;
                if let Some((from, to)) = seek {
                    if to < from {
                        out.c("backward_seeks", 1);
                        interesting = true;
                        if ckpts.iter().any(|c| to < *c && *c < from) {
                            out.c("backward_seek_with_checkpoint_strictly_inside", 1);
                        }
                        if ckpts.iter().any(|c| *c <= to && *c > 0) {
                            out.c("backward_seek_restoring_from_checkpoint", 1);
                        }
                    } else if to > from {
                        out.c("forward_seeks", 1);
                        if ckpts.iter().any(|c| from < *c && *c < to) {
                            out.c("forward_seek_with_checkpoint_strictly_inside", 1);
                            interesting = true;
                        }
                        if ckpts.contains(&to) && to > from {
                            out.c("forward_seek_landing_on_checkpoint", 1);
                            interesting = true;
                        }
                    }
                }
                if interesting {
                    let k = format!("{}|{}|{}|{}|{:?}", ctx.hist, ctx.variant, ctx.site, ctx.mask, full);
                    out.nontrivial.push(Report::key(k.as_bytes()));
                }
                // (a) result, tick and mode agree with the reference model
                if got != want {
                    let cls = match (&got, &want) {
                        (Outcome::Seek(Err(_)) | Outcome::Step(Err(_)), Outcome::Seek(Ok(_)) | Outcome::Step(Ok(_))) => {
                            format!("unexpected-{}", outcome_name(&got))
                        }
                        (Outcome::Seek(Ok(_)) | Outcome::Step(Ok(_)), Outcome::Seek(Err(_)) | Outcome::Step(Err(_))) => {
                            format!("missing-{}", outcome_name(&want))
                        }
                        _ => "different-result".to_string(),
                    };
                    out.violations.push((
                        format!("c07:{}:seek/step result differs from reference model:{cls}", ctx.site_class()),
                        json!({"case": ctx.case(&full), "got": format!("{got:?}"), "want": format!("{want:?}")}),
                    ));
                }
                if c.current_tick().as_u64() != m.tick || c.mode != m.mode {
                    out.violations.push((
                        format!("c07:{}:cursor tick/mode differs from reference model", ctx.site_class()),
                        json!({"case": ctx.case(&full), "got": format!("{:?}/{:?}", c.current_tick(), c.mode),
                               "want": format!("{}/{:?}", m.tick, m.mode)}),
                    ));
                    continue;
                }
                // (b) materialised state == checkpoint-free replay at the cursor's tick
                let t = c.current_tick().as_u64() as usize;
                let key = (t as u64, format!("{:?}", c.mode));
                if let Some(field) = same_state(engine, c.materialized_state(), &refs_s[t], true) {
                    let how = seek_class(seek, ckpts);
                    out.violations.push((
                        format!("c07:{}:materialized_state differs from checkpoint-free replay:{field}:{how}", ctx.site_class()),
                        json!({"case": ctx.case(&full), "tick": t, "field": field}),
                    ));
                } else if full.len() == depth && full_menu && full_checked.insert(t as u64) {
                    // full Debug fingerprint, once per tick per search, at the deepest level
                    out.c("full_debug_state_comparisons", 1);
                    if canon(c.materialized_state()) != refs[t] {
                        out.violations.push((
                            format!("c07:{}:materialized_state Debug differs from checkpoint-free replay", ctx.site_class()),
                            json!({"case": ctx.case(&full), "tick": t}),
                        ));
                    }
                }
                if c.materialized_state().current_tick().as_u64() != t as u64 {
                    out.violations.push((
                        format!("c07:{}:materialized_state.current_tick != cursor tick", ctx.site_class()),
                        json!({"case": ctx.case(&full), "tick": t}),
                    ));
                }
                // (c) root equals what the live runtime held at t
                if c.current_state_root() != roots[t] {
                    let how = seek_class(seek, ckpts);
                    out.violations.push((
                        format!("c07:{}:current_state_root differs from live frontier root:{how}", ctx.site_class()),
                        json!({"case": ctx.case(&full), "tick": t}),
                    ));
                }
                if seen.insert(key) {
                    out.states += 1;
                    next.push(full);
                }
            }
        }
        frontier = next;
    }
}

fn canon_str(s: &str) -> &str {
    match s.rfind(", committed_ingress: ") {
        Some(i) => &s[..i],
        None => s,
    }
}

fn seek_class(seek: Option<(u64, u64)>, ckpts: &BTreeSet<u64>) -> &'static str {
    match seek {
        None => "no-seek",
        Some((f, t)) if t < f => {
            if ckpts.iter().any(|c| *c <= t) {
                "backward-from-checkpoint"
            } else {
                "backward-from-U0"
            }
        }
        Some((f, t)) => {
            if ckpts.iter().any(|c| f < *c && *c <= t) {
                "forward-over-checkpoint"
            } else {
                "forward-advance"
            }
        }
    }
}

impl Ctx<'_> {
    fn site_class(&self) -> &str {
        // site without the fork tick (signature must be stable per call-site class)
        self.site.split('@').next().unwrap_or(&self.site)
    }
}

fn checkpoint_ticks(p: &ProvenanceService, w: WorldlineId) -> BTreeSet<u64> {
    let mut out = BTreeSet::new();
    let mut bound = WorldlineTick::MAX;
    while let Some(c) = ProvenanceStore::checkpoint_before(p, w, bound) {
        out.insert(c.worldline_tick.as_u64());
        bound = c.worldline_tick;
        if out.len() > 64 {
            break;
        }
    }
    out
}

fn replay_all(
    p: &ProvenanceService,
    w: WorldlineId,
    base: &WorldlineState,
    n: u64,
) -> Result<Vec<WorldlineState>, String> {
    (0..=n)
        .map(|t| match mc::catch(|| p.replay_worldline_state_at(w, base, wt(t))) {
            Ok(r) => r.map_err(|e| format!("tick {t}: {e:?}")),
            Err(msg) => Err(format!("tick {t}: panic: {msg}")),
        })
        .collect()
}

fn analyze(h: &History, cfg: Cfg) -> Out {
    let mut out = Out::default();
    let timing = std::env::var("C07_TIMING").is_ok();
    let mut t_mark = std::time::Instant::now();
    macro_rules! lap {
        ($name:expr) => {
            if timing {
                out.c(concat!("us_", $name), t_mark.elapsed().as_micros() as u64);
                t_mark = std::time::Instant::now();
            }
        };
    }
    let hs = gen_enc(&h.ops);
    let w = wl(1);
    let n = (h.live.len() - 1) as u64;
    let base = &h.live[0];
    let engine = rules::fixture::fresh_engine(warp_core::SchedulerKind::Radix, 1);
    let roots: Vec<[u8; 32]> = h.live.iter().map(|s| s.state_root()).collect();
    let real = h.rt.provenance.clone();
    let deco = match decorate(&h.rt) {
        Ok(p) => p,
        Err(e) => {
            out.machinery.push(format!("decorate failed for {hs}: {e}"));
            return out;
        }
    };

    let deco_sparse = match decorate_mode(&h.rt, true) {
        Ok(p) => p,
        Err(e) => {
            out.machinery.push(format!("decorate(sparse) failed for {hs}: {e}"));
            return out;
        }
    };

    for (variant, p0) in [("real", &real), ("rerecorded", &deco), ("rerecorded-sparse", &deco_sparse)] {
        let real_variant = variant == "real";
        let sparse = variant == "rerecorded-sparse";
        // ---- references: checkpoint-free replay from U0 -------------------------------------
        let refs_s = match replay_all(p0, w, base, n) {
            Ok(v) => v,
            Err(e) => {
                out.violations.push((
                    "c07:replay_at:checkpoint-free replay of a runtime-recorded history fails".into(),
                    json!({"case": {"history": hs, "variant": variant}, "error": e}),
                ));
                continue;
            }
        };
        let refs: Vec<String> = refs_s.iter().map(canon).collect();
        out.evals += n + 1;
        // replay with the frontier state as the base handle must agree (only U0 is used)
        for t in 0..=n {
            match p0.replay_worldline_state_at(w, &h.live[n as usize], wt(t)) {
                Ok(s) if same_state(&engine, &s, &refs_s[t as usize], true).is_none() => {}
                other => out.violations.push((
                    "c07:replay_at:replay depends on which state handle carries U0".into(),
                    json!({"case": {"history": hs, "variant": variant, "tick": t}, "err": other.err().map(|e| format!("{e:?}"))}),
                )),
            }
        }
        // reference vs live runtime at t: full Debug (minus ingress ledger; minus
        // last_materialization for the re-recorded variant, which the live runtime never had)
        for t in 0..=n as usize {
            let live = &h.live[t];
            let (l, r) = if real_variant {
                (canon(live), refs[t].clone())
            } else {
                (canon_no_mat(live), canon_no_mat(&refs_s[t]))
            };
            if refs_s[t].state_root() != roots[t] {
                out.violations.push((
                    "c07:replay_at:replayed state root differs from live frontier root".into(),
                    json!({"case": {"history": hs, "variant": variant, "tick": t}}),
                ));
            } else if l != r {
                let what = same_state(&engine, &refs_s[t], live, real_variant).unwrap_or("metadata");
                out.violations.push((
                    format!("c07:replay_at:replayed {what} differs from what the live runtime held"),
                    json!({"case": {"history": hs, "variant": variant, "tick": t}}),
                ));
            } else if let Some(f) = same_state(&engine, &refs_s[t], live, real_variant) {
                out.machinery.push(format!("field-wise comparison reports {f} although Debug is equal ({hs} t={t})"));
            }
            if tx_counter_of(&r) != Some(t as u64) {
                out.violations.push((
                    "c07:replay_at:replayed tx counter is not the tick".into(),
                    json!({"case": {"history": hs, "variant": variant, "tick": t}, "got": tx_counter_of(&r)}),
                ));
            }
            if !real_variant && t > 0 {
                let want = outputs_for_mode(p0.entry(w, wt(t as u64 - 1)).map(|e| e.commit_global_tick.as_u64()).unwrap_or(0), sparse);
                let got: Vec<(_, Vec<u8>)> = refs_s[t]
                    .last_materialization()
                    .iter()
                    .map(|c| (c.channel, c.data.clone()))
                    .collect();
                if got != want {
                    out.violations.push((
                        "c07:replay_at:last_materialization is not the outputs recorded for tick t-1".into(),
                        json!({"case": {"history": hs, "variant": variant, "tick": t}}),
                    ));
                } else if want.is_empty() {
                    out.c("last_materialization_checked_empty_after_nonempty_history", u64::from(t > 1));
                } else {
                    out.c("last_materialization_checked_nonempty", 1);
                }
            }
            out.evals += 1;
        }

        lap!("refs_and_live");
        // checkpoint-free forks: reference for children (and they must equal the parent's prefix)
        let mut child_refs: Vec<Option<Vec<WorldlineState>>> = Vec::new();
        for f in 0..n {
            let mut pf = p0.clone();
            let child = wl(0x70 + f as u8);
            if let Err(e) = pf.fork(w, wt(f), child) {
                out.violations.push((
                    "c07:fork-child:fork at an in-range tick rejected".into(),
                    json!({"case": {"history": hs, "variant": variant, "fork": f}, "error": format!("{e:?}")}),
                ));
                child_refs.push(None);
                continue;
            }
            match replay_all(&pf, child, base, f + 1) {
                Ok(v) => {
                    for t in 0..=(f + 1) as usize {
                        if canon(&v[t]) != refs[t] {
                            out.violations.push((
                                "c07:fork-child:checkpoint-free replay of the child differs from the parent's prefix".into(),
                                json!({"case": {"history": hs, "variant": variant, "fork": f, "tick": t}}),
                            ));
                        }
                    }
                    child_refs.push(Some(v));
                }
                Err(e) => {
                    out.violations.push((
                        "c07:fork-child:checkpoint-free replay of the child fails".into(),
                        json!({"case": {"history": hs, "variant": variant, "fork": f}, "error": e}),
                    ));
                    child_refs.push(None);
                }
            }
        }

        lap!("child_refs");
        // diverged-child references (mask 0) are filled on first use
        let mut div_refs: BTreeMap<u64, Vec<WorldlineState>> = BTreeMap::new();

        // ---- every subset of checkpoint ticks ------------------------------------------------
        for mask in 0u32..(1u32 << (n + 1)) {
            if let Some(m) = cfg.only_mask {
                if m != mask && mask != 0 {
                    continue;
                }
            }
            let ckpts: BTreeSet<u64> = (0..=n).filter(|t| mask & (1 << t) != 0).collect();
            let mut pc = p0.clone();
            let mut ok = true;
            for &t in &ckpts {
                let r = if real_variant {
                    pc.checkpoint(w, &h.live[t as usize]).map(|_| ())
                } else {
                    pc.add_checkpoint(
                        w,
                        ReplayCheckpoint {
                            checkpoint: CheckpointRef {
                                worldline_tick: wt(t),
                                state_hash: refs_s[t as usize].state_root(),
                            },
                            state: refs_s[t as usize].clone(),
                        },
                    )
                };
                if let Err(e) = r {
                    ok = false;
                    out.violations.push((
                        format!("c07:add_checkpoint:genuine {variant} state rejected as checkpoint"),
                        json!({"case": {"history": hs, "variant": variant, "checkpoint_mask": mask, "tick": t}, "error": format!("{e:?}")}),
                    ));
                }
            }
            if !ok {
                continue;
            }
            if checkpoint_ticks(&pc, w) != ckpts {
                out.machinery.push(format!("checkpoint enumeration mismatch {hs} mask {mask}"));
            }
            out.c("checkpoint_subsets", 1);
            if ckpts.iter().any(|c| *c > 0 && *c < n) {
                out.c("checkpoint_subsets_with_interior_checkpoint", 1);
            }

            lap!("checkpoint_setup");
            // (i) the worldline itself: full menu on the real variant, reduced on the re-recorded
            let ctx = Ctx { hist: &hs, variant, site: "cursor".into(), mask };
            cursor_search(
                &mut out, &ctx, &pc, w, base, n, &ckpts, &refs, &refs_s, &engine, &roots,
                cfg.depth, real_variant, n + 1,
            );
            lap!("parent_search");
            // replay_worldline_state_at with checkpoints, every target
            for t in 0..=n {
                out.evals += 1;
                let rr = match mc::catch(|| pc.replay_worldline_state_at(w, base, wt(t))) {
                    Ok(rr) => rr,
                    Err(msg) => {
                        let head: String = msg.chars().take(60).collect();
                        out.violations.push((
                            format!("c07:replay_at:panic replaying through checkpoints:{head}"),
                            json!({"case": {"history": hs, "variant": variant, "checkpoint_mask": mask, "tick": t}, "panic": msg}),
                        ));
                        continue;
                    }
                };
                match rr {
                    Ok(s) => {
                        if let Some(field) = same_state(&engine, &s, &refs_s[t as usize], true) {
                            out.violations.push((
                                format!("c07:replay_at:replay through checkpoints differs from checkpoint-free replay:{field}"),
                                json!({"case": {"history": hs, "variant": variant, "checkpoint_mask": mask, "tick": t}}),
                            ));
                        }
                    }
                    Err(e) => {
                        let d = format!("{e:?}");
                        out.violations.push((
                            format!("c07:replay_at:replay through checkpoints fails:{}", d.split(|c| c == ' ' || c == '(' || c == '{').next().unwrap_or("")),
                            json!({"case": {"history": hs, "variant": variant, "checkpoint_mask": mask, "tick": t}, "error": d}),
                        ));
                    }
                }
            }
            match pc.replay_worldline_state_at(w, base, wt(n + 1)) {
                Err(warp_core::ReplayError::History(warp_core::HistoryError::HistoryUnavailable { tick })) if tick == wt(n + 1) => {
                    out.o("typed_error:ReplayError::HistoryUnavailable")
                }
                other => out.violations.push((
                    "c07:replay_at:out-of-range replay target not rejected with HistoryUnavailable".into(),
                    json!({"case": {"history": hs, "variant": variant, "checkpoint_mask": mask}, "got": format!("{:?}", other.map(|_| "Ok"))}),
                )),
            }

            lap!("replay_at");
            // (ii) store-level forks at every tick
            for f in 0..n {
                let Some(cref) = &child_refs[f as usize] else { continue };
                let child = wl(0x70 + f as u8);
                let mut pf = pc.clone();
                if let Err(e) = pf.fork(w, wt(f), child) {
                    out.violations.push((
                        "c07:fork-child:fork at an in-range tick rejected".into(),
                        json!({"case": {"history": hs, "variant": variant, "checkpoint_mask": mask, "fork": f}, "error": format!("{e:?}")}),
                    ));
                    continue;
                }
                out.c("forks", 1);
                let want: BTreeSet<u64> = ckpts.iter().copied().filter(|c| *c <= f + 1).collect();
                let got = checkpoint_ticks(&pf, child);
                if got != want {
                    let cls = if got.iter().any(|c| *c > f + 1) {
                        "checkpoint beyond the child's history copied"
                    } else if got.len() < want.len() {
                        "checkpoint inside the prefix dropped"
                    } else {
                        "different set"
                    };
                    out.violations.push((
                        format!("c07:fork-child:copied checkpoint set:{cls}"),
                        json!({"case": {"history": hs, "variant": variant, "checkpoint_mask": mask, "fork": f},
                               "got": got, "want": want}),
                    ));
                }
                if !want.is_empty() {
                    out.c("forks_with_copied_checkpoints", 1);
                }
                let ctx = Ctx { hist: &hs, variant, site: format!("fork-child@{f}"), mask };
                cursor_search(
                    &mut out, &ctx, &pf, child, base, f + 1, &want, &refs, cref, &engine,
                    &roots, if real_variant { cfg.fork_depth } else { cfg.rerecorded_fork_depth }, false, f + 1,
                );
                // the source worldline is untouched by the fork
                if ProvenanceStore::entry(&pf, w, wt(n - 1)) != ProvenanceStore::entry(&pc, w, wt(n - 1))
                    || ProvenanceStore::len(&pf, w).ok() != Some(n)
                    || checkpoint_ticks(&pf, w) != ckpts
                {
                    out.violations.push((
                        "c07:fork-child:fork modified the source worldline".into(),
                        json!({"case": {"history": hs, "variant": variant, "checkpoint_mask": mask, "fork": f}}),
                    ));
                }
            }
            // out-of-range fork tick is a typed error
            {
                let mut pf = pc.clone();
                match pf.fork(w, wt(n), wl(0x7f)) {
                    Err(warp_core::HistoryError::HistoryUnavailable { .. }) => out.o("typed_error:fork:HistoryUnavailable"),
                    other => out.violations.push((
                        "c07:fork-child:fork beyond the tip not rejected with HistoryUnavailable".into(),
                        json!({"case": {"history": hs, "variant": variant, "checkpoint_mask": mask}, "got": format!("{other:?}")}),
                    )),
                }
            }

            lap!("fork_children");
            // (iii) real strand fork + one diverging commit on the child (real variant only:
            //       the runtime appends to its own provenance)
            if real_variant && (mask.count_ones() <= cfg.diverge_max_ckpts || mask + 1 == (1u32 << (n + 1))) {
                for f in 0..n {
                    let mut sub = Out::default();
                    let res = mc::catch(|| diverge(&mut sub, &engine, h, &hs, mask, &ckpts, f, &refs_s, &mut div_refs));
                    out.absorb(sub);
                    if let Err(msg) = res {
                        let head: String = msg.chars().take(60).collect();
                        out.violations.push((
                            format!("c07:diverged-child:panic during fork_strand/commit/seek on the child:{head}"),
                            json!({"case": {"history": hs, "variant": variant, "site": format!("diverged-child@{f}"), "checkpoint_mask": mask}, "panic": msg}),
                        ));
                    }
                }
            }
            lap!("diverge");
        }
    }
    if out.sample.is_none() {
        out.sample = Some(json!({
            "history": hs, "len": n,
            "state_roots": roots.iter().map(|r| mc::hex(&r[..6])).collect::<Vec<_>>(),
            "ops_per_tick": (0..n).map(|t| real.entry(w, wt(t)).map(|e| e.patch.map(|p| p.ops.len()).unwrap_or(0)).unwrap_or(0)).collect::<Vec<_>>(),
        }));
    }
    out
}

/// `fork_strand` at `f` on a runtime whose provenance holds checkpoints `ckpts`, one diverging
/// commit (program P5) on the child, then every (a then b) pair of seeks on the child.
#[allow(clippy::too_many_arguments)]
fn diverge(
    out: &mut Out,
    engine: &Engine,
    h: &History,
    hs: &str,
    mask: u32,
    ckpts: &BTreeSet<u64>,
    f: u64,
    parent_refs: &[WorldlineState],
    div_refs: &mut BTreeMap<u64, Vec<WorldlineState>>,
) {
    let w = wl(1);
    let child = wl(9);
    let base = &h.live[0];
    let case = |extra: Value| json!({"case": {"history": hs, "variant": "real", "site": format!("diverged-child@{f}"), "checkpoint_mask": mask}, "what": extra});
    let mut rt = h.rt.clone();
    for &t in ckpts {
        if rt.provenance.checkpoint(w, &h.live[t as usize]).is_err() {
            return;
        }
    }
    if let Err(e) = fork(&mut rt, w, f, child) {
        let d = format!("{e:?}");
        out.violations.push((
            format!("c07:diverged-child:fork_strand at an in-range tick fails:{}", d.split(|c| c == ' ' || c == '(' || c == '{').next().unwrap_or("")),
            case(json!(d)),
        ));
        return;
    }
    out.c("strand_forks", 1);
    let child_live_fork = frontier(&rt, child);
    if let Some(field) = same_state(engine, &child_live_fork, &parent_refs[(f + 1) as usize], true) {
        out.violations.push((
            format!("c07:diverged-child:child frontier after fork_strand differs from checkpoint-free replay of the parent prefix:{field}"),
            case(json!({"tick": f + 1})),
        ));
    }
    let p5 = &programs()[5];
    if !matches!(ingest(&mut rt, child, p5), Ok(warp_core::IngressDisposition::Accepted { .. })) {
        out.machinery.push(format!("diverging intent not accepted ({hs} f={f})"));
        return;
    }
    match tick(&mut rt) {
        Ok(recs) if recs.len() == 1 && len(&rt, child) == f + 2 => {}
        other => {
            // a child frontier materialised from replay must be a usable frontier
            out.violations.push((
                "c07:diverged-child:commit on a freshly forked child does not succeed".into(),
                case(json!(format!("{other:?}").chars().take(300).collect::<String>())),
            ));
            return;
        }
    }
    let n2 = f + 2;
    let child_live = frontier(&rt, child);
    let got_ck = checkpoint_ticks(&rt.provenance, child);
    let want_ck: BTreeSet<u64> = ckpts.iter().copied().filter(|c| *c <= f + 1).collect();
    if got_ck != want_ck {
        out.violations.push((
            "c07:diverged-child:copied checkpoint set differs from checkpoints within the prefix".into(),
            case(json!({"got": got_ck, "want": want_ck})),
        ));
    }
    // reference: the checkpoint-free run of the same continuation (mask 0 comes first)
    if mask == 0 {
        match replay_all(&rt.provenance, child, base, n2) {
            Ok(v) => {
                for t in 0..=(f + 1) as usize {
                    if same_state(engine, &v[t], &parent_refs[t], true).is_some() {
                        out.violations.push((
                            "c07:diverged-child:child prefix replay differs from parent replay".into(),
                            case(json!({"tick": t})),
                        ));
                    }
                }
                if (n2 as usize) < h.live.len() && v[n2 as usize].state_root() == parent_refs[n2 as usize].state_root() {
                    out.machinery.push(format!("diverging commit did not diverge ({hs} f={f})"));
                }
                if canon(&v[n2 as usize]) != canon(&child_live) {
                    out.violations.push((
                        "c07:diverged-child:replay of the diverged tick differs from the live child frontier".into(),
                        case(json!({"tick": n2})),
                    ));
                }
                div_refs.insert(f, v);
            }
            Err(e) => {
                out.violations.push((
                    "c07:diverged-child:checkpoint-free replay of the diverged child fails".into(),
                    case(json!(e)),
                ));
                return;
            }
        }
    }
    let Some(refs) = div_refs.get(&f) else { return };
    let live_root = child_live.state_root();
    // all ordered pairs of seeks from a fresh cursor
    for a in 0..=n2 {
        for b in 0..=n2 {
            let mut c = PlaybackCursor::new(
                CursorId([0xD7; 32]),
                child,
                base.root().warp_id,
                CursorRole::Reader,
                base,
                wt(n2),
            );
            out.transitions += 2;
            out.traces += 1;
            out.evals += 1;
            let mut bad = None;
            for (i, t) in [a, b].into_iter().enumerate() {
                match c.seek_to(wt(t), &rt.provenance, base) {
                    Ok(()) => {
                        if let Some(field) = same_state(engine, c.materialized_state(), &refs[t as usize], true) {
                            bad = Some(format!("state:{field} after seek #{i} to {t}"));
                            break;
                        }
                        if t == n2 && c.current_state_root() != live_root {
                            bad = Some("state:root differs from live child".into());
                            break;
                        }
                    }
                    Err(e) => {
                        let d = format!("{e:?}");
                        bad = Some(format!("error:{}: seek #{i} to {t}", d.split(|c| c == ' ' || c == '(' || c == '{').next().unwrap_or("")));
                        break;
                    }
                }
            }
            if b < a {
                out.c("backward_seeks", 1);
            }
            if let Some(what) = bad {
                let cls = what.split(|c| c == ' ' || c == ':').take(2).collect::<Vec<_>>().join(":");
                out.violations.push((
                    format!("c07:diverged-child:seek on a child that diverged after the fork:{cls}"),
                    case(json!({"seeks": [a, b], "what": what})),
                ));
            }
        }
    }
    out.c("diverged_children_searched", 1);
}

// ---------------------------------------------------------------------------------------------
// main
// ---------------------------------------------------------------------------------------------

fn generate(r: &Report, max_len: u64, alphabet: u8, max_pending: u8) -> Vec<History> {
    // `WorldlineRuntime` is Send but not Sync (a host_test instrumentation Cell), so the
    // generation BFS is a plain sequential loop; levels are expanded in op order => deterministic.
    let mut found: Vec<History> = Vec::new();
    let mut seen_prov: HashSet<[u8; 32]> = HashSet::new();
    let mut seen: HashSet<[u8; 32]> = HashSet::new();
    let init = gen_init();
    seen.insert(mc::h(&init.rt.fingerprint()));
    let mut states = 1u64;
    let mut transitions = 0u64;
    let mut ops: Vec<GenOp> = (0..alphabet).map(GenOp::Ingest).collect();
    ops.push(GenOp::Tick);
    let mut frontier: Vec<(GenState, Vec<GenOp>)> = vec![(init, Vec::new())];
    let max_depth = (max_len as usize) * 3;
    for _ in 0..max_depth {
        if frontier.is_empty() {
            break;
        }
        if r.over_budget_frac(0.3) {
            r.cap_hit("history generation BFS stopped by the wall cap");
            break;
        }
        let mut next = Vec::new();
        for (s, path) in &frontier {
            for op in &ops {
                let Some(s2) = gen_step(s, op, max_len, max_pending) else { continue };
                transitions += 1;
                if !seen.insert(mc::h(&s2.rt.fingerprint())) {
                    continue;
                }
                states += 1;
                let mut p2 = path.clone();
                p2.push(*op);
                if s2.live.len() > 1 && matches!(op, GenOp::Tick) && seen_prov.insert(mc::fp_debug(&s2.rt.provenance)) {
                    found.push(History {
                        ops: p2.clone(),
                        rt: s2.rt.clone(),
                        live: s2.live.clone(),
                    });
                }
                next.push((s2, p2));
            }
        }
        frontier = next;
    }
    r.add_states(states);
    r.add_transitions(transitions);
    r.counter("generation_states", states);
    r.counter("generation_transitions", transitions);
    found
}

fn rebuild(ops: &[GenOp]) -> Option<History> {
    let mut s = gen_init();
    for op in ops {
        s = gen_step(&s, op, 64, 64)?;
    }
    Some(History {
        ops: ops.to_vec(),
        rt: s.rt,
        live: s.live,
    })
}

fn merge(r: &Report, o: Out) {
    for (k, n) in &o.counters {
        r.counter(k, *n);
    }
    for (k, n) in &o.outcomes {
        r.outcome_n(k, *n);
    }
    r.nontrivial_many(o.nontrivial.iter().copied());
    r.add_states(o.states);
    r.add_transitions(o.transitions);
    r.add_traces(o.traces);
    r.eval(o.evals);
    for m in &o.machinery {
        r.machinery_error(m);
    }
    for (sig, d) in o.violations {
        r.violation(&sig, d);
    }
    if let Some(s) = o.sample {
        r.sample(s);
    }
}

fn main() {
    let r = Report::new("C07", Level::ModelChecking);
    mc::quiet_panics();
    r.rule(
        "histories: every distinct provenance of length 1..=L reachable by BFS over {ingest(program i), tick} on the real \
         runtime (program alphabet writes different slots; <=2 intents in the first tick (thorough: first two ticks), 1 later); per history x {real, re-recorded-with-outputs} \
         x EVERY subset of checkpoint ticks {0..=len}: explicit-state search over cursor ops {seek_to(t) t<=len+2, step() in \
         every PlaybackMode incl. Seek{t,Pause|Play}} from a fresh cursor, on the worldline and on ProvenanceService::fork \
         children at every tick, plus fork_strand + one diverging commit + all seek pairs on the child. A case is non-trivial \
         when its last seek goes backward, or crosses / lands on a stored checkpoint.",
    );
    r.assume("reference = replay_worldline_state_at on the checkpoint-free provenance; trusted to be the simple loop it reads as (it is additionally compared with the live frontier state at every tick)");
    r.assume("cursor role Reader only (Writer Play/StepForward are documented stubs); single-instance worldlines; histories <= 5 ticks");
    r.assume("real runtime entries always have empty recorded outputs in this tree (executors cannot emit), so the last_materialization path is exercised on a re-recorded copy of the same entries with synthetic outputs (hist::decorate)");
    r.assume("state comparison = full Debug of WorldlineState minus committed_ingress (documented process-local dedupe ledger, never replayed)");

    if let Some(path) = r.replay.clone() {
        let v: Value = serde_json::from_str(&std::fs::read_to_string(&path).unwrap_or_default()).unwrap_or(Value::Null);
        let case = &v["detail"]["case"];
        let hs = case["history"].as_str().unwrap_or("");
        let mask = case["checkpoint_mask"].as_u64().map(|m| m as u32);
        match rebuild(&gen_dec(hs)) {
            Some(h) => {
                let o = analyze(&h, Cfg { depth: 3, fork_depth: 2, rerecorded_fork_depth: 2, diverge_max_ckpts: 64, only_mask: mask });
                println!("[C07] replay of history '{hs}' mask {mask:?}: {} violation(s)", o.violations.len());
                for (s, d) in o.violations.iter().take(5) {
                    println!("[C07]   {s}  {d}");
                }
                r.add_states(1);
                r.add_transitions(1);
                r.add_traces(1);
                r.nontrivial(b"replay-a");
                r.nontrivial(b"replay-b");
                merge(&r, o);
            }
            None => r.machinery_error("replay: history could not be rebuilt"),
        }
        r.finish();
    }

    let max_len: u64 = r.pick(4, 5);
    let alphabet: u8 = r.pick(4, 5);
    let cfg = Cfg {
        depth: r.pick(2, 3),
        fork_depth: r.pick(2, 3),
        rerecorded_fork_depth: r.pick(1, 2),
        diverge_max_ckpts: r.pick(1, 64),
        only_mask: None,
    };
    let mut hs = generate(&r, max_len, alphabet, r.pick(1, 2));
    // shortest first, then by op string: deterministic order
    hs.sort_by(|a, b| (a.live.len(), gen_enc(&a.ops)).cmp(&(b.live.len(), gen_enc(&b.ops))));
    r.counter("histories", hs.len() as u64);
    for l in 1..=max_len {
        r.counter(&format!("histories_len_{l}"), hs.iter().filter(|h| h.live.len() as u64 == l + 1).count() as u64);
    }
    let distinct_roots: HashSet<[u8; 32]> = hs.iter().flat_map(|h| h.live.iter().map(|s| s.state_root())).collect();
    r.counter("distinct_live_state_roots", distinct_roots.len() as u64);

    // Analyse in deterministic chunks so a wall cap cuts at a history boundary.
    let mut done = 0usize;
    let mut expected_forks = 0u64;
    let total = hs.len();
    let max_hist_len = hs.iter().map(|h| h.live.len()).max().unwrap_or(0);
    let mut rest = hs;
    while !rest.is_empty() {
        let take = rest.len().min(32);
        let chunk: Vec<History> = rest.drain(..take).collect();
        if r.over_budget_frac(0.9) || r.elapsed_s() > r.pick(200.0, 1500.0) {
            r.cap_hit(&format!(
                "analysed {done} of {total} histories (shortest first) before the wall cap"
            ));
            break;
        }
        let k = chunk.len();
        let outs: Vec<(u64, Out)> = chunk
            .into_par_iter()
            .map(|h| {
                let n = (h.live.len() - 1) as u64;
                let o = match mc::catch(|| analyze(&h, cfg)) {
                    Ok(o) => o,
                    Err(msg) => {
                        let mut o = Out::default();
                        let head: String = msg.chars().take(60).collect();
                        o.violations.push((
                            format!("c07:panic while replaying/forking a runtime-recorded history:{head}"),
                            json!({"case": {"history": gen_enc(&h.ops)}, "panic": msg}),
                        ));
                        o
                    }
                };
                (n, o)
            })
            .collect();
        for (n, o) in outs {
            // 3 provenance variants (real, re-recorded, re-recorded-sparse) x n fork ticks x 2^(n+1) checkpoint subsets
            expected_forks += 3 * n * (1u64 << (n + 1));
            merge(&r, o);
        }
        done += k;
    }
    r.counter("histories_analysed", done as u64);

    // vacuity guards
    r.guard("histories_of_max_length_generated", max_hist_len as u64 == max_len + 1);
    r.guard("at_least_4_distinct_live_states", distinct_roots.len() >= 4);
    r.guard("interior_checkpoint_subsets_used", r.counter_value("checkpoint_subsets_with_interior_checkpoint") > 0);
    r.guard("forward_seek_with_checkpoint_strictly_inside", r.counter_value("forward_seek_with_checkpoint_strictly_inside") > 0);
    r.guard("backward_seek_with_checkpoint_strictly_inside", r.counter_value("backward_seek_with_checkpoint_strictly_inside") > 0);
    r.guard("backward_seeks_performed", r.counter_value("backward_seeks") > 0);
    r.guard("backward_seek_restoring_from_checkpoint", r.counter_value("backward_seek_restoring_from_checkpoint") > 0);
    r.guard("forks_at_every_tick_of_every_history", done < total || r.counter_value("forks") == expected_forks);
    r.guard("forks_with_copied_checkpoints", r.counter_value("forks_with_copied_checkpoints") > 0);
    r.guard("diverged_children_searched", r.counter_value("diverged_children_searched") > 0);
    r.guard("typed_error_history_unavailable_seen", r.outcome_count("typed_error:HistoryUnavailable") > 0);
    r.guard("typed_error_pinned_frontier_seen", r.outcome_count("typed_error:PinnedFrontierExceeded") > 0);
    r.guard("all_step_results_seen",
        ["step:NoOp", "step:Advanced", "step:Seeked", "step:ReachedFrontier"].iter().all(|k| r.outcome_count(k) > 0));
    r.guard("nonempty_last_materialization_checked", r.counter_value("last_materialization_checked_nonempty") > 0);
    r.guard("empty_outputs_after_nonempty_outputs_checked", r.counter_value("last_materialization_checked_empty_after_nonempty_history") > 0);
    r.finish();
}
