//! History generation over the real runtime, shared by the C07 and C16 checks.
//!
//! A *history* is produced only by real code: `WorldlineRuntime::ingest` of program intents
//! (`rules::fixture`), `SchedulerCoordinator::super_tick` on a fresh engine and
//! `WorldlineRuntime::fork_strand`; see [`decorate`] for how recorded truth outputs are made
//! non-empty.

use rules::fixture::{self, wl, Rt};
use rules::{Program, Step};
use warp_core::materialization::{make_channel_id, ChannelId};
use warp_core::{
    make_head_id, make_strand_id, ActorId, AuthorityBinding, AuthorityDomainId, AuthorityDomainRef,
    CausalAuthority, CausalPosture, ForkStrandReceipt, ForkStrandRequest, InboxPolicy,
    IngressDisposition, OriginId, PlaybackMode, PostureDerivation, ProvenanceStore,
    RetentionContractId, RetentionPosture, RuntimeError, SchedulerKind, SealStrength, StepRecord,
    WorldlineId, WorldlineTick, WriterHead, WriterHeadKey,
};

/// The program alphabet: programs writing different slots (P0/P4 write the same slot), every one
/// of them visible in the canonical state root (they touch the part of the graph reachable from n0).
pub fn programs() -> Vec<Program> {
    vec![
        // P0: attachment on n1
        Program::new(vec![Step::SetNodeAtt { n: 1, v: 1 }]),
        // P1: new node n3 + edge e1: n0 -> n3
        Program::new(vec![
            Step::UpsertNode { n: 3, ty: 1 },
            Step::UpsertEdge {
                e: 1,
                from: 0,
                to: 3,
                ty: 0,
            },
        ]),
        // P2: delete edge e0 (n0 -> n1) and re-link n1 through a different edge id e2
        Program::new(vec![
            Step::DeleteEdge { e: 0, from: 0 },
            Step::UpsertEdge {
                e: 2,
                from: 0,
                to: 1,
                ty: 1,
            },
        ]),
        // P3: copy n1's attachment onto the root (reads what P0/P4 wrote: order-sensitive)
        Program::new(vec![Step::CopyNodeAtt { from: 1, to: 0 }]),
        // P4: same slot as P0, different value
        Program::new(vec![Step::SetNodeAtt { n: 1, v: 2 }]),
        // P5: attachment on the root (reserved for diverging commits on fork children)
        Program::new(vec![Step::SetNodeAtt { n: 0, v: 5 }]),
    ]
}

/// Truth channel recorded on every commit (see [`outputs_for`]).
pub fn channel_a() -> ChannelId {
    make_channel_id("verif:truth-a")
}
/// Second channel (recorded only for even commit global ticks).
pub fn channel_b() -> ChannelId {
    make_channel_id("verif:truth-b")
}
/// A channel nothing is ever emitted to.
pub fn channel_none() -> ChannelId {
    make_channel_id("verif:truth-none")
}

/// One real scheduler pass on a fresh engine (interpreter rules registered).
pub fn tick(rt: &mut Rt) -> Result<Vec<StepRecord>, RuntimeError> {
    rt.super_tick(SchedulerKind::Radix)
}

/// Ingest program `p` for the default writer of worldline `w`.
pub fn ingest(rt: &mut Rt, w: WorldlineId, p: &Program) -> Result<IngressDisposition, RuntimeError> {
    rt.runtime.ingest(fixture::intent_default(w, p))
}

/// History length (number of committed ticks) of a worldline.
pub fn len(rt: &Rt, w: WorldlineId) -> u64 {
    rt.provenance.len(w).unwrap_or(0)
}

/// Retention posture used for strand forks (the repository's own test recipe).
pub fn retention_posture() -> RetentionPosture {
    let origin_id = OriginId::from_bytes([0x41; 32]);
    let authority = AuthorityDomainRef::new(origin_id, AuthorityDomainId::from_bytes([0x42; 32]));
    RetentionPosture::new(
        CausalPosture::AuthorOnly,
        PostureDerivation::ExplicitIntent,
        CausalAuthority::new(
            origin_id,
            ActorId::from_bytes([0x43; 32]),
            authority,
            AuthorityBinding::LocalUnbound { origin: origin_id },
            SealStrength::Advisory,
        )
        .expect("authority"),
        RetentionContractId::from_bytes([0x44; 32]),
        None,
    )
    .expect("posture")
}

/// Default writer head key of a worldline created by [`fork`].
pub fn child_head(child: WorldlineId) -> WriterHeadKey {
    WriterHeadKey {
        worldline_id: child,
        head_id: make_head_id("h0"),
    }
}

/// Real strand fork: `ProvenanceService::fork` + child frontier materialisation + strand
/// registration through `WorldlineRuntime::fork_strand`.  `fork_tick` is the last included
/// commit index of `source`.
pub fn fork(
    rt: &mut Rt,
    source: WorldlineId,
    fork_tick: u64,
    child: WorldlineId,
) -> Result<ForkStrandReceipt, RuntimeError> {
    let head = WriterHead::with_routing(
        child_head(child),
        PlaybackMode::Play,
        InboxPolicy::AcceptAll,
        None,
        true,
    );
    let label = format!("verif-strand-{}-{}", mc::hex(&child.as_bytes()[..2]), fork_tick);
    let request = ForkStrandRequest {
        strand_id: make_strand_id(&label),
        source_lane_id: source,
        fork_tick: WorldlineTick::from_raw(fork_tick),
        child_worldline_id: child,
        writer_heads: vec![head],
        retention_posture: retention_posture(),
    };
    let r = rt.runtime.fork_strand(&mut rt.provenance, request)?;
    rt.heads.push(child_head(child));
    Ok(r)
}

/// Worldline id helper re-export.
pub fn w(n: u8) -> WorldlineId {
    wl(n)
}

/// Recorded truth outputs the host "would have" recorded for a commit made at `commit_global_tick`.
///
/// Why this exists: rule executors cannot reach the engine's materialization bus in this tree
/// (`commit_with_state` clears it on entry and executors have no emission port), so every entry
/// a real `super_tick` records has empty `outputs`.  To exercise the recorded-truth / last
/// materialisation paths non-vacuously, a provenance service is *re-recorded*: every real entry is
/// appended again (through the public, validating `append_local_commit` / `fork`) with outputs
/// that are a pure function of its `commit_global_tick`.  Everything else (patch, hashes, parents,
/// receipt) is the real runtime's.
pub fn outputs_for(commit_global_tick: u64) -> Vec<(ChannelId, Vec<u8>)> {
    let k = commit_global_tick;
    let mut v = vec![(channel_a(), vec![b'a', k as u8, (k.wrapping_mul(3)) as u8])];
    if k % 2 == 0 {
        v.push((channel_b(), vec![b'b', k as u8]));
    }
    v.sort_by(|x, y| x.0.cmp(&y.0));
    v
}

/// The *sparse* recording: outputs only on commits with an odd global tick, none on the others —
/// so histories contain an entry WITH outputs followed by one WITHOUT (and vice versa), the shape
/// in which "keep the previous tick's materialisation" differs from "the last entry's outputs".
pub fn outputs_for_mode(commit_global_tick: u64, sparse: bool) -> Vec<(ChannelId, Vec<u8>)> {
    if sparse && commit_global_tick % 2 == 0 {
        Vec::new()
    } else {
        outputs_for(commit_global_tick)
    }
}

/// [`decorate_mode`] with outputs on every entry.
pub fn decorate(rt: &Rt) -> Result<warp_core::ProvenanceService, String> {
    decorate_mode(rt, false)
}

/// Re-record `rt.provenance` with [`outputs_for_mode`] outputs on every entry (idempotent).
/// Worldline creation order is reproduced: base worldlines are registered from the frontier's
/// replay base, strand children are created with `ProvenanceService::fork` at their recorded
/// fork coordinate, then each worldline's remaining entries are appended.
pub fn decorate_mode(rt: &Rt, sparse: bool) -> Result<warp_core::ProvenanceService, String> {
    use warp_core::ProvenanceService;
    let mut out = ProvenanceService::new();
    let ids: Vec<WorldlineId> = rt.runtime.worldlines().iter().map(|(id, _)| *id).collect();
    let mut done: Vec<WorldlineId> = Vec::new();
    let mut progress = true;
    while done.len() < ids.len() && progress {
        progress = false;
        for id in &ids {
            if done.contains(id) {
                continue;
            }
            let strand = rt.runtime.strands().find_by_child_worldline(id);
            match strand {
                None => {
                    let st = rt.runtime.worldlines().get(id).ok_or("no frontier")?.state();
                    out.register_worldline(*id, st).map_err(|e| format!("{e:?}"))?;
                }
                Some(s) => {
                    let b = s.fork_basis_ref();
                    if !done.contains(&b.source_lane_id) {
                        continue;
                    }
                    // the source must already hold the fork coordinate
                    let have = out.len(b.source_lane_id).map_err(|e| format!("{e:?}"))?;
                    if have <= b.fork_tick.as_u64() {
                        return Err("fork source shorter than fork tick".into());
                    }
                    out.fork(b.source_lane_id, b.fork_tick, *id)
                        .map_err(|e| format!("{e:?}"))?;
                }
            }
            let old_len = rt.provenance.len(*id).map_err(|e| format!("{e:?}"))?;
            let have = out.len(*id).map_err(|e| format!("{e:?}"))?;
            for t in have..old_len {
                let mut e = rt
                    .provenance
                    .entry(*id, WorldlineTick::from_raw(t))
                    .map_err(|e| format!("{e:?}"))?;
                e.outputs = outputs_for_mode(e.commit_global_tick.as_u64(), sparse);
                out.append_local_commit(e).map_err(|e| format!("{e:?}"))?;
            }
            done.push(*id);
            progress = true;
        }
    }
    if done.len() != ids.len() {
        return Err("could not order worldlines for re-recording".into());
    }
    Ok(out)
}
