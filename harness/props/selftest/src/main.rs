//! Self-test of the explorer core (closed-form counts) and of the hook surface.
fn main() {
    let mut fails = Vec::new();
    for (n, r) in [
        ("enumerate", mc::enumerate::selftest()),
        ("bfs", mc::bfs::selftest()),
        ("sched", mc::sched::selftest()),
    ] {
        match r {
            Ok(()) => println!("selftest {n}: ok"),
            Err(e) => {
                println!("selftest {n}: FAILED {e}");
                fails.push(n);
            }
        }
    }
    // hooks reachable
    let mut q = warp_core::verif_hooks::scheduler::RawQueue::new();
    q.enqueue([1u8; 32], 1, 10);
    q.enqueue([0u8; 32], 2, 20);
    q.enqueue([1u8; 32], 1, 30);
    let r = q.sorted_by_radix();
    let c = q.sorted_by_comparison();
    if r != c || r.len() != 2 || r[0].3 != 20 || r[1].3 != 30 {
        println!("selftest hooks: FAILED {r:?} {c:?}");
        fails.push("hooks");
    } else {
        println!("selftest hooks: ok");
    }
    match world::selftest() {
        Ok((n, a)) => println!("selftest world: ok ({n} states round-tripped, U_A quick = {a})"),
        Err(e) => {
            println!("selftest world: FAILED {e}");
            fails.push("world");
        }
    }
    let (b, raw) = world::spec_u_b(0).enumerate();
    println!("U_B quick = {} (raw {raw})", b.len());
    let (a1, raw) = world::spec_u_a(1).enumerate();
    println!("U_A thorough = {} (raw {raw})", a1.len());
    let (b1, raw) = world::spec_u_b(1).enumerate();
    println!("U_B thorough = {} (raw {raw})", b1.len());
    if !fails.is_empty() {
        println!("MACHINERY-ERROR selftest failed: {fails:?}");
        std::process::exit(2);
    }
}
