//! Property check C16 — observation is read-only and bound to its coordinate
//! (see /verif/DESIGN.md §4 "C16").
//!
//! Explicit-state BFS over `{ingest(program → worldline), tick (also idle), fork_strand(tick)}` on
//! the real `WorldlineRuntime` + `ProvenanceService` (two base worldlines, at most one strand
//! child), from the empty runtime and from seeded strand states.  In EVERY reachable state the
//! full finite request menu is issued against `ObservationService::observe` and
//! `ObservationService::observe_optic` (see `observe_menu` / `optic_menu`).
//!
//! Oracles:
//!  (1) read-only: `Debug` fingerprint of runtime + provenance and an accessor fingerprint of the
//!      engine are identical before/after every request group; cheap probes after every read;
//!  (2) determinism: every request is asked twice, results must be `==`;
//!  (3) coordinate binding: a `Tick(t)` result is cached under (content of the worldline's history
//!      prefix 0..=t, request) and must be identical in every other state with that prefix
//!      (later commits, idle passes, forks, other branches);
//!  (4) a historical reading equals what `replay_worldline_state_at` yields at that coordinate,
//!      and recorded truth equals the outputs recorded when that tick committed;
//!  (5) a reference model of request validity decides which typed errors / obstruction kinds are
//!      applicable; a reading is returned iff none is applicable.

use hist::*;
use mc::{json, Level, Report, Value};
use rayon::prelude::*;
use rules::fixture::{self, wl, Rt};
use std::collections::{BTreeMap, BTreeSet, HashMap, HashSet};
use warp_core::materialization::ChannelId;
use warp_core::{
    AttachmentDescentPolicy, AttachmentKey, AuthoredObserverPlan, BuiltinObserverPlan, ContractQueryObserver,
    ContractQueryObserverContext, ContractQueryObserverResult, CoordinateAt, EchoCoordinate, Engine, NodeKey,
    ObservationArtifact, ObservationAt, ObservationBasisPosture, ObservationCoordinate, ObservationError,
    ObservationFrame, ObservationPayload, ObservationProjection, ObservationProjectionKind,
    ObservationReadBudget, ObservationRequest, ObservationRights, ObservationService, ObserveOpticRequest,
    ObserveOpticResult, ObserverInstanceId, ObserverInstanceRef, ObserverPlanId, OpticAperture,
    OpticApertureShape, OpticCapabilityId, OpticFocus, OpticId, OpticObstructionKind, OpticReadBudget,
    ProjectionVersion, ProvenanceRef, ProvenanceStore, ReadingBudgetPosture, ReadingObserverPlan,
    ReadingWitnessRef, SchedulerKind, WorldlineId, WorldlineState, WorldlineTick,
};

fn wt(t: u64) -> WorldlineTick {
    WorldlineTick::from_raw(t)
}

const CHILD: u8 = 9;
const UNKNOWN: u8 = 0xEE;
const QUERY_REGISTERED: u32 = 7;
const QUERY_UNREGISTERED: u32 = 8;

// ---------------------------------------------------------------------------------------------
// System under exploration
// ---------------------------------------------------------------------------------------------

#[derive(Clone, Copy, Debug, PartialEq, Eq, Hash, PartialOrd, Ord)]
enum Op {
    Ingest(u8, u8),
    Tick,
    Fork(u64),
}

fn op_enc(o: &Op) -> String {
    match o {
        Op::Ingest(w, p) => format!("I{w}.{p}"),
        Op::Tick => "T".into(),
        Op::Fork(f) => format!("F{f}"),
    }
}

fn ops_dec(s: &str) -> Vec<Op> {
    s.split_whitespace()
        .filter_map(|t| {
            if t == "T" {
                Some(Op::Tick)
            } else if let Some(f) = t.strip_prefix('F') {
                f.parse().ok().map(Op::Fork)
            } else if let Some(r) = t.strip_prefix('I') {
                let (w, p) = r.split_once('.')?;
                Some(Op::Ingest(w.parse().ok()?, p.parse().ok()?))
            } else {
                None
            }
        })
        .collect()
}

fn path_enc(p: &[Op]) -> String {
    p.iter().map(op_enc).collect::<Vec<_>>().join(" ")
}

/// Programs used on the worldlines (indices into `hist::programs()`): P0 and P4 write the same
/// slot (n1 α) so a parent and a strand child can overlap; P1 writes a disjoint region.
const ALPHABET: [u8; 3] = [0, 1, 4];

fn has_child(rt: &Rt) -> bool {
    rt.runtime.worldlines().get(&wl(CHILD)).is_some()
}

fn enabled(rt: &Rt) -> Vec<Op> {
    let mut v = Vec::new();
    let mut wls = vec![1u8, 2u8];
    if has_child(rt) {
        wls.push(CHILD);
    }
    for w in wls {
        for p in ALPHABET {
            v.push(Op::Ingest(w, p));
        }
    }
    v.push(Op::Tick);
    if !has_child(rt) {
        for f in 0..len(rt, wl(1)) {
            v.push(Op::Fork(f));
        }
    }
    v
}

/// Apply one operation with the real runtime; `None` = not applicable (duplicate intent, …).
fn step(rt: &Rt, op: &Op) -> Option<Rt> {
    let mut n = rt.clone();
    match *op {
        Op::Ingest(w, p) => match ingest(&mut n, wl(w), &programs()[p as usize]) {
            Ok(warp_core::IngressDisposition::Accepted { .. }) => Some(n),
            _ => None,
        },
        Op::Tick => {
            tick(&mut n).ok()?;
            // keep recorded truth non-empty: re-record with outputs (see hist::decorate)
            n.provenance = decorate(&n).ok()?;
            Some(n)
        }
        Op::Fork(f) => {
            fork(&mut n, wl(1), f, wl(CHILD)).ok()?;
            Some(n)
        }
    }
}

fn build(ops: &[Op]) -> Option<Rt> {
    let mut rt = Rt::new(2, 1);
    for o in ops {
        rt = step(&rt, o)?;
    }
    Some(rt)
}

// ---------------------------------------------------------------------------------------------
// Engine used for reads
// ---------------------------------------------------------------------------------------------

fn query_plan() -> AuthoredObserverPlan {
    AuthoredObserverPlan {
        plan_id: ObserverPlanId::from_bytes([0x51; 32]),
        artifact_hash: [0x52; 32],
        schema_hash: [0x53; 32],
        state_schema_hash: [0x54; 32],
        update_law_hash: [0x55; 32],
        emission_law_hash: [0x56; 32],
    }
}

/// What the installed query observer must return for a resolved coordinate.
fn query_bytes(query_id: u32, vars: &[u8], tick: u64, state_root: &[u8; 32]) -> Vec<u8> {
    let mut b = query_id.to_le_bytes().to_vec();
    b.extend_from_slice(vars);
    b.extend_from_slice(&tick.to_le_bytes());
    b.extend_from_slice(state_root);
    b
}

fn read_engine() -> Engine {
    let mut e = fixture::fresh_engine(SchedulerKind::Radix, 1);
    let obs = ContractQueryObserver::new(QUERY_REGISTERED, query_plan(), |c: ContractQueryObserverContext<'_>| {
        Ok(ContractQueryObserverResult::complete(query_bytes(
            c.query_id,
            c.vars_bytes,
            c.resolved.resolved_worldline_tick.as_u64(),
            &c.resolved.state_root,
        )))
    });
    e.register_contract_query_observer(obs).expect("query observer");
    e
}

fn engine_fp(e: &Engine) -> [u8; 32] {
    let s = format!(
        "{:?}|{:?}|{}|{:?}|{:?}|{}|{:?}|{}",
        e.state(),
        e.snapshot(),
        e.materialization_bus().is_empty(),
        e.last_materialization(),
        e.last_materialization_errors(),
        e.get_ledger().len(),
        e.pending_intent_count().ok(),
        e.get_intent_log().len()
    );
    mc::h(s.as_bytes())
}

fn rt_fp(rt: &Rt) -> [u8; 32] {
    mc::h(&rt.fingerprint())
}

/// Cheap probe of live state, taken after every single read.
fn probe(rt: &Rt) -> (u64, usize, Vec<(u64, u64)>) {
    (
        rt.runtime.global_tick().as_u64(),
        rt.runtime.receipt_correlation_full_scan_count_for_test(),
        rt.runtime
            .worldlines()
            .iter()
            .map(|(id, f)| (f.frontier_tick().as_u64(), rt.provenance.len(*id).unwrap_or(u64::MAX)))
            .collect(),
    )
}

// ---------------------------------------------------------------------------------------------
// Request menu
// ---------------------------------------------------------------------------------------------

fn projections() -> Vec<ObservationProjection> {
    vec![
        ObservationProjection::Head,
        ObservationProjection::Snapshot,
        ObservationProjection::TruthChannels { channels: None },
        ObservationProjection::TruthChannels { channels: Some(vec![]) },
        ObservationProjection::TruthChannels { channels: Some(vec![channel_a()]) },
        ObservationProjection::TruthChannels { channels: Some(vec![channel_b(), channel_none()]) },
        ObservationProjection::Query { query_id: QUERY_REGISTERED, vars_bytes: vec![] },
        ObservationProjection::Query { query_id: QUERY_REGISTERED, vars_bytes: vec![1, 2] },
        ObservationProjection::Query { query_id: QUERY_UNREGISTERED, vars_bytes: vec![] },
    ]
}

const FRAMES: [ObservationFrame; 3] = [
    ObservationFrame::CommitBoundary,
    ObservationFrame::RecordedTruth,
    ObservationFrame::QueryView,
];

fn valid_pair(f: ObservationFrame, k: ObservationProjectionKind) -> bool {
    // ADR/observation docs: commit boundary ↔ head|snapshot, recorded truth ↔ truth channels,
    // query view ↔ query.
    matches!(
        (f, k),
        (ObservationFrame::CommitBoundary, ObservationProjectionKind::Head | ObservationProjectionKind::Snapshot)
            | (ObservationFrame::RecordedTruth, ObservationProjectionKind::TruthChannels)
            | (ObservationFrame::QueryView, ObservationProjectionKind::Query)
    )
}

fn builtin_plan_for(f: ObservationFrame, k: ObservationProjectionKind) -> BuiltinObserverPlan {
    match (f, k) {
        (_, ObservationProjectionKind::Head) => BuiltinObserverPlan::CommitBoundaryHead,
        (_, ObservationProjectionKind::Snapshot) => BuiltinObserverPlan::CommitBoundarySnapshot,
        (_, ObservationProjectionKind::TruthChannels) => BuiltinObserverPlan::RecordedTruthChannels,
        (_, ObservationProjectionKind::Query) => BuiltinObserverPlan::QueryBytes,
    }
}

/// Base request (unbounded, kernel-public, one-shot, the builtin plan of the projection).
fn base_request(w: WorldlineId, at: ObservationAt, f: ObservationFrame, p: ObservationProjection) -> ObservationRequest {
    let plan = builtin_plan_for(f, p.kind());
    ObservationRequest {
        coordinate: ObservationCoordinate { worldline_id: w, at },
        frame: f,
        projection: p,
        observer_plan: ReadingObserverPlan::Builtin { plan },
        observer_instance: None,
        budget: ObservationReadBudget::UnboundedOneShot,
        rights: ObservationRights::KernelPublic,
    }
}

#[derive(Clone, Debug, PartialEq)]
enum Variant {
    Base,
    Budget(u64, u64),
    Capability,
    AuthoredPlan,
    WrongBuiltinPlan,
    Instance,
}

fn variants() -> Vec<Variant> {
    vec![
        Variant::Budget(0, 0),
        Variant::Budget(16, 8),
        Variant::Budget(4096, 8),
        Variant::Budget(4096, 0),
        Variant::Capability,
        Variant::AuthoredPlan,
        Variant::WrongBuiltinPlan,
        Variant::Instance,
    ]
}

fn apply_variant(base: &ObservationRequest, v: &Variant) -> ObservationRequest {
    let mut r = base.clone();
    match v {
        Variant::Base => {}
        Variant::Budget(b, w) => {
            r.budget = ObservationReadBudget::Bounded {
                max_payload_bytes: *b,
                max_witness_refs: *w,
            }
        }
        Variant::Capability => {
            r.rights = ObservationRights::CapabilityScoped {
                capability: OpticCapabilityId::from_bytes([0x61; 32]),
            }
        }
        Variant::AuthoredPlan => {
            // for queries: an authored plan that is NOT the installed one
            let mut p = query_plan();
            p.plan_id = ObserverPlanId::from_bytes([0x99; 32]);
            r.observer_plan = ReadingObserverPlan::Authored { plan: Box::new(p) };
        }
        Variant::WrongBuiltinPlan => {
            let wrong = match base.observer_plan {
                ReadingObserverPlan::Builtin { plan: BuiltinObserverPlan::CommitBoundaryHead } => BuiltinObserverPlan::CommitBoundarySnapshot,
                _ => BuiltinObserverPlan::CommitBoundaryHead,
            };
            r.observer_plan = ReadingObserverPlan::Builtin { plan: wrong };
        }
        Variant::Instance => {
            r.observer_instance = Some(ObserverInstanceRef {
                instance_id: ObserverInstanceId::from_bytes([0x71; 32]),
                plan_id: ObserverPlanId::from_bytes([0x72; 32]),
                state_hash: [0x73; 32],
            })
        }
    }
    r
}

fn err_name<E: std::fmt::Debug>(e: &E) -> String {
    let d = format!("{e:?}");
    d.split(|c| c == ' ' || c == '(' || c == '{').next().unwrap_or("").to_string()
}

// ---------------------------------------------------------------------------------------------
// Reference knowledge about a state (computed from provenance + replay, not from observation)
// ---------------------------------------------------------------------------------------------

struct WlInfo {
    id: WorldlineId,
    len: u64,
    strand: bool,
    seed_fp: [u8; 32],
    /// prefix_fp[t] = hash of the full content of entries 0..=t
    prefix_fp: Vec<[u8; 32]>,
    /// replayed[c] = state replayed at cursor coordinate c (0..=len)
    replayed: Vec<WorldlineState>,
    /// recorded (commit_global_tick, outputs, commit hash, state root) per entry
    entries: Vec<(u64, Vec<(ChannelId, Vec<u8>)>, [u8; 32], [u8; 32])>,
    frontier_root: [u8; 32],
}

fn wl_info(rt: &Rt, id: WorldlineId) -> Result<WlInfo, String> {
    let f = rt.runtime.worldlines().get(&id).ok_or("no frontier")?;
    let n = rt.provenance.len(id).map_err(|e| format!("{e:?}"))?;
    let mut prefix_fp = Vec::new();
    let mut entries = Vec::new();
    // the identity of the worldline *and* of the strand relation it is read under (the basis
    // posture of a strand read names the strand id) seeds the prefix fingerprint
    let strand_id = rt.runtime.strands().find_by_child_worldline(&id).map(|s| *s.strand_id().as_bytes());
    let mut seed = id.as_bytes().to_vec();
    if let Some(sid) = strand_id {
        seed.extend_from_slice(&sid);
    }
    let seed_fp = mc::h(&seed);
    let mut acc = seed_fp;
    for t in 0..n {
        let e = rt.provenance.entry(id, wt(t)).map_err(|e| format!("{e:?}"))?;
        let mut b = acc.to_vec();
        b.extend_from_slice(format!("{e:?}").as_bytes());
        acc = mc::h(&b);
        prefix_fp.push(acc);
        entries.push((e.commit_global_tick.as_u64(), e.outputs.clone(), e.expected.commit_hash, e.expected.state_root));
    }
    let mut replayed = Vec::new();
    for c in 0..=n {
        replayed.push(
            rt.provenance
                .replay_worldline_state_at(id, f.state(), wt(c))
                .map_err(|e| format!("replay {c}: {e:?}"))?,
        );
    }
    Ok(WlInfo {
        id,
        len: n,
        strand: strand_id.is_some(),
        seed_fp,
        prefix_fp,
        replayed,
        entries,
        frontier_root: f.state().state_root(),
    })
}

// ---------------------------------------------------------------------------------------------
// Per-state result
// ---------------------------------------------------------------------------------------------

#[derive(Default)]
struct Out {
    counters: BTreeMap<String, u64>,
    outcomes: BTreeMap<String, u64>,
    violations: Vec<(String, Value)>,
    machinery: Vec<String>,
    reads: u64,
    /// (cache key, value fingerprint, description) for coordinate binding, merged sequentially
    bound: Vec<([u8; 32], [u8; 32], String)>,
    /// (content fp without hash, artifact hash) for the identity bijection
    ident: Vec<([u8; 32], [u8; 32])>,
    /// distinct payload fingerprints per projection kind
    payloads: Vec<(String, [u8; 32])>,
    nontrivial: Vec<u128>,
}

impl Out {
    fn c(&mut self, k: &str, n: u64) {
        *self.counters.entry(k.to_string()).or_insert(0) += n;
    }
    fn o(&mut self, k: String) {
        *self.outcomes.entry(k).or_insert(0) += 1;
    }
    fn v(&mut self, sig: String, path: &str, detail: Value) {
        self.violations.push((sig, json!({"case": {"history": path}, "detail": detail})));
    }
}

fn normalized(a: &ObservationArtifact, drop_posture: bool) -> ObservationArtifact {
    let mut n = a.clone();
    // freshness watermark: by contract a function of the live global tick, not of the coordinate
    n.resolved.observed_after_global_tick = None;
    n.artifact_hash = [0; 32];
    if drop_posture {
        // INV-S10: live parent-basis posture of a strand frontier is a function of current parent history
        n.reading.parent_basis_posture = ObservationBasisPosture::Worldline;
        if let Some(q) = n.reading.query_identity.as_mut() {
            q.basis_digest = [0; 32];
            q.reading_id = [0; 32];
        }
        n.reading.retained_evidence.clear();
    }
    n
}

/// The set of typed errors the documentation makes applicable to `req` in this state.
fn applicable_errors(req: &ObservationRequest, info: Option<&WlInfo>) -> BTreeSet<&'static str> {
    let mut s = BTreeSet::new();
    if info.is_none() {
        s.insert("InvalidWorldline");
    }
    let kind = req.projection.kind();
    if !valid_pair(req.frame, kind) {
        s.insert("UnsupportedFrameProjection");
    }
    let is_query = matches!(req.projection, ObservationProjection::Query { .. });
    if let ObservationProjection::Query { query_id, .. } = &req.projection {
        if *query_id != QUERY_REGISTERED && req.frame == ObservationFrame::QueryView {
            s.insert("UnsupportedQuery");
        }
    }
    let expected_plan = ReadingObserverPlan::Builtin { plan: builtin_plan_for(req.frame, kind) };
    let installed = ReadingObserverPlan::Authored { plan: Box::new(query_plan()) };
    let plan_ok = req.observer_plan == expected_plan || (is_query && req.observer_plan == installed);
    if !plan_ok {
        s.insert("UnsupportedObserverPlan");
    }
    if req.observer_instance.is_some() {
        s.insert("UnsupportedObserverInstance");
    }
    if matches!(req.rights, ObservationRights::CapabilityScoped { .. }) {
        s.insert("UnsupportedRights");
    }
    if let Some(i) = info {
        match req.coordinate.at {
            ObservationAt::Tick(t) if t.as_u64() >= i.len => {
                s.insert("InvalidTick");
            }
            ObservationAt::Frontier if req.frame == ObservationFrame::RecordedTruth && i.len == 0 => {
                s.insert("ObservationUnavailable");
            }
            _ => {}
        }
    }
    s
}

fn payload_kind(p: &ObservationPayload) -> &'static str {
    match p {
        ObservationPayload::Head(_) => "Head",
        ObservationPayload::Snapshot(_) => "Snapshot",
        ObservationPayload::TruthChannels(_) => "TruthChannels",
        ObservationPayload::QueryBytes(_) => "QueryBytes",
    }
}

fn payload_wire_len(a: &ObservationArtifact) -> u64 {
    echo_wasm_abi::encode_cbor(&a.to_abi().payload).map(|b| b.len() as u64).unwrap_or(u64::MAX)
}

/// (4): check a successful artifact against what replay / recorded provenance say.
fn check_against_replay(out: &mut Out, path: &str, req: &ObservationRequest, a: &ObservationArtifact, i: &WlInfo) {
    let site = format!("{:?}/{}", req.frame, payload_kind(&a.payload));
    // which entry / cursor coordinate does the request denote?
    let (entry_ix, cursor, expect_tick): (Option<usize>, usize, u64) = match (req.frame, req.coordinate.at) {
        (ObservationFrame::RecordedTruth, ObservationAt::Frontier) => (Some(i.len as usize - 1), i.len as usize, i.len - 1),
        (_, ObservationAt::Frontier) => (i.len.checked_sub(1).map(|x| x as usize), i.len as usize, i.len),
        (_, ObservationAt::Tick(t)) => (Some(t.as_u64() as usize), t.as_u64() as usize + 1, t.as_u64()),
    };
    let st = &i.replayed[cursor];
    let mut bad = |what: &str, out: &mut Out| {
        let at = match req.coordinate.at {
            ObservationAt::Frontier => "Frontier",
            ObservationAt::Tick(_) => "Tick",
        };
        out.v(
            format!("c16:observe:{site}@{at}: reading differs from the state replayed at that coordinate:{what}"),
            path,
            json!({"request": format!("{req:?}"), "got": format!("{:?}", a.resolved), "cursor_coordinate": cursor}),
        );
    };
    if a.resolved.worldline_id != i.id || a.resolved.requested_at != req.coordinate.at {
        bad("echoed coordinate", out);
    }
    if a.resolved.resolved_worldline_tick.as_u64() != expect_tick {
        bad("resolved tick", out);
    }
    if a.resolved.state_root != st.state_root() {
        bad("state_root", out);
    }
    if matches!(req.coordinate.at, ObservationAt::Frontier) && req.frame != ObservationFrame::RecordedTruth && a.resolved.state_root != i.frontier_root {
        bad("state_root vs live frontier", out);
    }
    match entry_ix {
        Some(ix) => {
            let (gt, outputs, commit, root) = &i.entries[ix];
            if a.resolved.commit_hash != *commit || Some(a.resolved.commit_hash) != st.last_snapshot().map(|s| s.hash) {
                bad("commit_hash", out);
            }
            if a.resolved.state_root != *root {
                bad("state_root vs recorded entry", out);
            }
            if a.resolved.commit_global_tick.map(|g| g.as_u64()) != Some(*gt) {
                bad("commit_global_tick", out);
            }
            let wit_tick = ix as u64;
            let want_w = vec![ReadingWitnessRef::ResolvedCommit {
                reference: ProvenanceRef { worldline_id: i.id, worldline_tick: wt(wit_tick), commit_hash: *commit },
            }];
            if a.reading.witness_refs != want_w {
                bad("witness_refs", out);
            }
            if let ObservationPayload::TruthChannels(got) = &a.payload {
                let filter = match &req.projection {
                    ObservationProjection::TruthChannels { channels } => channels.clone(),
                    _ => None,
                };
                let keep = |c: &ChannelId| filter.as_ref().map_or(true, |f| f.contains(c));
                let want: Vec<(ChannelId, Vec<u8>)> = outputs.iter().filter(|(c, _)| keep(c)).cloned().collect();
                let from_replay: Vec<(ChannelId, Vec<u8>)> = st
                    .last_materialization()
                    .iter()
                    .filter(|c| keep(&c.channel))
                    .map(|c| (c.channel, c.data.clone()))
                    .collect();
                let from_rule: Vec<(ChannelId, Vec<u8>)> = outputs_for(*gt).into_iter().filter(|(c, _)| keep(c)).collect();
                if *got != want || *got != from_replay || *got != from_rule {
                    bad("truth channels vs outputs recorded at that tick", out);
                }
            }
        }
        None => {
            // empty frontier
            if a.resolved.commit_global_tick.is_some() {
                bad("commit_global_tick on empty frontier", out);
            }
            if !matches!(a.reading.witness_refs.as_slice(), [ReadingWitnessRef::EmptyFrontier { state_root, .. }] if *state_root == st.state_root()) {
                bad("empty-frontier witness", out);
            }
        }
    }
    match &a.payload {
        ObservationPayload::Head(h) => {
            if h.worldline_tick != a.resolved.resolved_worldline_tick
                || h.state_root != a.resolved.state_root
                || h.commit_hash != a.resolved.commit_hash
                || h.commit_global_tick != a.resolved.commit_global_tick
            {
                bad("head payload vs resolved", out);
            }
        }
        ObservationPayload::Snapshot(h) => {
            if h.worldline_tick != a.resolved.resolved_worldline_tick
                || h.state_root != a.resolved.state_root
                || h.commit_hash != a.resolved.commit_hash
                || h.commit_global_tick != a.resolved.commit_global_tick
            {
                bad("snapshot payload vs resolved", out);
            }
        }
        ObservationPayload::QueryBytes(b) => {
            if let ObservationProjection::Query { query_id, vars_bytes } = &req.projection {
                if *b != query_bytes(*query_id, vars_bytes, expect_tick, &st.state_root()) {
                    bad("query bytes", out);
                }
            }
        }
        ObservationPayload::TruthChannels(_) => {}
    }
    // posture
    let want_posture_ok = match (&a.reading.parent_basis_posture, i.strand, req.coordinate.at) {
        (ObservationBasisPosture::Worldline, false, _) => true,
        (ObservationBasisPosture::StrandHistorical { .. }, true, ObservationAt::Tick(_)) => true,
        (ObservationBasisPosture::StrandAtAnchor { .. }, true, ObservationAt::Frontier)
        | (ObservationBasisPosture::StrandParentAdvancedDisjoint { .. }, true, ObservationAt::Frontier)
        | (ObservationBasisPosture::StrandRevalidationRequired { .. }, true, ObservationAt::Frontier) => true,
        _ => false,
    };
    if !want_posture_ok {
        bad("basis posture class", out);
    }
    if i.strand {
        out.o(format!("strand_posture:{}", err_name(&a.reading.parent_basis_posture)));
    }
    if a.frame != req.frame || a.projection != req.projection {
        bad("echoed frame/projection", out);
    }
}

/// Issue one request twice, classify, check (2), (4), (5); returns the first result.
fn issue(
    out: &mut Out,
    path: &str,
    rt: &Rt,
    engine: &Engine,
    req: &ObservationRequest,
    info: Option<&WlInfo>,
    extra_errors: &BTreeSet<&'static str>,
    probe0: &(u64, usize, Vec<(u64, u64)>),
) -> Result<ObservationArtifact, ObservationError> {
    let r1 = ObservationService::observe(&rt.runtime, &rt.provenance, engine, req.clone());
    let r2 = ObservationService::observe(&rt.runtime, &rt.provenance, engine, req.clone());
    out.reads += 2;
    if probe(rt) != *probe0 {
        out.v("c16:read-only:live counters changed by observe".into(), path, json!({"request": format!("{req:?}")}));
    }
    if r1 != r2 {
        out.v(
            format!("c16:determinism:observe twice differs:{:?}/{:?}", req.frame, req.projection.kind()),
            path,
            json!({"request": format!("{req:?}")}),
        );
    }
    let mut applicable = applicable_errors(req, info);
    applicable.extend(extra_errors.iter().copied());
    match &r1 {
        Ok(a) => {
            out.o(format!("reading:{}", payload_kind(&a.payload)));
            if !applicable.is_empty() {
                let at = match req.coordinate.at {
                    ObservationAt::Frontier => "Frontier",
                    ObservationAt::Tick(_) => "Tick",
                };
                out.v(
                    format!(
                        "c16:typed-error:reading returned although {} applies ({:?}/{:?}@{at})",
                        applicable.iter().next().unwrap(),
                        req.frame,
                        req.projection.kind()
                    ),
                    path,
                    json!({"request": format!("{req:?}"), "got": format!("{:?}", a.resolved)}),
                );
            } else if let Some(i) = info {
                check_against_replay(out, path, req, a, i);
            }
        }
        Err(e) => {
            let name = err_name(e);
            out.o(format!("typed_error:{name}"));
            if !applicable.contains(name.as_str()) {
                out.v(
                    format!("c16:typed-error:unexpected {name} ({:?}/{:?})", req.frame, req.projection.kind()),
                    path,
                    json!({"request": format!("{req:?}"), "applicable": applicable}),
                );
            }
            // the error must name the request's own coordinate
            let echo_ok = match e {
                ObservationError::InvalidWorldline(w) => *w == req.coordinate.worldline_id,
                ObservationError::InvalidTick { worldline_id, tick } => {
                    *worldline_id == req.coordinate.worldline_id && ObservationAt::Tick(*tick) == req.coordinate.at
                }
                ObservationError::ObservationUnavailable { worldline_id, at } => {
                    *worldline_id == req.coordinate.worldline_id && *at == req.coordinate.at
                }
                ObservationError::UnsupportedFrameProjection { frame, projection } => {
                    *frame == req.frame && *projection == req.projection.kind()
                }
                _ => true,
            };
            if !echo_ok {
                out.v(format!("c16:typed-error:{name} names a different coordinate"), path, json!({"request": format!("{req:?}"), "error": format!("{e:?}")}));
            }
        }
    }
    r1
}

fn fp_dbg<T: std::fmt::Debug>(t: &T) -> [u8; 32] {
    mc::fp_debug(t)
}

fn cache_key(prefix: &[u8; 32], tag: &str, req_dbg: &str) -> [u8; 32] {
    let mut b = prefix.to_vec();
    b.extend_from_slice(tag.as_bytes());
    b.extend_from_slice(req_dbg.as_bytes());
    mc::h(&b)
}

fn record_artifact(out: &mut Out, req: &ObservationRequest, a: &ObservationArtifact, i: &WlInfo, path: &str) {
    let req_dbg = format!("{req:?}");
    // identity bijection: everything but the hash ↔ the hash
    let mut content = a.clone();
    content.artifact_hash = [0; 32];
    out.ident.push((fp_dbg(&content), a.artifact_hash));
    out.payloads.push((payload_kind(&a.payload).to_string(), fp_dbg(&a.payload)));
    match req.coordinate.at {
        ObservationAt::Tick(t) => {
            let p = &i.prefix_fp[t.as_u64() as usize];
            out.bound.push((
                cache_key(p, "tick-normalized", &req_dbg),
                fp_dbg(&normalized(a, false)),
                format!("{path} :: {req_dbg}"),
            ));
            let fresh = format!("tick-fresh-{:?}", a.resolved.observed_after_global_tick);
            out.bound.push((cache_key(p, &fresh, &req_dbg), fp_dbg(a), format!("{path} :: {req_dbg}")));
            out.c("tick_reads_recorded_for_binding", 1);
        }
        ObservationAt::Frontier => {
            // same worldline history ⇒ same frontier reading (modulo freshness and, for strands,
            // the live parent-basis posture)
            let p = if i.len == 0 { i.seed_fp } else { i.prefix_fp[i.len as usize - 1] };
            out.bound.push((
                cache_key(&p, "frontier-normalized", &req_dbg),
                fp_dbg(&normalized(a, i.strand)),
                format!("{path} :: {req_dbg}"),
            ));
        }
    }
}

fn observe_menu(out: &mut Out, path: &str, rt: &Rt, engine: &Engine, infos: &BTreeMap<WorldlineId, WlInfo>) {
    let mut ids: Vec<WorldlineId> = infos.keys().copied().collect();
    ids.push(wl(UNKNOWN));
    let fp0 = rt_fp(rt);
    let efp0 = engine_fp(engine);
    let probe0 = probe(rt);
    let none: BTreeSet<&'static str> = BTreeSet::new();
    for w in ids {
        let info = infos.get(&w);
        let n = info.map_or(1, |i| i.len);
        let mut ats = vec![ObservationAt::Frontier];
        for t in 0..=n + 1 {
            ats.push(ObservationAt::Tick(wt(t)));
        }
        for at in ats {
            for f in FRAMES {
                for p in projections() {
                    let base = base_request(w, at, f, p.clone());
                    let r0 = issue(out, path, rt, engine, &base, info, &none, &probe0);
                    if let (Ok(a), Some(i)) = (&r0, info) {
                        record_artifact(out, &base, a, i, path);
                        if matches!(at, ObservationAt::Tick(_)) {
                            out.nontrivial.push(Report::key(format!("{path}|{base:?}").as_bytes()));
                        }
                    }
                    // builtin_one_shot constructor agrees with the validity matrix
                    let ctor = ObservationRequest::builtin_one_shot(base.coordinate.clone(), f, p.clone());
                    match (&ctor, valid_pair(f, p.kind())) {
                        (Ok(c), true) if *c == base => {}
                        (Err(ObservationError::UnsupportedFrameProjection { .. }), false) => {}
                        _ => out.v("c16:typed-error:builtin_one_shot disagrees with the validity matrix".into(), path, json!({"frame": format!("{f:?}"), "projection": format!("{p:?}")})),
                    }
                    // variants on the four canonical valid requests
                    let canonical = valid_pair(f, p.kind())
                        && matches!(
                            &p,
                            ObservationProjection::Head
                                | ObservationProjection::Snapshot
                                | ObservationProjection::TruthChannels { channels: None }
                        )
                        || (f == ObservationFrame::QueryView
                            && matches!(&p, ObservationProjection::Query { query_id, vars_bytes } if *query_id == QUERY_REGISTERED && vars_bytes.is_empty()));
                    if !canonical {
                        continue;
                    }
                    for v in variants() {
                        let req = apply_variant(&base, &v);
                        let mut extra: BTreeSet<&'static str> = BTreeSet::new();
                        if let (Variant::Budget(mb, mw), Ok(a0)) = (&v, &r0) {
                            let plen = payload_wire_len(a0);
                            if plen > *mb || 1 > *mw {
                                extra.insert("BudgetExceeded");
                            }
                            let r = issue(out, path, rt, engine, &req, info, &extra, &probe0);
                            match &r {
                                Ok(a) => {
                                    let want = ReadingBudgetPosture::Bounded {
                                        max_payload_bytes: *mb,
                                        payload_bytes: plen,
                                        max_witness_refs: *mw,
                                        witness_refs: 1,
                                    };
                                    if a.reading.budget_posture != want || a.payload != a0.payload || normalized(a, false).resolved != normalized(a0, false).resolved {
                                        out.v("c16:observe:bounded reading differs from its unbounded twin".into(), path, json!({"request": format!("{req:?}")}));
                                    }
                                    out.c("bounded_readings_within_budget", 1);
                                    if let Some(i) = info {
                                        record_artifact(out, &req, a, i, path);
                                    }
                                }
                                Err(ObservationError::BudgetExceeded { max_payload_bytes, payload_bytes, max_witness_refs, witness_refs }) => {
                                    if (*max_payload_bytes, *payload_bytes, *max_witness_refs, *witness_refs) != (*mb, plen, *mw, 1) {
                                        out.v("c16:typed-error:BudgetExceeded reports wrong sizes".into(), path, json!({"request": format!("{req:?}"), "got": format!("{r:?}")}));
                                    }
                                }
                                _ => {}
                            }
                        } else {
                            let r = issue(out, path, rt, engine, &req, info, &extra, &probe0);
                            if let (Ok(a), Some(i)) = (&r, info) {
                                record_artifact(out, &req, a, i, path);
                            }
                        }
                    }
                }
            }
        }
        // read-only, per worldline group
        if rt_fp(rt) != fp0 {
            out.v("c16:read-only:runtime/provenance Debug fingerprint changed by observe".into(), path, json!({"worldline": format!("{w:?}")}));
        }
        if engine_fp(engine) != efp0 {
            out.v("c16:read-only:engine-observable state changed by observe".into(), path, json!({"worldline": format!("{w:?}")}));
        }
        out.c("read_only_fingerprint_comparisons", 1);
    }
}

// ---------------------------------------------------------------------------------------------
// Optic menu
// ---------------------------------------------------------------------------------------------

fn optic_req(focus: OpticFocus, coordinate: EchoCoordinate, shape: OpticApertureShape, max_bytes: Option<u64>, max_ticks: Option<u64>, descent: AttachmentDescentPolicy, max_att: Option<u64>) -> ObserveOpticRequest {
    ObserveOpticRequest {
        optic_id: OpticId::from_bytes([0x81; 32]),
        focus,
        coordinate,
        aperture: OpticAperture {
            shape,
            budget: OpticReadBudget {
                max_bytes,
                max_nodes: Some(8),
                max_ticks,
                max_attachments: max_att,
            },
            attachment_descent: descent,
        },
        projection_version: ProjectionVersion::from_raw(1),
        reducer_version: None,
        capability: OpticCapabilityId::from_bytes([0x82; 32]),
    }
}

fn shapes() -> Vec<OpticApertureShape> {
    vec![
        OpticApertureShape::Head,
        OpticApertureShape::SnapshotMetadata,
        OpticApertureShape::TruthChannels { channels: None },
        OpticApertureShape::QueryBytes { query_id: QUERY_REGISTERED, vars_digest: [0x83; 32] },
        OpticApertureShape::ByteRange { start: 0, len: 16 },
        OpticApertureShape::AttachmentBoundary,
    ]
}

/// Checkpoint dimension of coordinate binding.  BFS states carry no replay checkpoints (a
/// checkpoint is retention configuration, not history), so here every state is probed on CLONES of
/// its provenance that hold one checkpoint at each interior coordinate `c`; optic reads at every
/// explicit coordinate `t > c` (Tick and Provenance form, Head / SnapshotMetadata / TruthChannels,
/// generous and tight tick budgets) are (1) repeated — equal, (2) read-only, and (3) recorded for
/// coordinate binding under (history prefix of t, checkpoint coordinate, request): the same reading
/// or the same obstruction must come back in every descendant state, whatever was committed later.
fn optic_checkpoint_probe(out: &mut Out, path: &str, rt: &Rt, engine: &Engine, infos: &BTreeMap<WorldlineId, WlInfo>) {
    for (w, info) in infos {
        if info.len < 2 {
            continue;
        }
        for c in 1..info.len {
            let mut pc = rt.provenance.clone();
            let st = &info.replayed[c as usize];
            let added = pc.add_checkpoint(
                *w,
                warp_core::ReplayCheckpoint {
                    checkpoint: warp_core::CheckpointRef { worldline_tick: wt(c), state_hash: st.state_root() },
                    state: st.clone(),
                },
            );
            if added.is_err() {
                out.machinery.push(format!("checkpoint probe: add_checkpoint at {c} refused: {:?}", added.err()));
                continue;
            }
            let fp0 = mc::fp_debug(&(&rt.runtime, &pc));
            // "the state replayed at that coordinate" is itself checkpoint-independent: replaying every
            // cursor coordinate on the checkpointed clone gives the state (Debug-equal: graph, tick
            // history, snapshot, materialisation) the checkpoint-free replay gives — this is what
            // every historical reading is compared with
            if let Some(f) = rt.runtime.worldlines().get(w) {
                for cur in 0..=info.len {
                    let got = std::panic::catch_unwind(std::panic::AssertUnwindSafe(|| pc.replay_worldline_state_at(*w, f.state(), wt(cur))));
                    out.reads += 1;
                    match got {
                        Ok(Ok(st)) => {
                            out.c("checkpointed_replays_compared", 1);
                            if format!("{st:?}") != format!("{:?}", info.replayed[cur as usize]) {
                                out.v("c16:coordinate-binding:state replayed at a coordinate depends on a replay checkpoint".into(), path, json!({"checkpoint": c, "cursor": cur}));
                            }
                        }
                        Ok(Err(e)) => out.v("c16:coordinate-binding:replay fails once a genuine checkpoint is retained".into(), path, json!({"checkpoint": c, "cursor": cur, "error": format!("{e:?}")})),
                        Err(_) => out.v("c16:totality:replay panicked with a genuine checkpoint retained".into(), path, json!({"checkpoint": c, "cursor": cur})),
                    }
                }
            }
            // a checkpoint is retention configuration: WHAT a coordinate shows (payload, resolved
            // coordinate) must be the same with and without it, for coordinates on BOTH sides of the
            // checkpoint (a restore that picks the checkpoint of the wrong tick shows another state)
            for t in 0..info.len {
                for sh in [OpticApertureShape::Head, OpticApertureShape::SnapshotMetadata] {
                    let req = optic_req(
                        OpticFocus::Worldline { worldline_id: *w },
                        EchoCoordinate::Worldline { worldline_id: *w, at: CoordinateAt::Tick(wt(t)) },
                        sh,
                        Some(4096),
                        Some(64),
                        AttachmentDescentPolicy::BoundaryOnly,
                        Some(0),
                    );
                    let plain = std::panic::catch_unwind(std::panic::AssertUnwindSafe(|| ObservationService::observe_optic(&rt.runtime, &rt.provenance, engine, req.clone())));
                    let with_cp = std::panic::catch_unwind(std::panic::AssertUnwindSafe(|| ObservationService::observe_optic(&rt.runtime, &pc, engine, req.clone())));
                    out.reads += 2;
                    match (plain, with_cp) {
                        (Ok(ObserveOpticResult::Reading(a)), Ok(ObserveOpticResult::Reading(b))) => {
                            out.c("checkpoint_independence_readings_compared", 1);
                            if a.payload != b.payload {
                                out.v("c16:coordinate-binding:reading at an explicit coordinate depends on a replay checkpoint".into(), path, json!({"request": format!("{req:?}"), "checkpoint": c, "tick": t}));
                            }
                        }
                        (Ok(ObserveOpticResult::Obstructed(_)), Ok(ObserveOpticResult::Obstructed(_))) => {}
                        (Ok(_), Ok(_)) => {
                            out.v("c16:coordinate-binding:a replay checkpoint turns a reading into an obstruction or back".into(), path, json!({"request": format!("{req:?}"), "checkpoint": c, "tick": t}));
                        }
                        (_, Err(_)) | (Err(_), _) => {
                            out.v("c16:totality:observe_optic panicked (checkpoint probe)".into(), path, json!({"request": format!("{req:?}"), "checkpoint": c, "tick": t}));
                        }
                    }
                }
            }
            // explicit coordinates name an ENTRY index t (as in the main menu: Tick(t) binds to prefix_fp[t]);
            // the checkpoint at cursor coordinate c holds the state after entries 0..c-1, so it lies at or
            // below every t >= c
            for t in c..info.len {
                if t > c && t + 1 < info.len {
                    out.c("checkpoint_probe_interior_coordinate_above_interior_checkpoint", 1);
                }
                let ats = vec![
                    CoordinateAt::Tick(wt(t)),
                    CoordinateAt::Provenance(ProvenanceRef { worldline_id: *w, worldline_tick: wt(t), commit_hash: info.entries[t as usize].2 }),
                ];
                for at in ats {
                    for sh in [OpticApertureShape::Head, OpticApertureShape::SnapshotMetadata, OpticApertureShape::TruthChannels { channels: None }] {
                        for mt in [Some(1u64), Some(64)] {
                            let req = optic_req(
                                OpticFocus::Worldline { worldline_id: *w },
                                EchoCoordinate::Worldline { worldline_id: *w, at: at.clone() },
                                sh.clone(),
                                Some(4096),
                                mt,
                                AttachmentDescentPolicy::BoundaryOnly,
                                Some(0),
                            );
                            let r1 = ObservationService::observe_optic(&rt.runtime, &pc, engine, req.clone());
                            let r2 = ObservationService::observe_optic(&rt.runtime, &pc, engine, req.clone());
                            out.reads += 2;
                            if format!("{r1:?}") != format!("{r2:?}") {
                                out.v("c16:determinism:observe_optic twice differs (with a replay checkpoint below the coordinate)".into(), path, json!({"request": format!("{req:?}"), "checkpoint": c}));
                            }
                            let fp = match &r1 {
                                ObserveOpticResult::Reading(rd) => {
                                    out.c("checkpoint_probe_readings", 1);
                                    fp_dbg(&**rd)
                                }
                                ObserveOpticResult::Obstructed(ob) => {
                                    out.c("checkpoint_probe_obstructions", 1);
                                    fp_dbg(&(kind_name(ob.kind), format!("{ob:?}")))
                                }
                            };
                            let prefix = &info.prefix_fp[t as usize];
                            out.bound.push((cache_key(prefix, &format!("optic-with-checkpoint@{c}"), &format!("{req:?}")), fp, format!("{path} :: checkpoint@{c} :: {req:?}")));
                            out.c("optic_checkpoint_reads_recorded_for_binding", 1);
                        }
                    }
                }
            }
            if mc::fp_debug(&(&rt.runtime, &pc)) != fp0 {
                out.v("c16:read-only:runtime/provenance fingerprint changed by observe_optic (checkpoint probe)".into(), path, json!({"checkpoint": c}));
            }
        }
    }
}

fn kind_name(k: OpticObstructionKind) -> String {
    format!("{k:?}")
}

#[allow(clippy::too_many_arguments)]
fn optic_menu(out: &mut Out, path: &str, rt: &Rt, engine: &Engine, infos: &BTreeMap<WorldlineId, WlInfo>) {
    let mut ids: Vec<WorldlineId> = infos.keys().copied().collect();
    ids.push(wl(UNKNOWN));
    let fp0 = rt_fp(rt);
    let efp0 = engine_fp(engine);
    let probe0 = probe(rt);
    let budgets: [(Option<u64>, Option<u64>); 6] = [
        (None, Some(1)),
        (Some(0), Some(1)),
        (Some(64), Some(1)),
        (Some(128), Some(1)),
        (Some(4096), Some(1)),
        (Some(4096), Some(0)),
    ];
    let mut reqs: Vec<(ObserveOpticRequest, Option<WorldlineId>)> = Vec::new();
    for w in &ids {
        let info = infos.get(w);
        let n = info.map_or(1, |i| i.len);
        let mut ats = vec![CoordinateAt::Frontier];
        for t in 0..=n + 1 {
            ats.push(CoordinateAt::Tick(wt(t)));
        }
        if let Some(i) = info {
            for t in 0..i.len {
                ats.push(CoordinateAt::Provenance(ProvenanceRef { worldline_id: *w, worldline_tick: wt(t), commit_hash: i.entries[t as usize].2 }));
            }
            ats.push(CoordinateAt::Provenance(ProvenanceRef { worldline_id: wl(UNKNOWN), worldline_tick: wt(0), commit_hash: [0; 32] }));
            // a full provenance coordinate that names a commit this history does not contain: right
            // worldline and tick, foreign commit hash (and the hash of ANOTHER tick of the same worldline)
            for t in 0..i.len {
                ats.push(CoordinateAt::Provenance(ProvenanceRef { worldline_id: *w, worldline_tick: wt(t), commit_hash: [0xEE; 32] }));
                if i.len >= 2 {
                    let other = i.entries[((t + 1) % i.len) as usize].2;
                    ats.push(CoordinateAt::Provenance(ProvenanceRef { worldline_id: *w, worldline_tick: wt(t), commit_hash: other }));
                }
            }
        }
        for at in ats {
            for sh in shapes() {
                for (mb, mt) in budgets {
                    reqs.push((
                        optic_req(
                            OpticFocus::Worldline { worldline_id: *w },
                            EchoCoordinate::Worldline { worldline_id: *w, at },
                            sh.clone(),
                            mb,
                            mt,
                            AttachmentDescentPolicy::BoundaryOnly,
                            Some(0),
                        ),
                        Some(*w),
                    ));
                }
            }
        }
    }
    // focus / coordinate shapes outside the supported bridge
    let w1 = wl(1);
    let w2 = wl(2);
    let strand_id = warp_core::make_strand_id("verif-any");
    reqs.push((optic_req(OpticFocus::Worldline { worldline_id: w1 }, EchoCoordinate::Worldline { worldline_id: w2, at: CoordinateAt::Frontier }, OpticApertureShape::Head, Some(4096), Some(1), AttachmentDescentPolicy::BoundaryOnly, Some(0)), None));
    reqs.push((optic_req(OpticFocus::Strand { strand_id }, EchoCoordinate::Strand { strand_id, at: CoordinateAt::Frontier, parent_basis: None }, OpticApertureShape::Head, Some(4096), Some(1), AttachmentDescentPolicy::BoundaryOnly, Some(0)), None));
    reqs.push((optic_req(OpticFocus::Worldline { worldline_id: w1 }, EchoCoordinate::Strand { strand_id, at: CoordinateAt::Frontier, parent_basis: None }, OpticApertureShape::Head, Some(4096), Some(1), AttachmentDescentPolicy::BoundaryOnly, Some(0)), None));
    let u = rules::universe();
    let akey = AttachmentKey::node_alpha(NodeKey { warp_id: u.warp(0), local_id: u.node(1) });
    for sh in [OpticApertureShape::AttachmentBoundary, OpticApertureShape::Head] {
        for d in [AttachmentDescentPolicy::BoundaryOnly, AttachmentDescentPolicy::Explicit] {
            for ma in [None, Some(0), Some(1)] {
                reqs.push((optic_req(OpticFocus::AttachmentBoundary { key: akey }, EchoCoordinate::Worldline { worldline_id: w1, at: CoordinateAt::Frontier }, sh.clone(), Some(4096), Some(1), d, ma), None));
            }
        }
    }

    for (req, _w) in &reqs {
        let r1 = ObservationService::observe_optic(&rt.runtime, &rt.provenance, engine, req.clone());
        let r2 = ObservationService::observe_optic(&rt.runtime, &rt.provenance, engine, req.clone());
        out.reads += 2;
        if probe(rt) != probe0 {
            out.v("c16:read-only:live counters changed by observe_optic".into(), path, json!({"request": format!("{req:?}")}));
        }
        if r1 != r2 {
            out.v("c16:determinism:observe_optic twice differs".into(), path, json!({"request": format!("{req:?}")}));
        }
        // ---- reference: applicable obstruction kinds --------------------------------------
        let mut app: BTreeSet<String> = BTreeSet::new();
        let mb = req.aperture.budget.max_bytes;
        match mb {
            None | Some(0) => {
                app.insert("BudgetExceeded".into());
            }
            Some(b) => match &req.aperture.shape {
                OpticApertureShape::Head | OpticApertureShape::SnapshotMetadata if b < 128 => {
                    app.insert("BudgetExceeded".into());
                }
                OpticApertureShape::ByteRange { len, .. } if *len > b => {
                    app.insert("BudgetExceeded".into());
                }
                _ => {}
            },
        }
        let mut twin: Option<(ObservationRequest, WorldlineId)> = None;
        match (&req.focus, &req.coordinate) {
            (OpticFocus::AttachmentBoundary { .. }, _) => {
                match (&req.aperture.shape, req.aperture.attachment_descent) {
                    (OpticApertureShape::AttachmentBoundary, AttachmentDescentPolicy::BoundaryOnly) => {
                        app.insert("AttachmentDescentRequired".into());
                    }
                    (OpticApertureShape::AttachmentBoundary, AttachmentDescentPolicy::Explicit) => {
                        if req.aperture.budget.max_attachments.unwrap_or(0) == 0 {
                            app.insert("BudgetExceeded".into());
                        } else {
                            app.insert("AttachmentDescentDenied".into());
                        }
                    }
                    _ => {
                        app.insert("UnsupportedAperture".into());
                    }
                }
            }
            (OpticFocus::Worldline { worldline_id: fw }, EchoCoordinate::Worldline { worldline_id: cw, at }) => {
                if fw != cw {
                    app.insert("ConflictingFrontier".into());
                }
                let oat = match at {
                    CoordinateAt::Frontier => Some(ObservationAt::Frontier),
                    CoordinateAt::Tick(t) => Some(ObservationAt::Tick(*t)),
                    CoordinateAt::Provenance(r) if r.worldline_id == *cw => {
                        // the coordinate names (worldline, tick, commit): if the recorded entry at that
                        // tick has another commit hash, the named commit is not part of this history
                        if let Some(i) = infos.get(cw) {
                            if let Some(e) = i.entries.get(r.worldline_tick.as_u64() as usize) {
                                if e.2 != r.commit_hash {
                                    app.insert("ProvenanceCoordinateNamesNoRecordedCommit".into());
                                }
                            }
                        }
                        Some(ObservationAt::Tick(r.worldline_tick))
                    }
                    CoordinateAt::Provenance(_) => {
                        app.insert("ConflictingFrontier".into());
                        None
                    }
                };
                match &req.aperture.shape {
                    OpticApertureShape::Head | OpticApertureShape::SnapshotMetadata => {
                        if let (Some(oat), Some(b)) = (oat, mb) {
                            let proj = if matches!(req.aperture.shape, OpticApertureShape::Head) { ObservationProjection::Head } else { ObservationProjection::Snapshot };
                            let mut t = base_request(*cw, oat, ObservationFrame::CommitBoundary, proj);
                            t.budget = ObservationReadBudget::Bounded { max_payload_bytes: b, max_witness_refs: req.aperture.budget.max_ticks.unwrap_or(u64::MAX) };
                            twin = Some((t, *cw));
                        }
                    }
                    OpticApertureShape::QueryBytes { .. } => {
                        app.insert("UnsupportedProjectionLaw".into());
                    }
                    _ => {
                        app.insert("UnsupportedAperture".into());
                    }
                }
            }
            _ => {
                app.insert("UnsupportedProjectionLaw".into());
            }
        }
        let mut twin_art: Option<ObservationArtifact> = None;
        if let Some((t, _cw)) = &twin {
            match ObservationService::observe(&rt.runtime, &rt.provenance, engine, t.clone()) {
                Ok(a) => twin_art = Some(a),
                Err(ObservationError::BudgetExceeded { .. }) => {
                    app.insert("BudgetExceeded".into());
                }
                Err(ObservationError::InvalidWorldline(_) | ObservationError::InvalidTick { .. } | ObservationError::ObservationUnavailable { .. }) => {
                    app.insert("MissingWitness".into());
                }
                Err(e) => {
                    out.machinery.push(format!("optic twin observe returned unexpected {e:?}"));
                }
            }
        }
        match &r1 {
            ObserveOpticResult::Reading(rd) => {
                out.o(format!("optic_reading:{}", payload_kind(&rd.payload)));
                if !app.is_empty() {
                    out.v(
                        format!("c16:optic:reading returned although {} applies", app.iter().next().unwrap()),
                        path,
                        json!({"request": format!("{req:?}")}),
                    );
                } else if let Some(a) = &twin_art {
                    if rd.payload != a.payload || rd.envelope != a.reading {
                        out.v("c16:optic:reading differs from the observation at the same coordinate".into(), path, json!({"request": format!("{req:?}")}));
                    }
                    if rd.read_identity.coordinate != req.coordinate || rd.read_identity.optic_id != req.optic_id {
                        out.v("c16:optic:read identity names a different question".into(), path, json!({"request": format!("{req:?}")}));
                    }
                    out.payloads.push((format!("optic:{}", payload_kind(&rd.payload)), fp_dbg(&rd.payload)));
                    // coordinate binding for explicit historical coordinates
                    if let (Some((t, cw)), Some(i)) = (&twin, twin.as_ref().and_then(|(_, cw)| infos.get(cw))) {
                        let _ = cw;
                        if let ObservationAt::Tick(tk) = t.coordinate.at {
                            let p = &i.prefix_fp[tk.as_u64() as usize];
                            out.bound.push((cache_key(p, "optic", &format!("{req:?}")), fp_dbg(&**rd), format!("{path} :: {req:?}")));
                            out.c("optic_tick_reads_recorded_for_binding", 1);
                        }
                    }
                } else {
                    out.machinery.push("optic reading without twin".into());
                }
            }
            ObserveOpticResult::Obstructed(ob) => {
                let k = kind_name(ob.kind);
                out.o(format!("optic_obstruction:{k}"));
                if !app.contains(&k) && !app.contains("ProvenanceCoordinateNamesNoRecordedCommit") {
                    out.v(
                        format!("c16:optic:unexpected obstruction {k}"),
                        path,
                        json!({"request": format!("{req:?}"), "applicable": app, "message": ob.message}),
                    );
                }
                if ob.optic_id != Some(req.optic_id) || ob.focus.as_ref() != Some(&req.focus) || ob.coordinate.as_ref() != Some(&req.coordinate) {
                    out.v("c16:optic:obstruction names a different question".into(), path, json!({"request": format!("{req:?}")}));
                }
            }
        }
    }
    if rt_fp(rt) != fp0 {
        out.v("c16:read-only:runtime/provenance Debug fingerprint changed by observe_optic".into(), path, json!({}));
    }
    if engine_fp(engine) != efp0 {
        out.v("c16:read-only:engine-observable state changed by observe_optic".into(), path, json!({}));
    }
    out.c("read_only_fingerprint_comparisons", 1);
}

// ---------------------------------------------------------------------------------------------
// Visiting a state
// ---------------------------------------------------------------------------------------------

fn visit(rt: &Rt, path: &[Op], with_optic: bool) -> Out {
    let mut out = Out::default();
    let ps = path_enc(path);
    let engine = read_engine();
    let mut infos = BTreeMap::new();
    for (id, _) in rt.runtime.worldlines().iter() {
        match wl_info(rt, *id) {
            Ok(i) => {
                infos.insert(*id, i);
            }
            Err(e) => {
                out.v("c16:replay:history recorded by the runtime cannot be replayed".into(), &ps, json!({"worldline": format!("{id:?}"), "error": e}));
            }
        }
    }
    // live frontier == replay at len (ties (4) to the live runtime)
    for i in infos.values() {
        if i.replayed[i.len as usize].state_root() != i.frontier_root {
            out.v("c16:replay:replayed frontier root differs from live frontier".into(), &ps, json!({"worldline": format!("{:?}", i.id)}));
        }
        if i.strand {
            out.c("states_with_strand_worldline", 1);
        }
    }
    observe_menu(&mut out, &ps, rt, &engine, &infos);
    if with_optic {
        optic_menu(&mut out, &ps, rt, &engine, &infos);
        optic_checkpoint_probe(&mut out, &ps, rt, &engine, &infos);
    }
    out
}

// ---------------------------------------------------------------------------------------------
// main
// ---------------------------------------------------------------------------------------------

struct Global {
    bound: HashMap<[u8; 32], ([u8; 32], String)>,
    bound_rechecks: u64,
    ident_by_content: HashMap<[u8; 32], [u8; 32]>,
    ident_by_hash: HashMap<[u8; 32], [u8; 32]>,
    payloads: BTreeMap<String, HashSet<[u8; 32]>>,
}

fn merge(r: &Report, g: &mut Global, o: Out, path: &str) {
    for (k, n) in &o.counters {
        r.counter(k, *n);
    }
    for (k, n) in &o.outcomes {
        r.outcome_n(k, *n);
    }
    r.eval(o.reads);
    r.nontrivial_many(o.nontrivial.iter().copied());
    for m in &o.machinery {
        r.machinery_error(m);
    }
    for (sig, d) in o.violations {
        r.violation(&sig, d);
    }
    for (k, v, what) in o.bound {
        match g.bound.get(&k) {
            None => {
                g.bound.insert(k, (v, what));
            }
            Some((v0, what0)) => {
                g.bound_rechecks += 1;
                if *v0 != v {
                    let cls = if what.contains("observe_optic") || what.contains("ObserveOpticRequest") {
                        "optic"
                    } else if what.contains("at: Frontier") {
                        "frontier"
                    } else {
                        "tick"
                    };
                    let proj = ["Head", "Snapshot", "TruthChannels", "Query"]
                        .iter()
                        .find(|p| what.contains(&format!("projection: {p}")) || what.contains(&format!("shape: {p}")))
                        .copied()
                        .unwrap_or("other");
                    r.violation(
                        &format!("c16:coordinate-binding:{cls} reading changed although the history prefix is identical:{proj}"),
                        json!({"case": {"history": path}, "first_seen": what0, "now": what}),
                    );
                }
            }
        }
    }
    for (c, h) in o.ident {
        if let Some(h0) = g.ident_by_content.insert(c, h) {
            if h0 != h {
                r.violation("c16:identity:same artifact content, different artifact hash", json!({"case": {"history": path}}));
            }
        }
        if let Some(c0) = g.ident_by_hash.insert(h, c) {
            if c0 != c {
                r.violation("c16:identity:different artifact content, same artifact hash", json!({"case": {"history": path}}));
            }
        }
    }
    for (k, p) in o.payloads {
        g.payloads.entry(k).or_default().insert(p);
    }
}

/// BFS from `seed` to `depth`; every discovered state that no earlier exploration visited gets
/// the full menus.  Traversal dedup is local to this exploration (so a seed inside an earlier
/// exploration's reach still unfolds to its own depth); `visited` is global.
fn explore(r: &Report, g: &mut Global, visited: &mut HashSet<[u8; 32]>, seed: &[Op], depth: usize, with_optic: bool, label: &str) {
    let Some(init) = build(seed) else {
        r.machinery_error(&format!("seed {label} could not be built"));
        return;
    };
    let mut local: HashSet<[u8; 32]> = HashSet::new();
    let mut states = 0u64;
    let mut transitions = 0u64;
    let k0 = rt_fp(&init);
    local.insert(k0);
    let mut frontier: Vec<(Rt, Vec<Op>, [u8; 32])> = vec![(init, seed.to_vec(), k0)];
    let mut level = 0usize;
    loop {
        if frontier.is_empty() {
            break;
        }
        if r.over_budget_frac(0.85) {
            r.cap_hit(&format!("{label}: stopped before visiting level {level} ({} states pending)", frontier.len()));
            break;
        }
        // visit the not-yet-visited states of this level in parallel (states are Send, not Sync:
        // move them in and out)
        let todo: Vec<(Rt, Vec<Op>, [u8; 32], bool)> = frontier
            .into_iter()
            .map(|(rt, p, k)| {
                let fresh = visited.insert(k);
                (rt, p, k, fresh)
            })
            .collect();
        let done: Vec<(Rt, Vec<Op>, Option<Out>)> = todo
            .into_par_iter()
            .map(|(rt, path, _k, fresh)| {
                if !fresh {
                    return (rt, path, None);
                }
                let o = match mc::catch(|| visit(&rt, &path, with_optic)) {
                    Ok(o) => o,
                    Err(msg) => {
                        let mut o = Out::default();
                        let head: String = msg.chars().take(60).collect();
                        o.v(format!("c16:panic while serving reads:{head}"), &path_enc(&path), json!({"panic": msg}));
                        o
                    }
                };
                (rt, path, Some(o))
            })
            .collect();
        let mut cur = Vec::new();
        for (rt, path, o) in done {
            if let Some(o) = o {
                states += 1;
                let ps = path_enc(&path);
                if o.violations.is_empty() && states % 97 == 1 {
                    r.sample(json!({"history": ps, "reads": o.reads,
                        "worldlines": rt.runtime.worldlines().iter().map(|(id, f)| format!("{}:{}", id.as_bytes()[0], f.frontier_tick().as_u64())).collect::<Vec<_>>()}));
                }
                merge(r, g, o, &ps);
                r.add_traces(1);
            }
            cur.push((rt, path));
        }
        if level == depth {
            break;
        }
        // expand sequentially in op order (deterministic)
        let mut next = Vec::new();
        for (rt, path) in &cur {
            for op in enabled(rt) {
                let Some(n) = step(rt, &op) else { continue };
                transitions += 1;
                let k = rt_fp(&n);
                if local.insert(k) {
                    let mut p = path.clone();
                    p.push(op);
                    next.push((n, p, k));
                }
            }
        }
        frontier = next;
        level += 1;
    }
    r.add_states(states);
    r.add_transitions(transitions);
    r.counter(&format!("states_{label}"), states);
}

fn main() {
    let r = Report::new("C16", Level::ModelChecking);
    mc::quiet_panics();
    r.rule(
        "states: BFS over {ingest(3 programs -> each worldline), scheduler pass (also idle), fork_strand(wl1@t -> child)} on the real \
         runtime, from the empty two-worldline runtime and from seeded strand states, dedup by Debug(runtime+provenance). In EVERY state: \
         worldline in {each known, unknown} x at in {Frontier, Tick(t) t<=len+1} x all 3 frames x 9 projections (valid and invalid pairs; \
         truth filters None/empty/{a}/{b,absent}; query ids registered/unregistered, two vars) + 8 request variants (4 budgets, capability \
         rights, authored plan, wrong builtin plan, hosted instance) on the canonical valid requests; optic menu = 6 aperture shapes x 6 \
         budgets x {Frontier, Tick, Provenance coordinates, mismatched/unsupported focus, attachment-boundary policies}. Every request is \
         issued twice. A case is non-trivial when it is a successful read at an explicit Tick coordinate.",
    );
    r.assume("recorded outputs are synthetic (hist::decorate re-records the runtime's real entries with outputs that are a function of commit_global_tick) because executors cannot emit in this tree");
    r.assume("resolved.observed_after_global_tick is a freshness watermark (function of the live global tick by contract) and the live parent-basis posture of a strand FRONTIER read is a function of current parent history (INV-S10): both are excluded from cross-state comparisons, and only those");
    r.assume("BFS states themselves store no replay checkpoints (a checkpoint is retention configuration, not history); the checkpoint dimension is probed in every state on provenance clones holding one checkpoint at each interior coordinate, and bound under (history prefix, checkpoint coordinate, request)");
    r.assume("engine state is fingerprinted through its public accessors (Engine is not Debug)");
    r.assume("read-only granularity: the full Debug fingerprint of runtime+provenance and the engine fingerprint are compared before/after every request group (all requests for one worldline; the whole optic menu); after EVERY single read a cheap probe (global tick, the runtime's interior-mutable scan counter, every frontier tick and provenance length) is compared");

    let mut g = Global {
        bound: HashMap::new(),
        bound_rechecks: 0,
        ident_by_content: HashMap::new(),
        ident_by_hash: HashMap::new(),
        payloads: BTreeMap::new(),
    };
    let mut seen = HashSet::new();

    if let Some(path) = r.replay.clone() {
        let v: Value = serde_json::from_str(&std::fs::read_to_string(&path).unwrap_or_default()).unwrap_or(Value::Null);
        let hs = v["detail"]["case"]["history"].as_str().unwrap_or("").to_string();
        let ops = ops_dec(&hs);
        // revisit every prefix so that coordinate-binding comparisons are reproduced
        for k in 0..=ops.len() {
            if let Some(rt) = build(&ops[..k]) {
                let o = visit(&rt, &ops[..k], true);
                println!("[C16] replay prefix '{}' : {} violation(s)", path_enc(&ops[..k]), o.violations.len());
                merge(&r, &mut g, o, &path_enc(&ops[..k]));
            }
        }
        r.add_states(ops.len() as u64 + 1);
        r.add_transitions(ops.len() as u64);
        r.add_traces(1);
        r.nontrivial(b"replay-a");
        r.nontrivial(b"replay-b");
        r.finish();
    }

    let depth = r.pick(4, 7);
    let seed_depth = r.pick(3, 4);
    explore(&r, &mut g, &mut seen, &[], depth, true, "from_empty");
    // seeded strand states: S1 = strand child forked at the parent's tip (posture AtAnchor);
    // S2 = S1 + a pending child intent (so that two more ops reach overlapping parent movement)
    let s1 = [Op::Ingest(1, 0), Op::Tick, Op::Ingest(1, 1), Op::Ingest(2, 0), Op::Tick, Op::Fork(1)];
    explore(&r, &mut g, &mut seen, &s1, seed_depth, true, "from_strand_seed");
    let mut s2 = s1.to_vec();
    s2.push(Op::Ingest(CHILD, 4));
    s2.push(Op::Ingest(1, 4));
    explore(&r, &mut g, &mut seen, &s2, seed_depth, true, "from_overlap_seed");
    // S3 = a single worldline with three committed ticks: two more ops make it four, so readings at
    // interior coordinates above an interior checkpoint (checkpoint c < coordinate t < tip) are taken
    // in a state AND in a descendant with a longer tail — the checkpoint-plus-tail witness of an
    // explicit coordinate must not follow the live tip
    let s3 = [Op::Ingest(1, 2), Op::Tick, Op::Ingest(1, 3), Op::Tick, Op::Ingest(1, 0), Op::Tick];
    explore(&r, &mut g, &mut seen, &s3, 2, true, "from_long_history_seed");

    r.counter("binding_cache_entries", g.bound.len() as u64);
    r.counter("binding_rechecks_in_other_states", g.bound_rechecks);
    r.counter("distinct_artifact_identities", g.ident_by_hash.len() as u64);
    for (k, s) in &g.payloads {
        r.counter(&format!("distinct_payloads_{k}"), s.len() as u64);
    }
    for k in ["Head", "Snapshot", "TruthChannels", "QueryBytes", "optic:Head", "optic:Snapshot"] {
        r.guard(&format!("at_least_2_distinct_readings_{k}"), g.payloads.get(k).map_or(0, |s| s.len()) >= 2);
    }
    let typed: Vec<&str> = ["InvalidWorldline", "InvalidTick", "UnsupportedFrameProjection", "UnsupportedQuery", "ObservationUnavailable", "BudgetExceeded", "UnsupportedObserverPlan", "UnsupportedObserverInstance", "UnsupportedRights"]
        .into_iter()
        .filter(|k| r.outcome_count(&format!("typed_error:{k}")) > 0)
        .collect();
    r.note("typed_error_kinds_seen", json!(typed));
    r.guard("typed_errors_of_at_least_2_kinds", typed.len() >= 2);
    r.guard("invalid_tick_and_invalid_worldline_seen", typed.contains(&"InvalidTick") && typed.contains(&"InvalidWorldline"));
    r.guard("optic_obstructions_of_at_least_2_kinds",
        ["MissingWitness", "BudgetExceeded", "UnsupportedAperture", "ConflictingFrontier", "UnsupportedProjectionLaw", "AttachmentDescentRequired"]
            .iter().filter(|k| r.outcome_count(&format!("optic_obstruction:{k}")) > 0).count() >= 2);
    r.guard("historical_reads_rechecked_in_descendant_states", g.bound_rechecks > 0);
    r.guard("tick_reads_recorded", r.counter_value("tick_reads_recorded_for_binding") > 0);
    r.guard("optic_tick_reads_recorded", r.counter_value("optic_tick_reads_recorded_for_binding") > 0);
    r.guard("strand_frontier_postures_of_at_least_3_kinds",
        ["StrandAtAnchor", "StrandParentAdvancedDisjoint", "StrandRevalidationRequired"].iter().filter(|k| r.outcome_count(&format!("strand_posture:{k}")) > 0).count() >= 3);
    r.guard("strand_historical_posture_seen", r.outcome_count("strand_posture:StrandHistorical") > 0);
    r.guard("strand_states_visited", r.counter_value("states_with_strand_worldline") > 0);
    r.guard("bounded_readings_within_budget_seen", r.counter_value("bounded_readings_within_budget") > 0);
    r.guard("nonempty_truth_channels_read", g.payloads.get("TruthChannels").map_or(0, |s| s.len()) >= 3);
    r.guard("optic_reads_above_a_checkpoint_bound", r.counter_value("checkpoint_probe_readings") > 0 && r.counter_value("optic_checkpoint_reads_recorded_for_binding") > 0);
    r.guard("interior_coordinate_above_interior_checkpoint_probed", r.counter_value("checkpoint_probe_interior_coordinate_above_interior_checkpoint") > 0);
    r.finish();
}
