//! Property check C16 (see /verif/DESIGN.md §4).
use mc::{Level, Report};

fn main() {
    let r = Report::new("C16", Level::Exploration);
    r.machinery_error("check not implemented yet");
    r.finish();
}
