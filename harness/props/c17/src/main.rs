//! Property check C17 — external actions move once through request, claim and settlement, durably.
//!
//! Explicit-state breadth-first search over operation histories of the real
//! `ExternalActionCoordinatorV1`, driven through its public API over an `InMemoryWalStore` that is
//! wrapped in a fault-injecting `WalStorePort` (`FaultStore`).  Grants are consumed by value, so a
//! state is its operation history and is rebuilt by re-execution.  Every committing transition is
//! additionally executed with a fault at every store call it makes (three fault modes) followed by
//! trusted local recovery.  The oracle is the boring reference lifecycle model `Model` below plus
//! the invariants of the property statement (see `World::check_state`).

mod fixtures;
mod fsprefix;
mod store;
mod worldx;

use mc::{json, Level, Report, Value};
use rayon::prelude::*;
use std::collections::{BTreeMap, HashMap, HashSet};
use warp_core::causal_wal::WalStorePort;

use fixtures::*;
use worldx::*;

/// Everything one executed transition reports back to the (sequential) merge step.
struct TransOut {
    key: [u8; 32],
    hist: Vec<Op>,
    out: StepOut,
    root: [u8; 32],
    content: String,
    /// number of mutating store calls the (fault-free) operation made
    store_calls: usize,
    committed: bool,
}

fn rebuild<'a>(fx: &'a Fx, hist: &[Op]) -> World<'a> {
    let mut w = World::new(fx);
    for o in hist {
        w.step(o);
    }
    w.record = true;
    w.heavy = true;
    w.out = StepOut::default();
    w
}

/// Execute `op` from the state reached by `hist`.  `slot` may hold a world already in exactly that
/// state (left there by a previous operation that changed nothing: same key, no commit, no fault);
/// otherwise the state is rebuilt by re-executing the history.  The world is put back into `slot`
/// only if this operation, too, changed nothing.
fn run_transition<'a>(fx: &'a Fx, hist: &[Op], op: &Op, slot: &mut Option<World<'a>>) -> TransOut {
    let mut w = match slot.take() {
        Some(w) => w,
        None => rebuild(fx, hist),
    };
    let key_before = w.key();
    let frames_before = w.store.inner.read_frames().len();
    w.step(op);
    let mut h2 = hist.to_vec();
    h2.push(op.clone());
    let out = std::mem::take(&mut w.out);
    let t = TransOut {
        key: w.key(),
        hist: h2,
        root: w.coord.observed_index().root_digest(),
        content: format!("{:?}", w.model.life),
        store_calls: w.last_store_calls,
        committed: w.last_committed,
        out,
    };
    let unchanged = t.key == key_before
        && !t.committed
        && t.out.viol.is_empty()
        && w.store.inner.read_frames().len() == frames_before
        && !matches!(op, Op::Fault(..) | Op::CrashRecover);
    if unchanged {
        w.hist.pop();
        *slot = Some(w);
    }
    t
}

/// Distinct full signatures forwarded per invariant family (text before the first ':'); later
/// contexts of the same family are pooled so that every family stays visible in the printed list.
static FAMILIES: std::sync::Mutex<BTreeMap<String, Vec<String>>> = std::sync::Mutex::new(BTreeMap::new());

fn merge_out(r: &Report, out: &StepOut, hist: &[Op]) {
    for (k, n) in &out.outcomes {
        r.outcome_n(k, *n);
    }
    for (k, n) in &out.counters {
        r.counter(k, *n);
    }
    r.nontrivial_many(out.nontrivial.iter().copied());
    // One violation per executed step: the first one recorded is the primary (checks run in causal
    // order: outcome of the call, then what it left behind); the others are its consequences and
    // travel in the detail, so a different defect keeps a different signature.
    let mut it = out.viol.iter();
    let Some((sig, extra)) = it.next() else {
        return;
    };
    let consequences: Vec<&String> = it.map(|(s, _)| s).collect();
    if sig.starts_with("MACHINERY:") {
        r.machinery_error(&format!("{sig} history={:?} {extra}", hist.iter().map(|o| o.enc()).collect::<Vec<_>>()));
        return;
    }
    let family = sig.split(':').next().unwrap_or("").to_string();
    let sig2 = {
        let mut g = FAMILIES.lock().unwrap();
        let v = g.entry(family.clone()).or_default();
        if v.iter().any(|x| x == sig) {
            sig.clone()
        } else if v.len() < 3 {
            v.push(sig.clone());
            sig.clone()
        } else {
            format!("{family}:(further contexts)")
        }
    };
    r.violation(
        &sig2,
        json!({"case": {"history": hist.iter().map(|o| o.enc()).collect::<Vec<_>>()}, "what": extra, "full_signature": sig,
               "consequences_in_the_same_step": consequences}),
    );
}

fn explore(r: &Report, fx: &Fx, phase: &str, menu: &[Op], max_depth: usize, cap_frac: f64) -> bool {
    let mut seen: HashSet<[u8; 32]> = HashSet::new();
    let mut root_to_content: HashMap<[u8; 32], String> = HashMap::new();
    let mut content_to_root: HashMap<String, [u8; 32]> = HashMap::new();
    let w0 = World::new(fx);
    seen.insert(w0.key());
    root_to_content.insert(w0.coord.observed_index().root_digest(), format!("{:?}", w0.model.life));
    content_to_root.insert(format!("{:?}", w0.model.life), w0.coord.observed_index().root_digest());
    let mut states = 1u64;
    let mut transitions = 0u64;
    let mut per_depth = vec![1u64];
    let mut frontier: Vec<Vec<Op>> = vec![Vec::new()];
    let mut sampled = 0usize;
    let mut completed_depth = 0usize;
    for depth in 0..max_depth {
        if frontier.is_empty() {
            break;
        }
        if r.over_budget_frac(cap_frac * 0.9) {
            r.cap_hit(&format!("BFS[{phase}] stopped before depth {} (completed depth {})", depth + 1, completed_depth));
            break;
        }
        // determinism self-check on a sample of the frontier: rebuild twice, compare everything
        for (i, hist) in frontier.iter().enumerate() {
            if i % 16 == 0 {
                let mut a = World::new(fx);
                let mut b = World::new(fx);
                for o in hist {
                    a.step(o);
                    b.step(o);
                }
                let same = a.key() == b.key()
                    && a.coord == b.coord
                    && a.store.snapshot_pair() == b.store.snapshot_pair()
                    && a.pool_fp() == b.pool_fp();
                r.counter("determinism_rebuilds_compared", 1);
                if !same {
                    r.machinery_error(&format!(
                        "rebuild of history {:?} is not deterministic",
                        hist.iter().map(|o| o.enc()).collect::<Vec<_>>()
                    ));
                }
            }
        }
        let expanded: Vec<Vec<TransOut>> = frontier
            .par_iter()
            .map(|hist| {
                let mut outs = Vec::new();
                if r.over_budget_frac(cap_frac) {
                    return outs;
                }
                let mut slot: Option<World> = None;
                // symmetry: while no request has been recorded the two request ids are interchangeable
                // (the fixtures differ only in their labels), so the first recorded request is r0 w.l.o.g.
                let nothing_recorded = !hist.iter().any(|o| matches!(o, Op::Request(_)) || matches!(o, Op::Fault(i, _, _) if matches!(**i, Op::Request(_))));
                for op in menu.iter().cloned() {
                    if nothing_recorded && op == Op::Request(1) {
                        continue;
                    }
                    let t = run_transition(fx, hist, &op, &mut slot);
                    let calls = t.store_calls;
                    let committed = t.committed;
                    outs.push(t);
                    if committed && op.is_lifecycle() && outs.last().map_or(false, |t: &TransOut| t.out.viol.is_empty()) {
                        for k in 0..calls {
                            for mode in [Mode::Fail, Mode::Crash, Mode::AckLost] {
                                let f = Op::Fault(Box::new(op.clone()), k as u8, mode);
                                let mut none = None;
                                outs.push(run_transition(fx, hist, &f, &mut none));
                            }
                        }
                    }
                }
                outs
            })
            .collect();
        if r.over_budget_frac(cap_frac) {
            r.cap_hit(&format!("BFS[{phase}] depth {} expansion was cut by the wall cap (completed depth {})", depth + 1, completed_depth));
            break;
        }
        let mut next = Vec::new();
        for outs in expanded {
            for t in outs {
                transitions += 1;
                merge_out(r, &t.out, &t.hist);
                if sampled < 8 && (t.committed || matches!(t.hist.last(), Some(Op::Fault(..)))) && t.hist.len() >= 3 {
                    sampled += 1;
                    r.sample(json!({"history": t.hist.iter().map(|o| o.enc()).collect::<Vec<_>>(),
                        "lifecycle_after": t.content, "index_root": mc::hex(&t.root[..8]),
                        "store_calls_of_last_op": t.store_calls}));
                }
                if !t.out.viol.is_empty() {
                    continue; // do not expand (or compare roots) beyond a violating step
                }
                // root digest is a function of (and only of) the lifecycle content
                match root_to_content.get(&t.root) {
                    Some(c) if *c != t.content => r.violation(
                        "index-root-collision:two lifecycle contents share one root digest",
                        json!({"case": {"history": t.hist.iter().map(|o| o.enc()).collect::<Vec<_>>()}, "a": c, "b": t.content}),
                    ),
                    Some(_) => {}
                    None => {
                        root_to_content.insert(t.root, t.content.clone());
                    }
                }
                match content_to_root.get(&t.content) {
                    Some(x) if *x != t.root => r.violation(
                        "index-root-path-dependent:same lifecycle content, different root digest",
                        json!({"case": {"history": t.hist.iter().map(|o| o.enc()).collect::<Vec<_>>()}, "content": t.content}),
                    ),
                    Some(_) => {}
                    None => {
                        content_to_root.insert(t.content.clone(), t.root);
                    }
                }
                if !t.out.viol.is_empty() {
                    continue; // do not expand beyond a violating state
                }
                if seen.insert(t.key) {
                    states += 1;
                    next.push(t.hist);
                }
            }
        }
        completed_depth = depth + 1;
        per_depth.push(next.len() as u64);
        frontier = next;
    }
    r.add_states(states);
    r.add_transitions(transitions);
    r.add_traces(transitions);
    r.eval(transitions);
    r.note(&format!("bfs_{phase}"), json!({"menu_size": menu.len(), "max_depth": max_depth, "completed_depth": completed_depth,
        "states": states, "transitions": transitions, "new_states_per_depth": per_depth, "distinct_index_roots": root_to_content.len(),
        "closed_under_the_alphabet": frontier.is_empty()}));
    frontier.is_empty()
}

fn replay(r: &Report, fx: &Fx, path: &std::path::Path) {
    let txt = match std::fs::read_to_string(path) {
        Ok(t) => t,
        Err(e) => {
            r.machinery_error(&format!("cannot read replay file: {e}"));
            return;
        }
    };
    let v: Value = serde_json::from_str(&txt).unwrap_or(Value::Null);
    let hist = v
        .pointer("/detail/case/history")
        .or_else(|| v.pointer("/case/history"))
        .and_then(|h| h.as_array())
        .cloned()
        .unwrap_or_default();
    let mut ops = Vec::new();
    for s in &hist {
        match s.as_str().and_then(Op::dec) {
            Some(o) => ops.push(o),
            None => {
                r.machinery_error(&format!("cannot parse op {s}"));
                return;
            }
        }
    }
    let mut w = World::new(fx);
    w.record = true;
    w.heavy = true;
    for o in &ops {
        w.step(o);
        println!("[C17 replay] after {:<40} lifecycle={:?} commits={}", o.enc(), w.model.life, w.store.inner.commit_count());
    }
    merge_out(r, &w.out, &ops);
    r.add_states(ops.len() as u64 + 1);
    r.add_transitions(ops.len() as u64);
    r.add_traces(1);
    r.eval(ops.len() as u64);
    r.nontrivial(b"replay");
    r.nontrivial(b"replay2");
    r.sample(json!({"replayed": hist}));
}

fn main() {
    let r = Report::new("C17", Level::ModelChecking);
    let fx = Fx::new();
    r.rule("BFS over operation histories (state = history, rebuilt by re-execution on the real ExternalActionCoordinatorV1 + FaultStore(InMemoryWalStore)); \
            alphabet: request(r), claim(r, 8 argument classes), settle(r, 4 kinds x 5 argument classes), retry(r, 3 classes), observe, crash-recover, \
            and for every committing transition a fault (fail | crash | ack-lost) at every store call it makes followed by recovery; 2 request ids; \
            dedup key = (index root, per-request posture, held tokens/grants, commit count). distinct_nontrivial counts distinct (operation class, \
            lifecycle stage of the request, observed outcome) triples in which a store transaction was committed, refused with a typed error, or interrupted by a fault.");
    r.assume("InMemoryWalStore is the durable medium; a crash loses the coordinator and every held token but never persisted frames/commit markers; \
              fault model = a store call fails without persisting (process survives), or the process dies at the call (not persisted), or the call persists and the \
              acknowledgement is lost (process dies); partial persistence of a single store call is covered only by the thorough filesystem byte-prefix pass.");
    r.assume("ordinary WAL recovery of an uncommitted tail = recover_in_memory_store(Writable) (tail truncation), as documented in ADR 0026; \
              BLAKE3 collisions are not modelled; request universe = 2 ids, settlement byte budget 16 (ceiling pass: 1 id, budget = the 1 MiB v1 ceiling).");
    r.assume("symmetry reduction: while no request has been recorded the two request ids are interchangeable (fixtures differ only in labels), \
              so the first recorded request is r0 w.l.o.g.; every later choice is explored for both ids.");
    if let Some(p) = r.replay.clone() {
        replay(&r, &fx, &p);
        r.finish();
    }
    let depth = std::env::var("C17_DEPTH")
        .ok()
        .and_then(|s| s.parse().ok())
        .unwrap_or(r.pick(6usize, 16usize));
    // ceiling pass: the request's declared bound IS the v1 ceiling (1 MiB) and the valid result is
    // exactly that long, so live admission, durable encoding and the recovery decoder all meet the
    // boundary value; every committing step again with a fault at every store call + recovery
    {
        set_budget(warp_core::external_action::MAX_EXTERNAL_ACTION_SETTLEMENT_BYTES_V1);
        let fx_big = Fx::new();
        explore(&r, &fx_big, "ceiling", &ceiling_menu(), 5, if r.quick() { 0.3 } else { 0.15 });
        r.counter("ceiling_pass_budget_bytes", budget());
        set_budget(BUDGET);
    }
    if r.quick() {
        explore(&r, &fx, "full", &plain_menu(), depth, 0.8);
    } else {
        // full alphabet until no new state appears (closure of the reachable space under the dedup key)
        // or the depth / wall bound; if it did not close, a core alphabet is pushed deeper
        let closed = explore(&r, &fx, "full", &plain_menu(), depth, 0.50);
        if !closed {
            explore(&r, &fx, "core", &core_menu(), depth + 2, 0.75);
        }
        fsprefix::run(&r, &fx);
    }

    // ---- vacuity guards ----
    let oc = |k: &str| r.outcome_count(k);
    let cv = |k: &str| r.counter_value(k);
    for kind in ["request", "claim", "settle"] {
        r.guard(&format!("op_{kind}_committed"), oc(&format!("{kind}:committed")) > 0);
    }
    for a in ClaimArg::ALL {
        r.guard(&format!("claim_arg_{a:?}_executed"), cv(&format!("exec:claim:{a:?}")) > 0);
    }
    for a in SettleArg::ALL {
        for k in 1u8..=4 {
            r.guard(&format!("settle_kind{k}_{a:?}_executed"), cv(&format!("exec:settle:k{k}:{a:?}")) > 0);
        }
    }
    for k in 1u8..=4 {
        r.guard(&format!("settle_kind{k}_admitted"), cv(&format!("settled_kind:{k}")) > 0);
    }
    for a in RetryArg::ALL {
        r.guard(&format!("retry_{a:?}_executed"), cv(&format!("exec:retry:{a:?}")) > 0);
    }
    r.guard("retry_answered_from_retained_bytes", oc("retry:answered-from-retained") > 0);
    r.guard("retry_conflict_seen", oc("retry:refused:ConflictingSettlement") > 0);
    r.guard("observe_executed", cv("exec:observe") > 0);
    let typed: Vec<String> = {
        // distinct typed refusal kinds
        let mut s = std::collections::BTreeSet::new();
        for k in [
            "DuplicateRequest", "DuplicateClaim", "DuplicateSettlement", "UnauthorizedAdapter", "AuthorizationBindingMismatch",
            "StaleBasis", "MissingLeaseEvidence", "AttemptBudgetExhausted", "SettlementClaimMismatch", "SettlementBudgetExceeded",
            "SettlementSchemaMismatch", "SettlementResultDigestMismatch", "ConflictingSettlement", "MissingRequest", "MissingClaim",
            "MissingSettlement", "CoordinatorRecoveryRequired", "WalTailNotClean",
        ] {
            if cv(&format!("typed_refusal:{k}")) > 0 {
                s.insert(k.to_string());
            }
        }
        s.into_iter().collect()
    };
    r.note("typed_refusal_kinds_seen", json!(typed));
    r.guard("at_least_3_typed_refusal_kinds", typed.len() >= 3);
    for k in ["SettlementClaimMismatch", "SettlementBudgetExceeded", "SettlementSchemaMismatch", "StaleBasis", "UnauthorizedAdapter", "DuplicateClaim", "CoordinatorRecoveryRequired", "WalTailNotClean"] {
        r.guard(&format!("typed_refusal_{k}_seen"), cv(&format!("typed_refusal:{k}")) > 0);
    }
    for stage in ["Absent", "Requested", "Claimed", "Settled"] {
        r.guard(&format!("crash_recover_at_{stage}"), cv(&format!("crash_recover_at:{stage}")) > 0);
    }
    for kind in ["request", "claim", "settle"] {
        for k in 0..2 {
            for mode in ["Fail", "Crash", "AckLost"] {
                r.guard(&format!("fault_{kind}_call{k}_{mode}"), cv(&format!("fault:{kind}:call{k}:{mode}")) > 0);
            }
        }
    }
    r.guard("store_calls_per_transition_measured", cv("store_calls_per_commit:2") > 0);
    r.guard("grant_rederived_after_lost_ack", cv("grant_rederived_after_lost_ack") > 0);
    r.guard("request_token_rederived_after_lost_ack", cv("request_token_rederived_after_lost_ack") > 0);
    r.guard("receipt_rederived_after_lost_ack", cv("receipt_rederived_after_lost_ack") > 0);
    r.guard("uninterrupted_projection_compared", cv("uninterrupted_projection_compared") > 0);
    r.guard("poisoned_coordinator_probed", cv("poisoned_probe_refused") > 0);
    r.guard("stale_grant_resubmitted_after_settlement", cv("settle_with_stale_grant_after_settlement") > 0);
    r.guard("stale_token_reclaimed_after_claim", cv("claim_with_stale_token_after_claim") > 0);
    r.guard("uncommitted_tail_seen_by_recover", cv("recover_saw_uncommitted_tail") > 0);
    let _ = BTreeMap::<u8, u8>::new();
    r.finish();
}
