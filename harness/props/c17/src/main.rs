//! Property check C17 (see /verif/DESIGN.md §4).
use mc::{Level, Report};

fn main() {
    let r = Report::new("C17", Level::Exploration);
    r.machinery_error("check not implemented yet");
    r.finish();
}
