//! Thorough-only second pass: the same lifecycle over the real `FilesystemWalStore`, with a crash
//! at every byte prefix of the segment file inside every operation (plus both versions of the
//! writer-epoch ledger at the full length), followed by filesystem WAL recovery, trusted
//! coordinator recovery, comparison with the uninterrupted run, and completion of the script.

use mc::{json, Report};
use std::path::{Path, PathBuf};

use warp_core::causal_wal::{
    canonical_segment_path, recover_filesystem_store, FilesystemWalStore, Lsn, RecoveryAccessMode,
    WalDurabilityMode, WalSegmentId, WalStorePort, WriterEpochId,
};
use warp_core::external_action::{
    admit_external_action_settlement, claim_external_action, observe_external_actions,
    record_external_action_request, ExternalActionCoordinatorV1, ExternalActionProtocolErrorV1,
    ExternalActionSettlementCandidateV1, RecoveredExternalActionIndexV1,
};

use crate::fixtures::*;

fn seg() -> WalSegmentId {
    WalSegmentId::from_raw(1)
}

/// Execute one *lawful* lifecycle op on a filesystem store (tokens re-derived from the coordinator).
fn fs_exec(
    store: &mut FilesystemWalStore,
    coord: &mut ExternalActionCoordinatorV1,
    fx: &Fx,
    op: &Op,
    epoch: WriterEpochId,
) -> Result<(), String> {
    let n = store.read_commits().len();
    let ctx = context(&format!("fs:{n}:{}", op.enc()), WalDurabilityMode::StrictFilesystem, epoch);
    match op {
        Op::Request(r) => record_external_action_request(store, coord, ctx, fx.reqs[*r as usize])
            .map(|_| ())
            .map_err(|e| format!("{e:?}")),
        Op::Claim(r, a) => {
            let req = fx.reqs[*r as usize];
            let tok = coord.recorded_request(req.request_id()).map_err(|e| format!("{e:?}"))?;
            let (adapter, lease) = if *a == ClaimArg::OkB { (fx.adapter_b, dg("lease:B")) } else { (fx.adapter_a, dg("lease:A")) };
            let auth = fx.registry.authorize(&req, adapter).map_err(|e| format!("{e:?}"))?;
            claim_external_action(store, coord, ctx, tok, auth, req.basis_digest, 0, lease)
                .map(|_| ())
                .map_err(|e| format!("{e:?}"))
        }
        Op::Settle(r, k, _) => {
            let req = fx.reqs[*r as usize];
            let g = coord.claim_grant(req.request_id()).map_err(|e| format!("{e:?}"))?;
            let c = g.claim();
            let cand = ExternalActionSettlementCandidateV1::new(
                req.request_id(),
                c.attempt_id,
                c.adapter_id,
                kind_of(*k),
                req.settlement_schema_digest,
                req.basis_digest,
                ok_bytes(*r, *k),
                dg("c17:schema-admission-evidence"),
                dg("c17:external-evidence"),
            );
            admit_external_action_settlement(store, coord, ctx, g, cand)
                .map(|_| ())
                .map_err(|e| format!("{e:?}"))
        }
        _ => Err("unsupported op in filesystem script".into()),
    }
}

fn tokens_fp(coord: &ExternalActionCoordinatorV1, fx: &Fx) -> String {
    let mut s = String::new();
    for r in 0..2 {
        let rid = fx.reqs[r].request_id();
        s.push_str(&format!(
            "{:?}|{:?}|{:?}|",
            coord.recorded_request(rid),
            coord.claim_grant(rid),
            coord.admitted_settlement(rid)
        ));
    }
    s
}

fn write_dir(dir: &Path, segment: &[u8], ledger: &[u8]) -> std::io::Result<()> {
    let _ = std::fs::remove_dir_all(dir);
    let segp = canonical_segment_path(dir, seg());
    std::fs::create_dir_all(segp.parent().unwrap_or(dir))?;
    std::fs::write(&segp, segment)?;
    std::fs::write(dir.join("writer-epochs.ecwal"), ledger)?;
    Ok(())
}

struct StepRec {
    before_len: usize,
    after_len: usize,
    ledger_before: Vec<u8>,
    ledger_after: Vec<u8>,
    index_after: RecoveredExternalActionIndexV1,
    tokens_after: String,
}

fn run_script(r: &Report, fx: &Fx, sidx: usize, script: &[Op], base: &Path) {
    let enc: Vec<String> = script.iter().map(|o| o.enc()).collect();
    let live = base.join(format!("live-{sidx}"));
    let _ = std::fs::remove_dir_all(&live);
    let mut store = match FilesystemWalStore::open(&live, seg()) {
        Ok(s) => s,
        Err(e) => {
            r.machinery_error(&format!("fs open: {e:?}"));
            return;
        }
    };
    if let Err(e) = store.acquire_writer_epoch(epoch_request()) {
        r.machinery_error(&format!("fs epoch: {e:?}"));
        return;
    }
    let mut coord = match ExternalActionCoordinatorV1::recover(&store) {
        Ok(c) => c,
        Err(e) => {
            r.machinery_error(&format!("fs genesis recover: {e:?}"));
            return;
        }
    };
    let segp = canonical_segment_path(&live, seg());
    let ledp = live.join("writer-epochs.ecwal");
    let index0 = coord.observed_index().clone();
    let tokens0 = tokens_fp(&coord, fx);
    let mut recs: Vec<StepRec> = Vec::new();
    for op in script {
        let before_len = std::fs::read(&segp).map(|b| b.len()).unwrap_or(0);
        let ledger_before = std::fs::read(&ledp).unwrap_or_default();
        if let Err(e) = fs_exec(&mut store, &mut coord, fx, op, epoch_id()) {
            r.violation(
                &format!("fs:lawful-step-refused:{}", op.class()),
                json!({"case": {"fs_script": enc}, "error": e}),
            );
            return;
        }
        match ExternalActionCoordinatorV1::recover(&store) {
            Ok(rec) if rec == coord => {}
            other => r.violation(
                &format!("fs:recovered-coordinator-differs-from-live:after:{}", op.class()),
                json!({"case": {"fs_script": enc}, "recovered_ok": other.is_ok()}),
            ),
        }
        recs.push(StepRec {
            before_len,
            after_len: std::fs::read(&segp).map(|b| b.len()).unwrap_or(0),
            ledger_before,
            ledger_after: std::fs::read(&ledp).unwrap_or_default(),
            index_after: coord.observed_index().clone(),
            tokens_after: tokens_fp(&coord, fx),
        });
        r.add_transitions(1);
    }
    let final_root = coord.observed_index().root_digest();
    let segment = std::fs::read(&segp).unwrap_or_default();
    drop(store);

    let scratch = base.join(format!("crash-{sidx}"));
    for (i, rec) in recs.iter().enumerate() {
        let (pre_index, pre_tokens) = if i == 0 { (&index0, &tokens0) } else { (&recs[i - 1].index_after, &recs[i - 1].tokens_after) };
        let mut seen_post = false;
        for len in rec.before_len..=rec.after_len {
            if r.over_budget_frac(0.95) {
                r.cap_hit("filesystem byte-prefix pass cut by the wall cap");
                return;
            }
            let ledgers: Vec<&Vec<u8>> = if len == rec.after_len { vec![&rec.ledger_before, &rec.ledger_after] } else { vec![&rec.ledger_before] };
            for (li, ledger) in ledgers.into_iter().enumerate() {
                let sig_ctx = format!("{}@byte{}", script[i].class(), if len == rec.before_len { "first" } else if len == rec.after_len { "last" } else { "inner" });
                let case = json!({"fs_script": enc, "op_index": i, "segment_prefix_len": len, "ledger": if li == 0 { "before" } else { "after" }});
                if write_dir(&scratch, &segment[..len], ledger).is_err() {
                    r.machinery_error("cannot write crash directory");
                    return;
                }
                r.eval(1);
                r.counter("fs_crash_points", 1);
                if len > rec.before_len && len < rec.after_len {
                    r.nontrivial(format!("fs|{sidx}|{i}|{len}").as_bytes());
                }
                // (1) observation-only scan of the torn directory
                let observed = match recover_filesystem_store(&scratch, RecoveryAccessMode::ReadOnly) {
                    Ok(rep) => match observe_external_actions(&rep) {
                        Ok(idx) => idx,
                        Err(e) => {
                            r.violation(&format!("fs:observation-fails-on-crash-prefix:{sig_ctx}"), json!({"case": case, "error": format!("{e:?}")}));
                            continue;
                        }
                    },
                    Err(e) => {
                        r.violation(&format!("fs:wal-scan-fails-on-crash-prefix:{sig_ctx}"), json!({"case": case, "error": format!("{e:?}")}));
                        continue;
                    }
                };
                let is_post = observed == rec.index_after;
                let is_pre = observed == *pre_index;
                if !is_post && !is_pre {
                    r.violation(&format!("fs:recovered-index-is-neither-pre-nor-post-state:{sig_ctx}"), json!({"case": case}));
                    continue;
                }
                if seen_post && !is_post {
                    r.violation(&format!("fs:longer-prefix-loses-a-committed-step:{sig_ctx}"), json!({"case": case}));
                }
                if len == rec.after_len && !is_post {
                    r.violation(&format!("fs:acknowledged-step-lost:{sig_ctx}"), json!({"case": case}));
                }
                if len == rec.before_len && !is_pre {
                    r.violation(&format!("fs:step-visible-before-any-byte-written:{sig_ctx}"), json!({"case": case}));
                }
                seen_post |= is_post;
                r.outcome(if is_post { "fs:crash-point-recovers-post-state" } else { "fs:crash-point-recovers-pre-state" });
                // (2) trusted recovery: a torn tail is refused, then truncated by WAL recovery
                let first = FilesystemWalStore::open(&scratch, seg()).map_err(|e| format!("{e:?}")).and_then(|s| {
                    ExternalActionCoordinatorV1::recover(&s).map_err(|e| match e {
                        ExternalActionProtocolErrorV1::WalTailNotClean => "WalTailNotClean".to_string(),
                        e => format!("other:{e:?}"),
                    })
                });
                match &first {
                    Ok(_) => r.outcome("fs:recover-direct-ok"),
                    Err(e) if e == "WalTailNotClean" => r.outcome("fs:recover-refuses-uncommitted-tail"),
                    Err(_) => r.outcome("fs:recover-direct-error"),
                }
                if let Err(e) = recover_filesystem_store(&scratch, RecoveryAccessMode::Writable) {
                    r.violation(&format!("fs:writable-wal-recovery-fails:{sig_ctx}"), json!({"case": case, "error": format!("{e:?}")}));
                    continue;
                }
                let mut st = match FilesystemWalStore::open(&scratch, seg()) {
                    Ok(s) => s,
                    Err(e) => {
                        r.violation(&format!("fs:reopen-after-recovery-fails:{sig_ctx}"), json!({"case": case, "error": format!("{e:?}")}));
                        continue;
                    }
                };
                let mut c = match ExternalActionCoordinatorV1::recover(&st) {
                    Ok(c) => c,
                    Err(e) => {
                        r.violation(&format!("fs:coordinator-recovery-fails-after-wal-recovery:{sig_ctx}"), json!({"case": case, "error": format!("{e:?}")}));
                        continue;
                    }
                };
                let (want_index, want_tokens) = if is_post { (&rec.index_after, &rec.tokens_after) } else { (pre_index, pre_tokens) };
                if c.observed_index() != want_index {
                    r.violation(&format!("fs:recovered-index-differs-from-uninterrupted-run:{sig_ctx}"), json!({"case": case}));
                }
                if tokens_fp(&c, fx) != *want_tokens {
                    r.violation(&format!("fs:rederived-grants-differ-from-uninterrupted-run:{sig_ctx}"), json!({"case": case}));
                }
                // (3) finish the script from the recovered state: nothing repeated, nothing lost
                let epoch = match st.acquire_fresh_writer_epoch(Lsn::from_raw(0)) {
                    Ok(e) => e.epoch_id,
                    Err(e) => {
                        r.violation(&format!("fs:fresh-writer-epoch-refused-after-recovery:{sig_ctx}"), json!({"case": case, "error": format!("{e:?}")}));
                        continue;
                    }
                };
                let from = if is_post { i + 1 } else { i };
                let mut ok = true;
                for op in &script[from..] {
                    if let Err(e) = fs_exec(&mut st, &mut c, fx, op, epoch) {
                        r.violation(&format!("fs:script-cannot-continue-after-recovery:{}:{sig_ctx}", op.class()), json!({"case": case, "error": e}));
                        ok = false;
                        break;
                    }
                }
                if ok {
                    let commits = st.read_commits().len();
                    if c.observed_index().root_digest() != final_root || commits != script.len() {
                        r.violation(
                            &format!("fs:completed-run-differs-from-uninterrupted-run:{sig_ctx}"),
                            json!({"case": case, "commits": commits, "want_commits": script.len()}),
                        );
                    }
                    match ExternalActionCoordinatorV1::recover(&st) {
                        Ok(rec2) if rec2 == c => {}
                        _ => r.violation(&format!("fs:recovered-coordinator-differs-from-live-after-completion:{sig_ctx}"), json!({"case": case})),
                    }
                    r.add_traces(1);
                }
            }
        }
    }
    let _ = std::fs::remove_dir_all(&scratch);
    let _ = std::fs::remove_dir_all(&live);
}

pub fn run(r: &Report, fx: &Fx) {
    let base: PathBuf = mc::scratch_root().join("c17-fs");
    let _ = std::fs::create_dir_all(&base);
    use ClaimArg::{OkA, OkB};
    let ok = SettleArg::Ok;
    let scripts: Vec<Vec<Op>> = vec![
        vec![Op::Request(0), Op::Claim(0, OkA), Op::Settle(0, 1, ok)],
        vec![Op::Request(0), Op::Request(1), Op::Claim(1, OkB), Op::Claim(0, OkA), Op::Settle(1, 4, ok), Op::Settle(0, 2, ok)],
        vec![Op::Request(1), Op::Claim(1, OkA), Op::Request(0), Op::Settle(1, 3, ok), Op::Claim(0, OkB)],
    ];
    for (i, s) in scripts.iter().enumerate() {
        run_script(r, fx, i, s, &base);
    }
    r.guard("fs_crash_points_enumerated", r.counter_value("fs_crash_points") > 1000);
    r.guard("fs_pre_and_post_states_recovered", r.outcome_count("fs:crash-point-recovers-pre-state") > 0 && r.outcome_count("fs:crash-point-recovers-post-state") > 0);
    r.guard("fs_uncommitted_tail_refused", r.outcome_count("fs:recover-refuses-uncommitted-tail") > 0);
}
