//! Fault-injecting implementation of the public `WalStorePort` trait, delegating to the real
//! `InMemoryWalStore`.  Mutating store calls (frame appends, commit flushes) are numbered per
//! operation; a plan `(k, mode)` makes the k-th one fail, crash, or persist-then-lose-the-ack.

use warp_core::causal_wal::{
    ExternalActionCoordinatorCapability, InMemoryWalStore, Lsn, WalFrame, WalManifest,
    WalSegmentId, WalSegmentSeal, WalStoreError, WalStorePort, WalStoreSnapshot,
    WalTransactionCommit, WriterEpoch, WriterEpochId, WriterEpochRequest,
};

use crate::fixtures::Mode;

#[derive(Clone, Copy, Debug, PartialEq, Eq)]
pub enum CallKind {
    Append,
    Flush,
}

#[derive(Clone, Copy, Debug, PartialEq, Eq)]
pub struct CallRec {
    pub kind: CallKind,
    /// the call reached the inner store and the inner store accepted it
    pub persisted: bool,
    /// the caller saw Ok
    pub acked: bool,
}

#[derive(Clone, Debug)]
pub struct FaultStore {
    pub inner: InMemoryWalStore,
    plan: Option<(usize, Mode)>,
    pub fired: bool,
    /// the simulated process is dead: nothing is persisted until `reboot`
    crashed: bool,
    pub log: Vec<CallRec>,
    /// frames persisted since the last persisted commit marker (an uncommitted tail)
    pub dangling_frames: usize,
    pub fail_reads: bool,
    pub snapshot_reads: usize,
}

fn io(msg: &str) -> WalStoreError {
    WalStoreError::Io(format!("c17 injected: {msg}"))
}

impl FaultStore {
    pub fn new() -> FaultStore {
        let mut inner = InMemoryWalStore::new();
        inner
            .acquire_writer_epoch(crate::fixtures::epoch_request())
            .expect("epoch");
        FaultStore {
            inner,
            plan: None,
            fired: false,
            crashed: false,
            log: Vec::new(),
            dangling_frames: 0,
            fail_reads: false,
            snapshot_reads: 0,
        }
    }
    pub fn begin_op(&mut self, plan: Option<(usize, Mode)>) {
        self.plan = plan;
        self.fired = false;
        self.log.clear();
    }
    pub fn end_op(&mut self) -> Vec<CallRec> {
        self.plan = None;
        std::mem::take(&mut self.log)
    }
    pub fn is_crashed(&self) -> bool {
        self.crashed
    }
    /// The machine restarts: the medium keeps what was persisted, the fault is gone.
    pub fn reboot(&mut self) {
        self.crashed = false;
        self.plan = None;
    }
    pub fn snapshot_pair(&self) -> (Vec<WalFrame>, Vec<WalTransactionCommit>) {
        (self.inner.read_frames(), self.inner.read_commits())
    }

    /// Decide the fate of the next mutating call: (persist?, ack?).
    fn gate(&mut self) -> (bool, bool) {
        if self.crashed {
            return (false, false);
        }
        let idx = self.log.len();
        match self.plan {
            Some((k, mode)) if k == idx => {
                self.fired = true;
                match mode {
                    Mode::Fail => (false, false),
                    Mode::Crash => {
                        self.crashed = true;
                        (false, false)
                    }
                    Mode::AckLost => {
                        self.crashed = true;
                        (true, false)
                    }
                }
            }
            _ => (true, true),
        }
    }
}

impl WalStorePort for FaultStore {
    fn acquire_writer_epoch(&mut self, request: WriterEpochRequest) -> Result<WriterEpoch, WalStoreError> {
        self.inner.acquire_writer_epoch(request)
    }

    fn append_frame(&mut self, epoch_id: WriterEpochId, frame: WalFrame) -> Result<(), WalStoreError> {
        let (persist, ack) = self.gate();
        let mut persisted = false;
        let mut res = Ok(());
        if persist {
            res = self.inner.append_frame(epoch_id, frame);
            persisted = res.is_ok();
            if persisted {
                self.dangling_frames += 1;
            }
        }
        let acked = ack && res.is_ok();
        self.log.push(CallRec {
            kind: CallKind::Append,
            persisted,
            acked,
        });
        if !ack {
            return Err(io("append_frame"));
        }
        res
    }

    fn flush_commit(&mut self, epoch_id: WriterEpochId, commit: WalTransactionCommit) -> Result<(), WalStoreError> {
        let (persist, ack) = self.gate();
        let mut persisted = false;
        let mut res = Ok(());
        if persist {
            res = self.inner.flush_commit(epoch_id, commit);
            persisted = res.is_ok();
            if persisted {
                self.dangling_frames = 0;
            }
        }
        let acked = ack && res.is_ok();
        self.log.push(CallRec {
            kind: CallKind::Flush,
            persisted,
            acked,
        });
        if !ack {
            return Err(io("flush_commit"));
        }
        res
    }

    fn flush_external_action_commit(
        &mut self,
        epoch_id: WriterEpochId,
        commit: WalTransactionCommit,
        capability: ExternalActionCoordinatorCapability,
    ) -> Result<(), WalStoreError> {
        let (persist, ack) = self.gate();
        let mut persisted = false;
        let mut res = Ok(());
        if persist {
            res = self.inner.flush_external_action_commit(epoch_id, commit, capability);
            persisted = res.is_ok();
            if persisted {
                self.dangling_frames = 0;
            }
        }
        let acked = ack && res.is_ok();
        self.log.push(CallRec {
            kind: CallKind::Flush,
            persisted,
            acked,
        });
        if !ack {
            return Err(io("flush_external_action_commit"));
        }
        res
    }

    fn read_frames(&self) -> Vec<WalFrame> {
        self.inner.read_frames()
    }

    fn read_commits(&self) -> Vec<WalTransactionCommit> {
        self.inner.read_commits()
    }

    fn read_snapshot(&self) -> Result<WalStoreSnapshot, WalStoreError> {
        if self.fail_reads {
            return Err(io("read_snapshot"));
        }
        Ok(WalStoreSnapshot {
            frames: self.inner.read_frames(),
            commits: self.inner.read_commits(),
        })
    }

    fn seal_segment(&mut self, epoch_id: WriterEpochId, segment_id: WalSegmentId) -> Result<WalSegmentSeal, WalStoreError> {
        self.inner.seal_segment(epoch_id, segment_id)
    }

    fn truncate_tail_after(&mut self, after_lsn: Lsn) -> Result<(), WalStoreError> {
        self.inner.truncate_tail_after(after_lsn)
    }

    fn publish_manifest(&mut self, epoch_id: WriterEpochId, manifest: WalManifest) -> Result<(), WalStoreError> {
        self.inner.publish_manifest(epoch_id, manifest)
    }

    fn close_epoch(&mut self, epoch_id: WriterEpochId) -> Result<(), WalStoreError> {
        self.inner.close_epoch(epoch_id)
    }
}
