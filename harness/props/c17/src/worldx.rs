//! The system under test (real coordinator + fault store + held tokens), the reference lifecycle
//! model, and the step function that executes one operation on the real code and compares.

use mc::{json, Report, Value};
use std::collections::BTreeMap;

use warp_core::causal_wal::{
    recover_from_frames_and_commits, recover_in_memory_store, RecoveryAccessMode,
    RecoveryTailPosture, WalDurabilityMode, WalRecordKind, WalStorePort, WalTransactionKind,
};
use warp_core::external_action::{
    admit_external_action_settlement, claim_external_action, observe_external_actions,
    reconcile_external_action_settlement_retry, record_external_action_request,
    AdmittedExternalActionSettlementV1, DurablyRecordedExternalActionRequestV1,
    ExternalActionAttemptIdV1, ExternalActionClaimGrantV1, ExternalActionCoordinatorV1,
    ExternalActionProtocolErrorV1, ExternalActionRequestIdV1, ExternalActionSettlementCandidateV1,
    RecoveredExternalActionPostureV1,
};
use warp_core::Hash;

use crate::fixtures::*;
use crate::store::{CallKind, CallRec, FaultStore};

pub type Tok = DurablyRecordedExternalActionRequestV1;
pub type Grant = ExternalActionClaimGrantV1;
pub type Receipt = AdmittedExternalActionSettlementV1;
pub type PErr = ExternalActionProtocolErrorV1;

// ---------------------------------------------------------------------------------------------
// Reference model: per-request lifecycle enum + number of committed transactions.  Written from
// the property statement: the only lawful moves are Absent->Requested->Claimed->Settled, one step
// per committed transaction; everything else is a refusal that changes nothing.
// ---------------------------------------------------------------------------------------------

#[derive(Clone, Copy, Debug, PartialEq, Eq)]
pub enum Var {
    A,
    B,
}

#[derive(Clone, Copy, Debug, PartialEq, Eq)]
pub enum Life {
    Absent,
    Requested,
    Claimed(Var),
    Settled(Var, u8),
}

impl Life {
    pub fn stage(&self) -> &'static str {
        match self {
            Life::Absent => "Absent",
            Life::Requested => "Requested",
            Life::Claimed(_) => "Claimed",
            Life::Settled(..) => "Settled",
        }
    }
    fn rank(&self) -> u8 {
        match self {
            Life::Absent => 0,
            Life::Requested => 1,
            Life::Claimed(_) => 2,
            Life::Settled(..) => 3,
        }
    }
}

#[derive(Clone, Debug, PartialEq, Eq)]
pub struct Model {
    pub life: [Life; 2],
    pub commits: usize,
}

enum Expect {
    Commit(Life),
    /// must be refused by the coordinator (or the registry) with one of these typed errors
    Refuse(Vec<&'static str>),
    /// no token / grant may be derivable; the accessor must refuse with one of these
    NoToken(Vec<&'static str>),
}

fn claim_arg_error(a: ClaimArg) -> Option<&'static str> {
    match a {
        ClaimArg::OkA | ClaimArg::OkB => None,
        ClaimArg::UnregisteredAdapter | ClaimArg::ForeignOpAuth => Some("UnauthorizedAdapter"),
        ClaimArg::ForeignReqAuth => Some("AuthorizationBindingMismatch"),
        ClaimArg::StaleBasis => Some("StaleBasis"),
        ClaimArg::ZeroLease => Some("MissingLeaseEvidence"),
        ClaimArg::OrdinalOne => Some("AttemptBudgetExhausted"),
    }
}

fn settle_arg_error(a: SettleArg) -> Option<&'static str> {
    match a {
        SettleArg::Ok => None,
        SettleArg::WrongAttempt => Some("SettlementClaimMismatch"),
        SettleArg::Oversize => Some("SettlementBudgetExceeded"),
        SettleArg::WrongSchema => Some("SettlementSchemaMismatch"),
        SettleArg::WrongDigest => Some("SettlementResultDigestMismatch"),
    }
}

fn expect(life: Life, op: &Op, has_token: bool) -> Expect {
    match op {
        Op::Request(_) => match life {
            Life::Absent => Expect::Commit(Life::Requested),
            _ => Expect::Refuse(vec!["DuplicateRequest"]),
        },
        Op::Claim(_, a) => {
            if *a == ClaimArg::UnregisteredAdapter {
                return Expect::Refuse(vec!["UnauthorizedAdapter"]);
            }
            if !has_token {
                return Expect::NoToken(match life {
                    Life::Absent => vec!["MissingRequest"],
                    Life::Requested => vec![],
                    _ => vec!["DuplicateClaim"],
                });
            }
            match life {
                Life::Requested => match a {
                    ClaimArg::OkA => Expect::Commit(Life::Claimed(Var::A)),
                    ClaimArg::OkB => Expect::Commit(Life::Claimed(Var::B)),
                    _ => Expect::Refuse(vec![claim_arg_error(*a).unwrap_or("?")]),
                },
                Life::Absent => Expect::Refuse(vec!["MissingRequest"]),
                _ => {
                    let mut v = vec!["DuplicateClaim"];
                    if let Some(e) = claim_arg_error(*a) {
                        v.push(e);
                    }
                    Expect::Refuse(v)
                }
            }
        }
        Op::Settle(_, k, a) => {
            if !has_token {
                return Expect::NoToken(match life {
                    Life::Absent => vec!["MissingRequest"],
                    Life::Requested => vec!["MissingClaim"],
                    Life::Claimed(_) => vec![],
                    Life::Settled(..) => vec!["DuplicateSettlement"],
                });
            }
            match life {
                Life::Claimed(v) => match a {
                    SettleArg::Ok => Expect::Commit(Life::Settled(v, *k)),
                    _ => Expect::Refuse(vec![settle_arg_error(*a).unwrap_or("?")]),
                },
                Life::Settled(..) => {
                    let mut v = vec!["DuplicateSettlement"];
                    if let Some(e) = settle_arg_error(*a) {
                        v.push(e);
                    }
                    Expect::Refuse(v)
                }
                Life::Absent => Expect::Refuse(vec!["MissingRequest"]),
                Life::Requested => Expect::Refuse(vec!["MissingClaim"]),
            }
        }
        _ => Expect::Refuse(vec![]),
    }
}

// ---------------------------------------------------------------------------------------------

/// Snapshot of an uninterrupted run (see `World::pure_snap`).
pub struct PureSnap {
    pub model: Model,
    pub coord: ExternalActionCoordinatorV1,
    pub log: (Vec<warp_core::causal_wal::WalFrame>, Vec<warp_core::causal_wal::WalTransactionCommit>),
    pub accessors: [(String, String, String); 2],
    pub seen_tok: [Option<String>; 2],
    pub seen_grant: [Option<String>; 2],
    pub seen_receipt: [Option<String>; 2],
}

#[derive(Default)]
pub struct StepOut {
    pub viol: Vec<(String, Value)>,
    pub outcomes: BTreeMap<String, u64>,
    pub counters: BTreeMap<String, u64>,
    pub nontrivial: Vec<u128>,
}

#[derive(Default)]
pub struct Pool {
    pub toks: Vec<Tok>,
    pub grants: Vec<Grant>,
}

#[derive(Default)]
struct Seen {
    tok: [Option<String>; 2],
    grant: [Option<String>; 2],
    receipt: [Option<String>; 2],
}

enum Exec {
    Committed { digest: Hash },
    Refused(String),
    NoToken(String),
    StoreErr(String),
}

pub fn ek(e: &PErr) -> String {
    let s = format!("{e:?}");
    s.split(|c: char| c == '(' || c == ' ' || c == '{')
        .next()
        .unwrap_or("?")
        .to_string()
}

pub struct World<'a> {
    pub fx: &'a Fx,
    pub store: FaultStore,
    pub coord: ExternalActionCoordinatorV1,
    pub pool: [Pool; 2],
    pub model: Model,
    seen: Seen,
    /// the uninterrupted projection of the history: the committed lifecycle ops, in order
    pub pure: Vec<Op>,
    pub had_interrupt: bool,
    /// a committed step whose acknowledgement was lost, per request: [request, claim, settle]
    lost_ack: [[bool; 3]; 2],
    pub hist: Vec<Op>,
    pub record: bool,
    pub heavy: bool,
    pub out: StepOut,
    pub last_store_calls: usize,
    pub last_committed: bool,
}

impl<'a> World<'a> {
    pub fn new(fx: &'a Fx) -> World<'a> {
        let store = FaultStore::new();
        let coord = ExternalActionCoordinatorV1::recover(&store).expect("genesis recover");
        World {
            fx,
            store,
            coord,
            pool: [Pool::default(), Pool::default()],
            model: Model {
                life: [Life::Absent, Life::Absent],
                commits: 0,
            },
            seen: Seen::default(),
            pure: Vec::new(),
            had_interrupt: false,
            lost_ack: [[false; 3]; 2],
            hist: Vec::new(),
            record: false,
            heavy: false,
            out: StepOut::default(),
            last_store_calls: 0,
            last_committed: false,
        }
    }

    fn rid(&self, r: u8) -> ExternalActionRequestIdV1 {
        self.fx.reqs[r as usize].request_id()
    }

    fn viol(&mut self, sig: String, extra: Value) {
        if self.record {
            self.out.viol.push((sig, extra));
        }
    }
    fn count(&mut self, name: &str) {
        if self.record {
            *self.out.counters.entry(name.to_string()).or_insert(0) += 1;
        }
    }
    fn outcome(&mut self, name: &str) {
        if self.record {
            *self.out.outcomes.entry(name.to_string()).or_insert(0) += 1;
        }
    }
    fn nontrivial(&mut self, key: String) {
        if self.record {
            self.out.nontrivial.push(Report::key(key.as_bytes()));
        }
    }
    fn typed(&mut self, e: &str) {
        self.count(&format!("typed_refusal:{e}"));
    }

    pub fn pool_fp(&self) -> String {
        format!(
            "{:?}|{:?}|{:?}|{:?}",
            self.pool[0].toks, self.pool[0].grants, self.pool[1].toks, self.pool[1].grants
        )
    }

    /// Dedup key = (index root digest, per-request posture, held tokens/grants, commit count).
    pub fn key(&self) -> [u8; 32] {
        let idx = self.coord.observed_index();
        let mut s = String::new();
        s.push_str(&mc::hex(&idx.root_digest()));
        for r in 0..2u8 {
            s.push_str(&format!("|{:?}", idx.get(self.rid(r)).map(|e| e.posture)));
        }
        s.push('|');
        s.push_str(&self.pool_fp());
        s.push_str(&format!("|{}", self.store.inner.commit_count()));
        mc::h(s.as_bytes())
    }

    // ----- token bookkeeping: every token / grant / receipt ever obtained for a request must be
    // one identical value on the whole path -----

    fn note_tok(&mut self, r: u8, t: &Tok) {
        let fp = format!("{t:?}");
        let first = self.seen.tok[r as usize].is_none();
        match &self.seen.tok[r as usize] {
            Some(x) if *x != fp => {
                let x = x.clone();
                self.viol(
                    "two-distinct-request-tokens-for-one-request".into(),
                    json!({"first": x, "later": fp}),
                );
            }
            Some(_) => {}
            None => self.seen.tok[r as usize] = Some(fp),
        }
        if first && self.lost_ack[r as usize][0] {
            self.count("request_token_rederived_after_lost_ack");
        }
    }
    fn note_grant(&mut self, r: u8, g: &Grant) {
        let fp = format!("{g:?}");
        let first = self.seen.grant[r as usize].is_none();
        match &self.seen.grant[r as usize] {
            Some(x) if *x != fp => {
                let x = x.clone();
                self.viol(
                    "two-distinct-claim-grants-for-one-request".into(),
                    json!({"first": x, "later": fp}),
                );
            }
            Some(_) => {}
            None => self.seen.grant[r as usize] = Some(fp),
        }
        if first && self.lost_ack[r as usize][1] {
            self.count("grant_rederived_after_lost_ack");
        }
    }
    fn note_receipt(&mut self, r: u8, rc: &Receipt) {
        let fp = format!("{rc:?}");
        let first = self.seen.receipt[r as usize].is_none();
        match &self.seen.receipt[r as usize] {
            Some(x) if *x != fp => {
                let x = x.clone();
                self.viol(
                    "two-distinct-settlement-receipts-for-one-request".into(),
                    json!({"first": x, "later": fp}),
                );
            }
            Some(_) => {}
            None => self.seen.receipt[r as usize] = Some(fp),
        }
        if first && self.lost_ack[r as usize][2] {
            self.count("receipt_rederived_after_lost_ack");
        }
    }

    /// Keep up to two tokens and two grants per request whenever the coordinator re-derives them;
    /// a refusal to re-derive must be the one the lifecycle stage calls for.
    fn top_up(&mut self) {
        for r in 0..2u8 {
            let rid = self.rid(r);
            let life = self.model.life[r as usize];
            while self.pool[r as usize].toks.len() < 2 {
                match self.coord.recorded_request(rid) {
                    Ok(t) => {
                        if life != Life::Requested {
                            self.viol(
                                format!("request-token-rederived-outside-Requested@{}", life.stage()),
                                json!({"request": r}),
                            );
                        }
                        self.note_tok(r, &t);
                        self.pool[r as usize].toks.push(t);
                    }
                    Err(e) => {
                        let k = ek(&e);
                        let want = match life {
                            Life::Absent => "MissingRequest",
                            Life::Requested => "<token>",
                            _ => "DuplicateClaim",
                        };
                        if k != want {
                            self.viol(
                                format!("recorded_request-refusal-unexpected:{k}@{}", life.stage()),
                                json!({"request": r, "want": want}),
                            );
                        }
                        break;
                    }
                }
            }
            while self.pool[r as usize].grants.len() < 2 {
                match self.coord.claim_grant(rid) {
                    Ok(g) => {
                        if !matches!(life, Life::Claimed(_)) {
                            self.viol(
                                format!("claim-grant-rederived-outside-Claimed@{}", life.stage()),
                                json!({"request": r}),
                            );
                        }
                        self.note_grant(r, &g);
                        self.pool[r as usize].grants.push(g);
                    }
                    Err(e) => {
                        let k = ek(&e);
                        let want = match life {
                            Life::Absent => "MissingRequest",
                            Life::Requested => "MissingClaim",
                            Life::Claimed(_) => "<grant>",
                            Life::Settled(..) => "DuplicateSettlement",
                        };
                        if k != want {
                            self.viol(
                                format!("claim_grant-refusal-unexpected:{k}@{}", life.stage()),
                                json!({"request": r, "want": want}),
                            );
                        }
                        break;
                    }
                }
            }
            match self.coord.admitted_settlement(rid) {
                Ok(rc) => {
                    if !matches!(life, Life::Settled(..)) {
                        self.viol(
                            format!("settlement-receipt-available-outside-Settled@{}", life.stage()),
                            json!({"request": r}),
                        );
                    }
                    self.note_receipt(r, &rc);
                }
                Err(e) => {
                    let k = ek(&e);
                    let want = match life {
                        Life::Absent => "MissingRequest",
                        Life::Settled(..) => "<receipt>",
                        _ => "MissingSettlement",
                    };
                    if k != want {
                        self.viol(
                            format!("admitted_settlement-refusal-unexpected:{k}@{}", life.stage()),
                            json!({"request": r, "want": want}),
                        );
                    }
                }
            }
        }
    }

    fn label(&self, op: &Op) -> String {
        format!("tx:{}:{}", self.store.inner.commit_count(), op.enc())
    }
    fn ctx(&self, op: &Op) -> warp_core::external_action::ExternalActionTransactionContextV1 {
        context(&self.label(op), WalDurabilityMode::Buffered, epoch_id())
    }

    // ----- executing the three lifecycle operations on the real code -----

    fn exec_request(&mut self, op: &Op, r: u8) -> (Exec, bool) {
        let ctx = self.ctx(op);
        let req = self.fx.reqs[r as usize];
        match record_external_action_request(&mut self.store, &mut self.coord, ctx, req) {
            Ok(t) => {
                let digest = t.request_commit_digest();
                if t.request() != req {
                    self.viol("request-token-names-another-request".into(), json!({"request": r}));
                }
                self.note_tok(r, &t);
                self.pool[r as usize].toks.push(t);
                (Exec::Committed { digest }, true)
            }
            Err(PErr::WalStore(e)) => (Exec::StoreErr(format!("{e:?}")), true),
            Err(e) => (Exec::Refused(ek(&e)), true),
        }
    }

    fn exec_claim(&mut self, op: &Op, r: u8, a: ClaimArg) -> (Exec, bool) {
        let fx = self.fx;
        let req = fx.reqs[r as usize];
        let rid = req.request_id();
        if a == ClaimArg::UnregisteredAdapter {
            return match fx.registry.authorize(&req, fx.adapter_x) {
                Err(e) => (Exec::Refused(ek(&e)), true),
                Ok(_) => {
                    self.viol("registry-authorizes-unregistered-adapter".into(), json!({}));
                    (Exec::Refused("<authorized>".into()), true)
                }
            };
        }
        let tok = match self.pool[r as usize].toks.pop() {
            Some(t) => t,
            None => match self.coord.recorded_request(rid) {
                Ok(t) => {
                    self.note_tok(r, &t);
                    t
                }
                Err(e) => return (Exec::NoToken(ek(&e)), false),
            },
        };
        let auth = match a {
            ClaimArg::OkB => fx.registry.authorize(&req, fx.adapter_b),
            ClaimArg::ForeignOpAuth => fx.registry.authorize(&fx.foreign, fx.adapter_a),
            ClaimArg::ForeignReqAuth => fx.registry.authorize(&fx.reqs[1 - r as usize], fx.adapter_a),
            _ => fx.registry.authorize(&req, fx.adapter_a),
        }
        .expect("fixture authorization");
        let basis = if a == ClaimArg::StaleBasis { dg("basis:changed") } else { req.basis_digest };
        let ordinal = if a == ClaimArg::OrdinalOne { 1 } else { 0 };
        let lease = match a {
            ClaimArg::ZeroLease => [0u8; 32],
            ClaimArg::OkB => dg("lease:B"),
            _ => dg("lease:A"),
        };
        let ctx = self.ctx(op);
        match claim_external_action(&mut self.store, &mut self.coord, ctx, tok, auth, basis, ordinal, lease) {
            Ok(g) => {
                let digest = g.claim_commit_digest();
                let c = g.claim();
                let want_adapter = if a == ClaimArg::OkB { fx.adapter_b } else { fx.adapter_a };
                if g.request() != req
                    || c.request_id != rid
                    || c.adapter_id != want_adapter
                    || c.lease_evidence_digest != lease
                    || c.attempt_ordinal != 0
                    || c.basis_digest != req.basis_digest
                {
                    self.viol("claim-grant-does-not-bind-the-claimed-arguments".into(), json!({"grant": format!("{g:?}")}));
                }
                self.note_grant(r, &g);
                self.pool[r as usize].grants.push(g);
                (Exec::Committed { digest }, true)
            }
            Err(PErr::WalStore(e)) => (Exec::StoreErr(format!("{e:?}")), true),
            Err(e) => (Exec::Refused(ek(&e)), true),
        }
    }

    fn candidate(
        &self,
        r: u8,
        attempt: ExternalActionAttemptIdV1,
        adapter: warp_core::external_action::ExternalActionAdapterIdV1,
        kind: u8,
        bytes: Vec<u8>,
    ) -> ExternalActionSettlementCandidateV1 {
        let req = self.fx.reqs[r as usize];
        ExternalActionSettlementCandidateV1::new(
            req.request_id(),
            attempt,
            adapter,
            kind_of(kind),
            req.settlement_schema_digest,
            req.basis_digest,
            bytes,
            dg("c17:schema-admission-evidence"),
            dg("c17:external-evidence"),
        )
    }

    fn exec_settle(&mut self, op: &Op, r: u8, kind: u8, a: SettleArg) -> (Exec, bool) {
        let rid = self.rid(r);
        let grant = match self.pool[r as usize].grants.pop() {
            Some(g) => g,
            None => match self.coord.claim_grant(rid) {
                Ok(g) => {
                    self.note_grant(r, &g);
                    g
                }
                Err(e) => return (Exec::NoToken(ek(&e)), false),
            },
        };
        let claim = grant.claim();
        let bytes = if a == SettleArg::Oversize { oversize_bytes(r, kind) } else { ok_bytes(r, kind) };
        let mut cand = self.candidate(r, claim.attempt_id, claim.adapter_id, kind, bytes);
        match a {
            SettleArg::WrongAttempt => cand.attempt_id = ExternalActionAttemptIdV1::from_hash(dg("attempt:bogus")),
            SettleArg::WrongSchema => cand.settlement_schema_digest = dg("schema:wrong"),
            SettleArg::WrongDigest => cand.declared_result_digest = dg("digest:wrong"),
            _ => {}
        }
        let sent = cand.clone();
        let ctx = self.ctx(op);
        match admit_external_action_settlement(&mut self.store, &mut self.coord, ctx, grant, cand) {
            Ok(rc) => {
                let digest = rc.settlement_commit_digest();
                let s = rc.settlement();
                if s.request_id != rid
                    || s.attempt_id != sent.attempt_id
                    || s.kind != sent.kind
                    || s.canonical_result_bytes != sent.canonical_result_bytes
                    || s.result_digest != sent.declared_result_digest
                {
                    self.viol("settlement-receipt-differs-from-submitted-candidate".into(), json!({"receipt": format!("{rc:?}")}));
                }
                if s.canonical_result_bytes.len() as u64 > budget() {
                    self.viol(
                        "settlement-admitted-beyond-declared-byte-budget".into(),
                        json!({"len": s.canonical_result_bytes.len(), "budget": budget()}),
                    );
                }
                if s.attempt_id != claim.attempt_id {
                    self.viol("settlement-admitted-for-an-attempt-other-than-the-claimed-one".into(), json!({}));
                }
                self.note_receipt(r, &rc);
                (Exec::Committed { digest }, true)
            }
            Err(PErr::WalStore(e)) => (Exec::StoreErr(format!("{e:?}")), true),
            Err(e) => (Exec::Refused(ek(&e)), true),
        }
    }

    fn exec(&mut self, op: &Op) -> (Exec, bool) {
        match op {
            Op::Request(r) => self.exec_request(op, *r),
            Op::Claim(r, a) => self.exec_claim(op, *r, *a),
            Op::Settle(r, k, a) => self.exec_settle(op, *r, *k, *a),
            _ => unreachable!("exec is for lifecycle ops"),
        }
    }

    /// At the moment a token is returned its transaction must already be the last committed
    /// transaction of the store, with the right kind, one matching record naming the request.
    fn check_durable(&mut self, op: &Op, digest: Hash, ctxs: &str) {
        let commits = self.store.inner.read_commits();
        let frames = self.store.inner.read_frames();
        let Some(pos) = commits.iter().position(|c| c.commit_digest == digest) else {
            self.viol(
                format!("token-returned-without-durable-commit:{ctxs}"),
                json!({"commit_digest": mc::hex(&digest), "commits_in_store": commits.len()}),
            );
            return;
        };
        if pos + 1 != commits.len() {
            self.viol(format!("returned-commit-is-not-the-last-committed-transaction:{ctxs}"), json!({}));
        }
        let c = &commits[pos];
        let (want_kind, want_rec) = match op {
            Op::Request(_) => (WalTransactionKind::ExternalActionRequest, WalRecordKind::ExternalActionRequestRecorded),
            Op::Claim(..) => (WalTransactionKind::ExternalActionClaim, WalRecordKind::ExternalActionClaimRecorded),
            _ => (WalTransactionKind::ExternalActionSettlement, WalRecordKind::ExternalActionSettlementRecorded),
        };
        let txf: Vec<_> = frames
            .iter()
            .filter(|f| f.header.transaction_id == c.transaction_id && f.header.lsn >= c.first_lsn && f.header.lsn <= c.last_lsn)
            .collect();
        let rid = self.rid(op.req().unwrap_or(0)).as_hash();
        let ok = c.transaction_kind == want_kind
            && txf.len() == 1
            && txf[0].header.record_kind == want_rec
            && txf[0].payload.canonical_bytes.get(4..36) == Some(&rid[..]);
        if !ok {
            self.viol(format!("durable-transaction-shape-unexpected:{ctxs}"), json!({"kind": format!("{:?}", c.transaction_kind), "frames": txf.len()}));
        }
    }

    fn stale_counters(&mut self, op: &Op, life: Life, has_token: bool) {
        if !has_token {
            return;
        }
        match op {
            Op::Claim(_, a) if *a != ClaimArg::UnregisteredAdapter && life.rank() >= 2 => {
                self.count("claim_with_stale_token_after_claim")
            }
            Op::Settle(..) if life.rank() == 3 => self.count("settle_with_stale_grant_after_settlement"),
            _ => {}
        }
    }

    fn exec_counter(&mut self, op: &Op) {
        match op {
            Op::Request(_) => self.count("exec:request"),
            Op::Claim(_, a) => self.count(&format!("exec:claim:{a:?}")),
            Op::Settle(_, k, a) => self.count(&format!("exec:settle:k{k}:{a:?}")),
            Op::Retry(_, a) => self.count(&format!("exec:retry:{a:?}")),
            Op::Observe => self.count("exec:observe"),
            Op::CrashRecover => self.count("exec:crash-recover"),
            Op::Fault(..) => self.count("exec:fault"),
        }
    }

    /// One lifecycle operation, fault-free (`fault == None`) or with a fault at store call k.
    fn do_lifecycle(&mut self, op: &Op, fault: Option<(u8, Mode)>) {
        let r = op.req().unwrap_or(0);
        let life = self.model.life[r as usize];
        let ctxs = match fault {
            None => format!("{}@{}", op.class(), life.stage()),
            Some((k, m)) => format!("fault(call{k},{m:?})/{}@{}", op.class(), life.stage()),
        };
        let pre_coord = self.coord.clone();
        let pre_frames = self.store.inner.read_frames().len();
        let pre_commits = self.store.inner.commit_count();
        self.store.begin_op(fault.map(|(k, m)| (k as usize, m)));
        let (res, has_token) = self.exec(op);
        let fired = self.store.fired;
        let log: Vec<CallRec> = self.store.end_op();
        self.last_store_calls = log.len();
        let flush_persisted = log.iter().any(|c| c.kind == CallKind::Flush && c.persisted);
        self.last_committed = false;
        let exp = expect(life, op, has_token);
        self.stale_counters(op, life, has_token);

        if let Some((k, mode)) = fault {
            // ------------------------------------------------------------------ faulted transition
            self.had_interrupt = true;
            if !matches!(exp, Expect::Commit(_)) {
                self.viol(format!("MACHINERY:fault-op-on-non-committing-step:{ctxs}"), json!({}));
                return;
            }
            if !fired {
                self.viol(format!("MACHINERY:fault-plan-did-not-fire:{ctxs}"), json!({"calls": log.len()}));
            }
            self.count(&format!("fault:{}:call{k}:{mode:?}", op.kind_name()));
            self.nontrivial(format!("fault|{}|{}|{k}|{mode:?}", op.class(), life.stage()));
            match &res {
                Exec::StoreErr(_) => self.outcome("fault:store-error-surfaced-no-token"),
                Exec::Committed { digest } => {
                    // a token came back although a store call of this transaction failed
                    self.outcome("fault:TOKEN-RETURNED");
                    let durable = self.store.inner.read_commits().iter().any(|c| c.commit_digest == *digest);
                    if durable {
                        self.viol(format!("token-returned-although-a-store-call-failed:{ctxs}"), json!({}));
                    } else {
                        self.viol(
                            format!("token-returned-without-durable-commit:{ctxs}"),
                            json!({"commit_digest": mc::hex(digest)}),
                        );
                    }
                }
                Exec::Refused(e) | Exec::NoToken(e) => {
                    let e = e.clone();
                    self.viol(format!("store-failure-reported-as-protocol-refusal:{e}:{ctxs}"), json!({}));
                }
            }
            // the live index must not have advanced past the acknowledged history
            if self.coord.observed_index() != pre_coord.observed_index() {
                self.viol(
                    format!("live-index-advanced-by-a-failed-transition:{ctxs}"),
                    json!({"root_before": mc::hex(&pre_coord.observed_index().root_digest()),
                           "root_after": mc::hex(&self.coord.observed_index().root_digest())}),
                );
            }
            self.probe_poisoned(&ctxs, mode != Mode::Fail);
            if mode != Mode::Fail {
                // the process died: every in-memory token is gone
                self.pool = [Pool::default(), Pool::default()];
                self.store.reboot();
            }
            if flush_persisted {
                // the commit marker reached the medium: the step happened (acknowledgement lost)
                if let Expect::Commit(nl) = exp {
                    self.model.life[r as usize] = nl;
                }
                self.model.commits += 1;
                self.pure.push(op.clone());
                let which = match op {
                    Op::Request(_) => 0,
                    Op::Claim(..) => 1,
                    _ => 2,
                };
                if matches!(res, Exec::StoreErr(_)) {
                    self.lost_ack[r as usize][which] = true;
                    self.count("committed_step_with_lost_acknowledgement");
                }
                self.last_committed = true;
            }
            self.count_crash_stage();
            self.recover_now(&ctxs);
            return;
        }

        // ---------------------------------------------------------------------- fault-free transition
        let kind = op.kind_name();
        match (exp, res) {
            (Expect::Commit(nl), Exec::Committed { digest }) => {
                self.model.life[r as usize] = nl;
                self.model.commits += 1;
                self.pure.push(op.clone());
                self.last_committed = true;
                self.outcome(&format!("{kind}:committed"));
                self.count(&format!("store_calls_per_commit:{}", log.len()));
                if let Life::Settled(_, k) = nl {
                    self.count(&format!("settled_kind:{k}"));
                }
                self.nontrivial(format!("commit|{}|{}", op.class(), life.stage()));
                self.check_durable(op, digest, &ctxs);
                if !log.iter().all(|c| c.persisted && c.acked)
                    || log.last().map(|c| c.kind) != Some(CallKind::Flush)
                    || log.iter().filter(|c| c.kind == CallKind::Flush).count() != 1
                {
                    self.viol(format!("commit-did-not-end-with-exactly-one-flush:{ctxs}"), json!({"log": format!("{log:?}")}));
                }
                if self.store.inner.commit_count() != pre_commits + 1 {
                    self.viol(
                        format!("commit-count-did-not-grow-by-exactly-one:{ctxs}"),
                        json!({"before": pre_commits, "after": self.store.inner.commit_count()}),
                    );
                }
            }
            (Expect::Commit(_), Exec::Refused(e)) | (Expect::Commit(_), Exec::NoToken(e)) => {
                self.outcome(&format!("{kind}:LAWFUL-STEP-REFUSED:{e}"));
                self.viol(format!("lawful-step-refused:{e}:{ctxs}"), json!({}));
            }
            (Expect::Refuse(allowed), Exec::Refused(e)) => {
                self.outcome(&format!("{kind}:refused:{e}"));
                self.typed(&e);
                self.nontrivial(format!("refuse|{}|{}|{e}", op.class(), life.stage()));
                if !allowed.iter().any(|a| *a == e) {
                    self.viol(format!("refusal-kind-unexpected:{e}:{ctxs}"), json!({"allowed": allowed}));
                }
                self.check_unchanged(&pre_coord, pre_frames, pre_commits, &log, &ctxs);
            }
            (Expect::NoToken(allowed), Exec::NoToken(e)) => {
                self.outcome(&format!("{kind}:no-token:{e}"));
                self.typed(&e);
                if !allowed.iter().any(|a| *a == e) {
                    self.viol(format!("token-rederivation-refusal-unexpected:{e}:{ctxs}"), json!({"allowed": allowed}));
                }
                self.check_unchanged(&pre_coord, pre_frames, pre_commits, &log, &ctxs);
            }
            (Expect::Refuse(_), Exec::Committed { .. }) | (Expect::NoToken(_), Exec::Committed { .. }) => {
                self.outcome(&format!("{kind}:UNLAWFUL-STEP-ADMITTED"));
                self.last_committed = true;
                self.viol(
                    format!("unlawful-step-admitted:{ctxs}"),
                    json!({"commits_before": pre_commits, "commits_after": self.store.inner.commit_count()}),
                );
            }
            (_, Exec::StoreErr(e)) => {
                self.viol(format!("store-error-without-injected-fault:{ctxs}"), json!({"error": e}));
            }
            (Expect::Refuse(_), Exec::NoToken(e)) | (Expect::NoToken(_), Exec::Refused(e)) => {
                self.viol(format!("MACHINERY:outcome-shape-mismatch:{e}:{ctxs}"), json!({}));
            }
        }
    }

    fn check_unchanged(
        &mut self,
        pre_coord: &ExternalActionCoordinatorV1,
        pre_frames: usize,
        pre_commits: usize,
        log: &[CallRec],
        ctxs: &str,
    ) {
        if self.coord != *pre_coord {
            self.viol(format!("refused-step-changed-the-coordinator:{ctxs}"), json!({}));
        }
        if !log.is_empty()
            || self.store.inner.commit_count() != pre_commits
            || self.store.inner.read_frames().len() != pre_frames
        {
            self.viol(
                format!("refused-step-touched-the-log:{ctxs}"),
                json!({"store_calls": log.len(), "commits_before": pre_commits, "commits_after": self.store.inner.commit_count(),
                       "frames_before": pre_frames, "frames_after": self.store.inner.read_frames().len()}),
            );
        }
    }

    /// After a failed store call the live coordinator must refuse every transition and every
    /// authority accessor with CoordinatorRecoveryRequired, touching nothing.
    fn probe_poisoned(&mut self, ctxs: &str, consume_tokens: bool) {
        let mut c2 = self.coord.clone();
        let mut s2 = self.store.clone();
        s2.reboot();
        s2.begin_op(None);
        let mut bad: Vec<String> = Vec::new();
        let mut probes = 0u32;
        let want = "CoordinatorRecoveryRequired";
        for r in 0..2u8 {
            let rid = self.rid(r);
            let checks: [(&str, Option<String>); 3] = [
                ("recorded_request", c2.recorded_request(rid).err().map(|e| ek(&e))),
                ("claim_grant", c2.claim_grant(rid).err().map(|e| ek(&e))),
                ("admitted_settlement", c2.admitted_settlement(rid).err().map(|e| ek(&e))),
            ];
            for (name, got) in checks {
                probes += 1;
                if got.as_deref() != Some(want) {
                    bad.push(format!("{name}->{got:?}"));
                }
            }
            let ctx = context("probe", WalDurabilityMode::Buffered, epoch_id());
            let got = record_external_action_request(&mut s2, &mut c2, ctx, self.fx.reqs[r as usize])
                .err()
                .map(|e| ek(&e));
            probes += 1;
            if got.as_deref() != Some(want) {
                bad.push(format!("record_external_action_request->{got:?}"));
            }
            let cand = self.candidate(r, ExternalActionAttemptIdV1::from_hash(dg("attempt:bogus")), self.fx.adapter_a, 1, ok_bytes(r, 1));
            let got = reconcile_external_action_settlement_retry(&c2, cand).err().map(|e| ek(&e));
            probes += 1;
            if got.as_deref() != Some(want) {
                bad.push(format!("reconcile_retry->{got:?}"));
            }
            if consume_tokens {
                // the process is about to die anyway: spend the held tokens on the poisoned coordinator
                if let Some(tok) = self.pool[r as usize].toks.pop() {
                    let req = self.fx.reqs[r as usize];
                    let auth = self.fx.registry.authorize(&req, self.fx.adapter_a).expect("auth");
                    let got = claim_external_action(&mut s2, &mut c2, ctx, tok, auth, req.basis_digest, 0, dg("lease:A"))
                        .err()
                        .map(|e| ek(&e));
                    probes += 1;
                    if got.as_deref() != Some(want) {
                        bad.push(format!("claim_external_action->{got:?}"));
                    }
                }
                if let Some(g) = self.pool[r as usize].grants.pop() {
                    let cl = g.claim();
                    let cand = self.candidate(r, cl.attempt_id, cl.adapter_id, 1, ok_bytes(r, 1));
                    let got = admit_external_action_settlement(&mut s2, &mut c2, ctx, g, cand).err().map(|e| ek(&e));
                    probes += 1;
                    if got.as_deref() != Some(want) {
                        bad.push(format!("admit_external_action_settlement->{got:?}"));
                    }
                }
            }
        }
        let touched = s2.end_op().len();
        if self.record {
            *self.out.counters.entry("poisoned_probe_refused".into()).or_insert(0) += (probes as u64).saturating_sub(bad.len() as u64);
            *self.out.counters.entry("typed_refusal:CoordinatorRecoveryRequired".into()).or_insert(0) +=
                (probes as u64).saturating_sub(bad.len() as u64);
        }
        if !bad.is_empty() || touched != 0 {
            self.viol(
                format!("poisoned-coordinator-does-not-demand-recovery:{ctxs}"),
                json!({"probes": bad, "store_calls": touched}),
            );
        }
    }

    fn count_crash_stage(&mut self) {
        for r in 0..2 {
            let s = self.model.life[r].stage();
            self.count(&format!("crash_recover_at:{s}"));
        }
    }

    /// Trusted local recovery: `recover` must refuse an uncommitted tail with a typed error;
    /// ordinary WAL recovery truncates it; `recover` then succeeds.
    fn recover_now(&mut self, ctxs: &str) {
        let has_tail = self.store.dangling_frames > 0;
        let first = ExternalActionCoordinatorV1::recover(&self.store);
        let rec = if has_tail {
            self.count("recover_saw_uncommitted_tail");
            match first {
                Err(PErr::WalTailNotClean) => self.typed("WalTailNotClean"),
                Err(e) => {
                    let k = ek(&e);
                    self.viol(format!("recover-on-uncommitted-tail-unexpected-error:{k}:{ctxs}"), json!({}));
                }
                Ok(_) => self.viol(format!("recover-accepts-an-uncommitted-tail:{ctxs}"), json!({})),
            }
            match recover_in_memory_store(&mut self.store.inner, RecoveryAccessMode::Writable) {
                Ok(rep) => {
                    if !matches!(rep.tail_posture, RecoveryTailPosture::TruncatedAfter(_) | RecoveryTailPosture::TruncatedAll) {
                        self.viol(format!("wal-recovery-did-not-truncate-the-tail:{ctxs}"), json!({"posture": format!("{:?}", rep.tail_posture)}));
                    }
                }
                Err(e) => self.viol(format!("wal-tail-recovery-failed:{ctxs}"), json!({"error": format!("{e:?}")})),
            }
            self.store.dangling_frames = 0;
            ExternalActionCoordinatorV1::recover(&self.store)
        } else {
            first
        };
        match rec {
            Ok(c) => self.coord = c,
            Err(e) => {
                let k = ek(&e);
                self.viol(format!("recovery-of-committed-history-failed:{k}:{ctxs}"), json!({"error": format!("{e:?}")}));
            }
        }
    }

    fn do_crash_recover(&mut self) {
        self.had_interrupt = true;
        self.count_crash_stage();
        self.nontrivial(format!("crash|{:?}", self.model.life));
        self.pool = [Pool::default(), Pool::default()];
        self.store.reboot();
        self.recover_now("crash-recover");
        self.outcome("crash-recover:recovered");
    }

    fn do_retry(&mut self, op: &Op, r: u8, a: RetryArg) {
        let rid = self.rid(r);
        let life = self.model.life[r as usize];
        let ctxs = format!("{}@{}", op.class(), life.stage());
        let claim = self.coord.observed_index().get(rid).and_then(|e| e.claim);
        let (attempt, adapter) = match claim {
            Some(c) => (c.attempt_id, c.adapter_id),
            None => (ExternalActionAttemptIdV1::from_hash(dg("attempt:bogus")), self.fx.adapter_a),
        };
        let kind = match life {
            Life::Settled(_, k) => k,
            _ => 1,
        };
        let bytes = if a == RetryArg::Different { different_bytes(r, kind) } else { ok_bytes(r, kind) };
        let mut cand = self.candidate(r, attempt, adapter, kind, bytes);
        if a == RetryArg::WrongSchema {
            cand.settlement_schema_digest = dg("schema:wrong");
        }
        let pre_frames = self.store.inner.read_frames().len();
        let pre_commits = self.store.inner.commit_count();
        let pre_coord = self.coord.clone();
        let got = reconcile_external_action_settlement_retry(&self.coord, cand);
        let want: Result<(), &str> = match (life, a) {
            (Life::Absent, _) => Err("MissingRequest"),
            (Life::Requested, _) => Err("MissingClaim"),
            (_, RetryArg::WrongSchema) => Err("SettlementSchemaMismatch"),
            (Life::Claimed(_), _) => Err("MissingSettlement"),
            (Life::Settled(..), RetryArg::Same) => Ok(()),
            (Life::Settled(..), RetryArg::Different) => Err("ConflictingSettlement"),
        };
        match (got, want) {
            (Ok(rc), Ok(())) => {
                self.outcome("retry:answered-from-retained");
                self.nontrivial(format!("retry-ok|{life:?}"));
                if rc.settlement().canonical_result_bytes != ok_bytes(r, kind) {
                    self.viol(format!("retry-answered-with-other-bytes:{ctxs}"), json!({}));
                }
                self.note_receipt(r, &rc);
            }
            (Ok(_), Err(w)) => self.viol(format!("retry-answered-although-it-must-be-refused:{w}:{ctxs}"), json!({})),
            (Err(e), Ok(())) => {
                let k = ek(&e);
                self.viol(format!("identical-retry-refused:{k}:{ctxs}"), json!({}));
            }
            (Err(e), Err(w)) => {
                let k = ek(&e);
                self.outcome(&format!("retry:refused:{k}"));
                self.typed(&k);
                self.nontrivial(format!("retry-refuse|{}|{k}", life.stage()));
                if k != w {
                    self.viol(format!("refusal-kind-unexpected:{k}:{ctxs}"), json!({"want": w}));
                }
            }
        }
        self.check_unchanged(&pre_coord, pre_frames, pre_commits, &[], &ctxs);
    }

    /// Observation of the log through the observation-only projection: equals the live index.
    fn do_observe(&mut self, ctxs: &str) {
        let (frames, commits) = self.store.snapshot_pair();
        match recover_from_frames_and_commits(&frames, &commits, RecoveryAccessMode::ReadOnly) {
            Ok(rep) => {
                if rep.tail_posture != RecoveryTailPosture::Clean {
                    self.viol(format!("quiescent-log-has-an-uncommitted-tail:{ctxs}"), json!({"posture": format!("{:?}", rep.tail_posture)}));
                }
                if rep.transactions.len() != self.model.commits {
                    self.viol(
                        format!("committed-transaction-count-differs-from-model:{ctxs}"),
                        json!({"log": rep.transactions.len(), "model": self.model.commits}),
                    );
                }
                match observe_external_actions(&rep) {
                    Ok(idx) => {
                        if idx != *self.coord.observed_index() {
                            self.viol(
                                format!("observed-index-differs-from-live-index:{ctxs}"),
                                json!({"observed_root": mc::hex(&idx.root_digest()), "live_root": mc::hex(&self.coord.observed_index().root_digest())}),
                            );
                        }
                    }
                    Err(e) => {
                        let k = ek(&e);
                        self.viol(format!("observation-of-committed-history-failed:{k}:{ctxs}"), json!({"error": format!("{e:?}")}));
                    }
                }
            }
            Err(e) => self.viol(format!("wal-scan-of-committed-history-failed:{ctxs}"), json!({"error": format!("{e:?}")})),
        }
    }

    /// Invariants of a quiescent state (after a completed op, or after recovery).
    fn check_state(&mut self, op: &Op) {
        let ctxs = format!("after:{}", op.class());
        // (1) recover(store) == the live, incrementally advanced coordinator (skipped right after a
        // recovery, where the live coordinator *is* recover(store))
        if matches!(op, Op::Fault(..) | Op::CrashRecover) {
        } else {
        match ExternalActionCoordinatorV1::recover(&self.store) {
            Ok(rec) => {
                if rec.observed_index().root_digest() != self.coord.observed_index().root_digest() {
                    self.viol(
                        format!("recovered-root-differs-from-live-root:{ctxs}"),
                        json!({"recovered": mc::hex(&rec.observed_index().root_digest()), "live": mc::hex(&self.coord.observed_index().root_digest())}),
                    );
                } else if rec.observed_index() != self.coord.observed_index() {
                    self.viol(format!("recovered-index-differs-from-live-index:{ctxs}"), json!({}));
                } else if rec != self.coord {
                    self.viol(format!("recovered-wal-continuation-differs-from-live:{ctxs}"), json!({}));
                }
            }
            Err(e) => {
                let k = ek(&e);
                self.viol(format!("recovery-of-committed-history-failed:{k}:{ctxs}"), json!({"error": format!("{e:?}")}));
            }
        }
        }
        // (2) recorded lifecycle == model, and exactly one record per taken step in the log
        let (frames, commits) = self.store.snapshot_pair();
        for r in 0..2u8 {
            let rid = self.rid(r);
            let life = self.model.life[r as usize];
            let posture = self.coord.observed_index().get(rid).map(|e| e.posture);
            let want = match life {
                Life::Absent => None,
                Life::Requested => Some(RecoveredExternalActionPostureV1::Requested),
                Life::Claimed(_) => Some(RecoveredExternalActionPostureV1::Claimed),
                Life::Settled(_, k) => Some(RecoveredExternalActionPostureV1::Settled(kind_of(k))),
            };
            if posture != want {
                self.viol(
                    format!("recorded-posture-differs-from-lifecycle-model:{ctxs}"),
                    json!({"request": r, "recorded": format!("{posture:?}"), "model": format!("{life:?}")}),
                );
            }
            if let Some(e) = self.coord.observed_index().get(rid).cloned() {
                let want_adapter = match life {
                    Life::Claimed(v) | Life::Settled(v, _) => Some(if v == Var::A { self.fx.adapter_a } else { self.fx.adapter_b }),
                    _ => None,
                };
                if e.claim.map(|c| c.adapter_id) != want_adapter {
                    self.viol(format!("recorded-claim-differs-from-lifecycle-model:{ctxs}"), json!({"request": r}));
                }
                if let (Some(s), Life::Settled(_, k)) = (&e.settlement, life) {
                    if s.canonical_result_bytes != ok_bytes(r, k) || Some(s.attempt_id) != e.claim.map(|c| c.attempt_id) {
                        self.viol(format!("retained-settlement-differs-from-admitted-candidate:{ctxs}"), json!({"request": r}));
                    }
                }
            }
            let mut n = [0usize; 3];
            for f in &frames {
                if f.payload.canonical_bytes.get(4..36) == Some(&rid.as_hash()[..]) {
                    match f.header.record_kind {
                        WalRecordKind::ExternalActionRequestRecorded => n[0] += 1,
                        WalRecordKind::ExternalActionClaimRecorded => n[1] += 1,
                        WalRecordKind::ExternalActionSettlementRecorded => n[2] += 1,
                        _ => {}
                    }
                }
            }
            let rank = life.rank() as usize;
            let wantn = [(rank >= 1) as usize, (rank >= 2) as usize, (rank >= 3) as usize];
            if n != wantn {
                let which = if n[1] != wantn[1] { "claim" } else if n[0] != wantn[0] { "request" } else { "settlement" };
                self.viol(
                    format!("log-does-not-hold-exactly-one-{which}-record:{ctxs}"),
                    json!({"request": r, "records": n, "model": wantn}),
                );
            }
        }
        // (3) one committed transaction per taken step, nothing else in the log
        if commits.len() != self.model.commits || frames.len() != self.model.commits {
            self.viol(
                format!("log-size-differs-from-number-of-taken-steps:{ctxs}"),
                json!({"commits": commits.len(), "frames": frames.len(), "model": self.model.commits}),
            );
        }
        // (4) the observation-only projection agrees
        self.do_observe(&ctxs);
        // (5) an unreadable store is an obstruction, never an empty genesis
        self.store.fail_reads = true;
        let r = ExternalActionCoordinatorV1::recover(&self.store);
        self.store.fail_reads = false;
        if r.is_ok() {
            self.viol(format!("recover-succeeds-on-unreadable-store:{ctxs}"), json!({}));
        }
        // (6) after any stop: equal to the uninterrupted run over the committed prefix
        if self.had_interrupt {
            self.count("uninterrupted_projection_compared");
            let p = self.pure_snap();
            if p.model != self.model {
                self.viol(format!("MACHINERY:uninterrupted-projection-diverged:{ctxs}"), json!({"pure": format!("{:?}", p.model), "this": format!("{:?}", self.model)}));
            }
            if p.coord.observed_index().root_digest() != self.coord.observed_index().root_digest() {
                self.viol(format!("recovered-root-differs-from-uninterrupted-run:{ctxs}"), json!({}));
            } else if p.coord != self.coord {
                self.viol(format!("recovered-coordinator-differs-from-uninterrupted-run:{ctxs}"), json!({}));
            }
            if p.log != (frames, commits) {
                self.viol(format!("recovered-log-differs-from-uninterrupted-run:{ctxs}"), json!({}));
            }
            for r in 0..2u8 {
                let rid = self.rid(r);
                let b = (
                    format!("{:?}", self.coord.recorded_request(rid)),
                    format!("{:?}", self.coord.claim_grant(rid)),
                    format!("{:?}", self.coord.admitted_settlement(rid)),
                );
                if p.accessors[r as usize] != b {
                    self.viol(format!("rederivable-grants-differ-from-uninterrupted-run:{ctxs}"), json!({"request": r}));
                }
                // and the grants the uninterrupted run actually handed out are the ones re-derived here
                for (x, y, what) in [
                    (p.seen_tok[r as usize].clone(), self.seen.tok[r as usize].clone(), "request-token"),
                    (p.seen_grant[r as usize].clone(), self.seen.grant[r as usize].clone(), "claim-grant"),
                    (p.seen_receipt[r as usize].clone(), self.seen.receipt[r as usize].clone(), "receipt"),
                ] {
                    if let (Some(x), Some(y)) = (x, y) {
                        if x != y {
                            self.viol(format!("{what}-differs-from-the-one-the-uninterrupted-run-returned:{ctxs}"), json!({"request": r}));
                        }
                    }
                }
            }
        }
    }

    /// The uninterrupted run over the committed prefix: the committed lifecycle operations of this
    /// history executed from genesis with no fault and no crash.  A pure function of `self.pure`,
    /// so it is memoised across the whole exploration.
    fn pure_snap(&self) -> std::sync::Arc<PureSnap> {
        let key: String = self.pure.iter().map(|o| o.enc()).collect::<Vec<_>>().join(",");
        if let Some(s) = self.fx.pure_cache.read().unwrap().get(&key) {
            return s.clone();
        }
        let mut p = World::new(self.fx);
        for o in &self.pure {
            p.step(o);
        }
        let mut accessors: [(String, String, String); 2] = Default::default();
        for r in 0..2u8 {
            let rid = self.rid(r);
            accessors[r as usize] = (
                format!("{:?}", p.coord.recorded_request(rid)),
                format!("{:?}", p.coord.claim_grant(rid)),
                format!("{:?}", p.coord.admitted_settlement(rid)),
            );
        }
        let snap = std::sync::Arc::new(PureSnap {
            model: p.model.clone(),
            coord: p.coord.clone(),
            log: p.store.snapshot_pair(),
            accessors,
            seen_tok: p.seen.tok.clone(),
            seen_grant: p.seen.grant.clone(),
            seen_receipt: p.seen.receipt.clone(),
        });
        self.fx.pure_cache.write().unwrap().insert(key, snap.clone());
        snap
    }

    pub fn step(&mut self, op: &Op) {
        self.hist.push(op.clone());
        self.last_store_calls = 0;
        self.last_committed = false;
        self.exec_counter(op);
        match op {
            Op::Request(_) | Op::Claim(..) | Op::Settle(..) => self.do_lifecycle(op, None),
            Op::Fault(inner, k, m) => self.do_lifecycle(inner, Some((*k, *m))),
            Op::Retry(r, a) => self.do_retry(op, *r, *a),
            Op::Observe => {
                let pre = self.coord.clone();
                let pf = self.store.inner.read_frames().len();
                let pc = self.store.inner.commit_count();
                self.do_observe("observe");
                self.outcome("observe:agrees");
                self.check_unchanged(&pre, pf, pc, &[], "observe");
            }
            Op::CrashRecover => self.do_crash_recover(),
        }
        self.top_up();
        // quiescent-state invariants: evaluated whenever the step may have changed anything (a
        // refused / answered step was just verified to have changed nothing, and the state it
        // started from was checked when it was first reached)
        let may_have_changed = self.last_committed || matches!(op, Op::Fault(..) | Op::CrashRecover | Op::Observe) || !self.out.viol.is_empty();
        if self.heavy && (may_have_changed || self.hist.len() <= 1) {
            self.check_state(op);
        }
    }
}
