//! Fixed universe (two requests, two registered adapters) and the operation alphabet.

use warp_core::causal_wal::{
    Lsn, PayloadCodecId, PayloadSchemaId, WalDurabilityMode, WalSegmentId, WalTransactionId,
    WriterEpochId, WriterEpochRequest,
};
use warp_core::external_action::{
    ExternalActionAdapterBindingV1, ExternalActionAdapterIdV1, ExternalActionAdapterRegistryV1,
    ExternalActionBudgetV1, ExternalActionOperationIdV1, ExternalActionRequestV1,
    ExternalActionSettlementKindV1, ExternalActionTransactionContextV1,
};
use warp_core::{Hash, WorldlineId};

pub fn dg(label: &str) -> Hash {
    blake3::hash(label.as_bytes()).into()
}

/// Declared settlement byte budget of both requests (the "declared bounds" of the property).
pub const BUDGET: u64 = 16;
/// The budget of the pass that is running (the main passes use [`BUDGET`]; the ceiling pass uses the
/// v1 ceiling `MAX_EXTERNAL_ACTION_SETTLEMENT_BYTES_V1`).  Passes run one after the other.
static BUDGET_NOW: std::sync::atomic::AtomicU64 = std::sync::atomic::AtomicU64::new(BUDGET);
pub fn budget() -> u64 {
    BUDGET_NOW.load(std::sync::atomic::Ordering::Relaxed)
}
pub fn set_budget(b: u64) {
    BUDGET_NOW.store(b, std::sync::atomic::Ordering::Relaxed);
}
/// Exactly `budget()` bytes: the label truncated, or padded with a fill byte.
fn fit(mut v: Vec<u8>) -> Vec<u8> {
    v.resize(budget() as usize, 0x5a);
    v
}

pub struct Fx {
    pub reqs: [ExternalActionRequestV1; 2],
    /// A request of a different operation family that is never recorded; only used to mint an
    /// authorization whose operation does not match.
    pub foreign: ExternalActionRequestV1,
    pub registry: ExternalActionAdapterRegistryV1,
    pub adapter_a: ExternalActionAdapterIdV1,
    pub adapter_b: ExternalActionAdapterIdV1,
    pub adapter_x: ExternalActionAdapterIdV1,
    /// memo of uninterrupted runs keyed by their (committed) operation sequence
    pub pure_cache: std::sync::RwLock<std::collections::HashMap<String, std::sync::Arc<crate::worldx::PureSnap>>>,
}

fn mk_request(op: &str, label: &str) -> ExternalActionRequestV1 {
    ExternalActionRequestV1::new(
        WorldlineId::from_bytes([17; 32]),
        ExternalActionOperationIdV1::from_hash(dg(op)),
        dg("c17.input-schema"),
        dg("c17.settlement-schema"),
        dg("c17.scope"),
        dg(&format!("basis:{label}")),
        ExternalActionBudgetV1 {
            max_settlement_bytes: budget(),
            max_attempts: 1,
        },
        dg(&format!("input:{label}")),
        dg("c17.reconcile"),
    )
    .expect("request fixture")
}

impl Fx {
    pub fn new() -> Fx {
        let adapter_a = ExternalActionAdapterIdV1::from_hash(dg("adapter:A"));
        let adapter_b = ExternalActionAdapterIdV1::from_hash(dg("adapter:B"));
        let adapter_x = ExternalActionAdapterIdV1::from_hash(dg("adapter:unregistered"));
        let op = ExternalActionOperationIdV1::from_hash(dg("c17.op@1"));
        let other = ExternalActionOperationIdV1::from_hash(dg("c17.other-op@1"));
        let registry = ExternalActionAdapterRegistryV1::new([
            ExternalActionAdapterBindingV1 {
                adapter_id: adapter_a,
                operation_id: op,
                authority_scope_digest: dg("c17.scope"),
            },
            ExternalActionAdapterBindingV1 {
                adapter_id: adapter_b,
                operation_id: op,
                authority_scope_digest: dg("c17.scope"),
            },
            ExternalActionAdapterBindingV1 {
                adapter_id: adapter_a,
                operation_id: other,
                authority_scope_digest: dg("c17.scope"),
            },
        ]);
        Fx {
            reqs: [mk_request("c17.op@1", "r0"), mk_request("c17.op@1", "r1")],
            foreign: mk_request("c17.other-op@1", "foreign"),
            registry,
            adapter_a,
            adapter_b,
            adapter_x,
            pure_cache: Default::default(),
        }
    }
}

pub fn epoch_id() -> WriterEpochId {
    WriterEpochId::from_hash(dg("c17:epoch"))
}

pub fn epoch_request() -> WriterEpochRequest {
    WriterEpochRequest {
        epoch_id: epoch_id(),
        storage_fencing_token: dg("c17:fencing"),
        process_identity: dg("c17:process"),
        host_identity: dg("c17:host"),
        started_at_lsn: Lsn::from_raw(0),
        previous_epoch_id: None,
        previous_epoch_final_commit_digest: None,
        lease_or_lock_evidence: dg("c17:lease"),
    }
}

pub fn context(label: &str, mode: WalDurabilityMode, epoch: WriterEpochId) -> ExternalActionTransactionContextV1 {
    ExternalActionTransactionContextV1 {
        writer_epoch: epoch,
        segment_id: WalSegmentId::from_raw(1),
        transaction_id: WalTransactionId::from_hash(dg(label)),
        durability_mode: mode,
        payload_codec_id: PayloadCodecId::from_hash(dg("c17:codec")),
        payload_schema_id: PayloadSchemaId::from_hash(dg("c17:schema")),
        payload_schema_version: 1,
        canonical_encoding_version: 1,
        digest_domain: dg("c17:domain"),
    }
}

pub fn kind_of(code: u8) -> ExternalActionSettlementKindV1 {
    match code {
        1 => ExternalActionSettlementKindV1::Succeeded,
        2 => ExternalActionSettlementKindV1::Rejected,
        3 => ExternalActionSettlementKindV1::Failed,
        _ => ExternalActionSettlementKindV1::OutcomeUnknown,
    }
}

/// Canonical result bytes of the valid settlement of request `r` with kind `code`: exactly BUDGET
/// bytes, so the admitted case sits on the boundary of the declared bound.
pub fn ok_bytes(r: u8, code: u8) -> Vec<u8> {
    fit(format!("r{r}k{code}:result-okokokok").into_bytes())
}
pub fn different_bytes(r: u8, code: u8) -> Vec<u8> {
    fit(format!("r{r}k{code}:DIFFERENT-BYTES").into_bytes())
}
pub fn oversize_bytes(r: u8, code: u8) -> Vec<u8> {
    let mut v = ok_bytes(r, code);
    v.push(b'!');
    v
}

#[derive(Clone, Copy, Debug, PartialEq, Eq, Hash, PartialOrd, Ord)]
pub enum ClaimArg {
    OkA,
    OkB,
    UnregisteredAdapter,
    ForeignOpAuth,
    ForeignReqAuth,
    StaleBasis,
    ZeroLease,
    OrdinalOne,
}
impl ClaimArg {
    pub const ALL: [ClaimArg; 8] = [
        ClaimArg::OkA,
        ClaimArg::OkB,
        ClaimArg::UnregisteredAdapter,
        ClaimArg::ForeignOpAuth,
        ClaimArg::ForeignReqAuth,
        ClaimArg::StaleBasis,
        ClaimArg::ZeroLease,
        ClaimArg::OrdinalOne,
    ];
}

#[derive(Clone, Copy, Debug, PartialEq, Eq, Hash, PartialOrd, Ord)]
pub enum SettleArg {
    Ok,
    WrongAttempt,
    Oversize,
    WrongSchema,
    WrongDigest,
}
impl SettleArg {
    pub const ALL: [SettleArg; 5] = [
        SettleArg::Ok,
        SettleArg::WrongAttempt,
        SettleArg::Oversize,
        SettleArg::WrongSchema,
        SettleArg::WrongDigest,
    ];
}

#[derive(Clone, Copy, Debug, PartialEq, Eq, Hash, PartialOrd, Ord)]
pub enum RetryArg {
    Same,
    Different,
    WrongSchema,
}
impl RetryArg {
    pub const ALL: [RetryArg; 3] = [RetryArg::Same, RetryArg::Different, RetryArg::WrongSchema];
}

#[derive(Clone, Copy, Debug, PartialEq, Eq, Hash, PartialOrd, Ord)]
pub enum Mode {
    /// the store call returns an error without persisting; the process survives
    Fail,
    /// the process dies at the call: nothing persisted by it or after it
    Crash,
    /// the call persists, then the process dies before the acknowledgement
    AckLost,
}

#[derive(Clone, Debug, PartialEq, Eq, Hash)]
pub enum Op {
    Request(u8),
    Claim(u8, ClaimArg),
    Settle(u8, u8, SettleArg),
    Retry(u8, RetryArg),
    Observe,
    CrashRecover,
    /// inner lifecycle op executed with a fault at mutating store call `k`, then recovery
    Fault(Box<Op>, u8, Mode),
}

impl Op {
    pub fn is_lifecycle(&self) -> bool {
        matches!(self, Op::Request(_) | Op::Claim(..) | Op::Settle(..))
    }
    pub fn enc(&self) -> String {
        match self {
            Op::Request(r) => format!("request:{r}"),
            Op::Claim(r, a) => format!("claim:{r}:{a:?}"),
            Op::Settle(r, k, a) => format!("settle:{r}:{k}:{a:?}"),
            Op::Retry(r, a) => format!("retry:{r}:{a:?}"),
            Op::Observe => "observe".into(),
            Op::CrashRecover => "crash-recover".into(),
            Op::Fault(o, k, m) => format!("fault:{k}:{m:?}:{}", o.enc()),
        }
    }
    pub fn dec(s: &str) -> Option<Op> {
        let p: Vec<&str> = s.split(':').collect();
        match p.first().copied()? {
            "request" => Some(Op::Request(p.get(1)?.parse().ok()?)),
            "claim" => {
                let a = *ClaimArg::ALL.iter().find(|a| format!("{a:?}") == *p.get(2).unwrap_or(&""))?;
                Some(Op::Claim(p.get(1)?.parse().ok()?, a))
            }
            "settle" => {
                let a = *SettleArg::ALL.iter().find(|a| format!("{a:?}") == *p.get(3).unwrap_or(&""))?;
                Some(Op::Settle(p.get(1)?.parse().ok()?, p.get(2)?.parse().ok()?, a))
            }
            "retry" => {
                let a = *RetryArg::ALL.iter().find(|a| format!("{a:?}") == *p.get(2).unwrap_or(&""))?;
                Some(Op::Retry(p.get(1)?.parse().ok()?, a))
            }
            "observe" => Some(Op::Observe),
            "crash-recover" => Some(Op::CrashRecover),
            "fault" => {
                let k: u8 = p.get(1)?.parse().ok()?;
                let m = match *p.get(2)? {
                    "Fail" => Mode::Fail,
                    "Crash" => Mode::Crash,
                    "AckLost" => Mode::AckLost,
                    _ => return None,
                };
                let inner = Op::dec(&p[3..].join(":"))?;
                Some(Op::Fault(Box::new(inner), k, m))
            }
            _ => None,
        }
    }
    /// class of the op without the request index (for signatures)
    pub fn class(&self) -> String {
        match self {
            Op::Request(_) => "request".into(),
            Op::Claim(_, a) => format!("claim({a:?})"),
            Op::Settle(_, k, a) => format!("settle(kind{k},{a:?})"),
            Op::Retry(_, a) => format!("retry({a:?})"),
            Op::Observe => "observe".into(),
            Op::CrashRecover => "crash-recover".into(),
            Op::Fault(o, k, m) => format!("fault(call{k},{m:?})/{}", o.class()),
        }
    }
    pub fn kind_name(&self) -> &'static str {
        match self {
            Op::Request(_) => "request",
            Op::Claim(..) => "claim",
            Op::Settle(..) => "settle",
            Op::Retry(..) => "retry",
            Op::Observe => "observe",
            Op::CrashRecover => "crash-recover",
            Op::Fault(..) => "fault",
        }
    }
    pub fn req(&self) -> Option<u8> {
        match self {
            Op::Request(r) | Op::Claim(r, _) | Op::Settle(r, _, _) | Op::Retry(r, _) => Some(*r),
            Op::Fault(o, _, _) => o.req(),
            _ => None,
        }
    }
}

/// Fault-free operation menu (fault variants are derived per transition from the number of store
/// calls the fault-free execution makes).
pub fn plain_menu() -> Vec<Op> {
    let mut v = Vec::new();
    for r in 0..2u8 {
        v.push(Op::Request(r));
        for a in ClaimArg::ALL {
            v.push(Op::Claim(r, a));
        }
        for k in 1..=4u8 {
            for a in SettleArg::ALL {
                v.push(Op::Settle(r, k, a));
            }
        }
        for a in RetryArg::ALL {
            v.push(Op::Retry(r, a));
        }
    }
    v.push(Op::Observe);
    v.push(Op::CrashRecover);
    v
}

/// Alphabet of the ceiling pass (request budget = the v1 ceiling, valid result exactly that long):
/// one request id, the lawful path, the oversize refusal, retries and crash-recover.
pub fn ceiling_menu() -> Vec<Op> {
    vec![
        Op::Request(0),
        Op::Claim(0, ClaimArg::OkA),
        Op::Settle(0, 1, SettleArg::Ok),
        Op::Settle(0, 1, SettleArg::Oversize),
        Op::Retry(0, RetryArg::Same),
        Op::Retry(0, RetryArg::Different),
        Op::CrashRecover,
    ]
}

/// Reduced alphabet for the deepest thorough phase: every op kind, the lawful classes, one refusal
/// class per op, two settlement kinds.
pub fn core_menu() -> Vec<Op> {
    let mut v = Vec::new();
    for r in 0..2u8 {
        v.push(Op::Request(r));
        for a in [ClaimArg::OkA, ClaimArg::OkB, ClaimArg::StaleBasis] {
            v.push(Op::Claim(r, a));
        }
        for k in [1u8, 4u8] {
            for a in [SettleArg::Ok, SettleArg::WrongAttempt] {
                v.push(Op::Settle(r, k, a));
            }
        }
        for a in [RetryArg::Same, RetryArg::Different] {
            v.push(Op::Retry(r, a));
        }
    }
    v.push(Op::CrashRecover);
    v
}
