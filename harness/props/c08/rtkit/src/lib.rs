//! Shared helpers for C08 (ingress) and C09 (scheduler-pass atomicity): custom runtime
//! construction (registration order, per-head policies), ticketed ingress staging, a pass runner
//! that classifies `Ok / Err / panic`, and `Debug`-fingerprint surgery (top-level field split of
//! `WorldlineRuntime`, removal of documented arrival-order artefacts).
//!
//! The `Debug` output of `WorldlineRuntime` / `ProvenanceService` is the only *complete* view of the
//! private runtime state (every collection in it is a `BTreeMap`/`BTreeSet`/`Vec`, so the text is a
//! deterministic function of the state).  All surgery below is structural (balanced brackets,
//! field names), and every caller checks the number of replacements it expects.

use std::collections::{BTreeMap, HashMap};

pub use rules::fixture::{
    base_state, fresh_engine, other_kind, prog_kind, wl, worldline_state, Rt,
};
use warp_core::{
    make_head_id, Engine, FootprintViolation, FootprintViolationWithPanic, Hash, InboxAddress,
    InboxPolicy, IngressEnvelope, IngressTarget, IntentSubmissionDisposition, NodeId,
    OpticAdmissionTicket, OpticArtifactHandle, PlaybackMode, ProvenanceService, RuntimeError,
    SchedulerCoordinator, SchedulerKind, StepRecord, TicketedRuntimeIngressAuthority,
    TicketedRuntimeIngressDisposition, WorldlineId, WorldlineRuntime, WriterHead, WriterHeadKey,
    OPTIC_ADMISSION_TICKET_KIND, OPTIC_ARTIFACT_HANDLE_KIND,
};

/// Name of the public inbox served by head `h1` of every worldline.
pub const NAMED: &str = "named";

/// Key of head `h<h>` on worldline `wl(w)`.
pub fn head_key(w: u8, h: u8) -> WriterHeadKey {
    WriterHeadKey {
        worldline_id: wl(w),
        head_id: make_head_id(&format!("h{h}")),
    }
}

/// Build a runtime with `worldlines` worldlines (`wl(1)`..) and the given heads, registered in the
/// given order.  `(w, h, policy)`: head `h<h>` on `wl(w)`; `h0` is the default writer, `h1` serves
/// the public inbox `"named"`, other heads are reachable by exact key only.  `Rt.heads` is the
/// registration order.
pub fn build_rt(worldlines: u8, heads: &[(u8, u8, InboxPolicy)]) -> Rt {
    let mut runtime = WorldlineRuntime::new();
    for w in 1..=worldlines {
        runtime
            .register_worldline(wl(w), worldline_state(&base_state()))
            .expect("register worldline");
    }
    let mut keys = Vec::new();
    for (w, h, policy) in heads {
        let key = head_key(*w, *h);
        runtime
            .register_writer_head(WriterHead::with_routing(
                key,
                PlaybackMode::Play,
                policy.clone(),
                if *h == 1 {
                    Some(InboxAddress(NAMED.to_owned()))
                } else {
                    None
                },
                *h == 0,
            ))
            .expect("register head");
        keys.push(key);
    }
    let mut provenance = ProvenanceService::new();
    for (id, frontier) in runtime.worldlines().iter() {
        provenance
            .register_worldline(*id, frontier.state())
            .expect("register provenance");
    }
    Rt {
        runtime,
        provenance,
        heads: keys,
    }
}

// ---------------------------------------------------------------------------------------------
// Ticketed ingress
// ---------------------------------------------------------------------------------------------

/// An admission ticket whose `ticket_digest` is `digest` (other fields derived from it).
pub fn ticket(digest: Hash) -> OpticAdmissionTicket {
    let tag = mc::hex(&digest[..4]);
    OpticAdmissionTicket {
        kind: OPTIC_ADMISSION_TICKET_KIND.to_owned(),
        artifact_handle: OpticArtifactHandle {
            kind: OPTIC_ARTIFACT_HANDLE_KIND.to_owned(),
            id: format!("verif-ticketed-{tag}"),
        },
        artifact_hash: format!("artifact-hash-{tag}"),
        operation_id: format!("operation-{tag}"),
        requirements_digest: format!("requirements-{tag}"),
        canonical_variables_digest: digest[..4].to_vec(),
        basis_request_digest: mc::h(&[&digest[..], b"basis"].concat()),
        aperture_request_digest: mc::h(&[&digest[..], b"aperture"].concat()),
        budget_request_digest: mc::h(&[&digest[..], b"budget"].concat()),
        law_witness_digest: mc::h(&[&digest[..], b"law"].concat()),
        ticket_digest: digest,
    }
}

/// Witness the envelope (`submit_intent`) and stage it into runtime ingress under `ticket_digest`
/// (`ingest_ticketed_invocation`).  Returns the submission id and the staging disposition.
pub fn stage_ticketed(
    runtime: &mut WorldlineRuntime,
    env: IngressEnvelope,
    ticket_digest: Hash,
) -> Result<(Hash, TicketedRuntimeIngressDisposition), RuntimeError> {
    let sid = match runtime.submit_intent(env.clone())? {
        IntentSubmissionDisposition::Accepted { submission_id, .. }
        | IntentSubmissionDisposition::Duplicate { submission_id, .. } => submission_id,
    };
    let t = ticket(ticket_digest);
    let d = runtime.ingest_ticketed_invocation(
        &TicketedRuntimeIngressAuthority::assume_runtime_owner(),
        sid,
        &t,
        env,
    )?;
    Ok((sid, d))
}

// ---------------------------------------------------------------------------------------------
// Pass runner
// ---------------------------------------------------------------------------------------------

/// What unwound out of `super_tick`.
#[derive(Debug, Clone, PartialEq, Eq)]
pub struct PanicInfo {
    /// `"str" | "string" | "violation" | "violation_with_panic" | "opaque"`.
    pub payload: &'static str,
    pub msg: String,
}

/// Result of one scheduler pass.
#[derive(Debug)]
pub enum PassOutcome {
    Ok(Vec<StepRecord>),
    Err(RuntimeError),
    Panic(PanicInfo),
}

impl PassOutcome {
    /// Short stable label for histograms / signatures.
    pub fn label(&self) -> String {
        match self {
            PassOutcome::Ok(r) => format!("ok:{}", r.len()),
            PassOutcome::Err(e) => format!("err:{}", error_tag(e)),
            PassOutcome::Panic(p) => format!("panic:{}", p.payload),
        }
    }
}

/// Variant name of a `RuntimeError` (first identifier of its `Debug`), with the nested engine /
/// provenance variant appended.
pub fn error_tag(e: &RuntimeError) -> String {
    let s = format!("{e:?}");
    let ident = |t: &str| {
        t.chars()
            .take_while(|c| c.is_alphanumeric() || *c == '_')
            .collect::<String>()
    };
    let outer = ident(&s);
    match e {
        RuntimeError::Engine(_) | RuntimeError::Provenance(_) => {
            let inner = s.get(outer.len() + 1..).map(ident).unwrap_or_default();
            format!("{outer}:{inner}")
        }
        _ => outer,
    }
}

/// One pass plus engine-cleanliness observation.
pub struct PassRun {
    pub outcome: PassOutcome,
    /// The (fresh) engine's observable state after the pass equals its state before the pass.
    pub engine_clean: bool,
}

/// Run one real scheduler pass on a fresh engine, catching unwinds.
pub fn run_pass(rt: &mut Rt, kind: SchedulerKind) -> PassRun {
    let mut engine = fresh_engine(kind, 1);
    run_pass_on(rt, &mut engine)
}

/// Same on a caller-owned engine.
pub fn run_pass_on(rt: &mut Rt, engine: &mut Engine) -> PassRun {
    let before = format!("{:?}", engine.state());
    let res = std::panic::catch_unwind(std::panic::AssertUnwindSafe(|| {
        SchedulerCoordinator::super_tick(&mut rt.runtime, &mut rt.provenance, engine)
    }));
    let outcome = match res {
        Ok(Ok(r)) => PassOutcome::Ok(r),
        Ok(Err(e)) => PassOutcome::Err(e),
        Err(p) => {
            let info = if let Some(v) = p.downcast_ref::<FootprintViolation>() {
                PanicInfo {
                    payload: "violation",
                    msg: format!("{:?}/{}", v.kind, v.op_kind),
                }
            } else if let Some(v) = p.downcast_ref::<FootprintViolationWithPanic>() {
                PanicInfo {
                    payload: "violation_with_panic",
                    msg: format!("{:?}/{}", v.violation.kind, v.violation.op_kind),
                }
            } else if let Some(s) = p.downcast_ref::<&'static str>() {
                PanicInfo {
                    payload: "str",
                    msg: (*s).to_string(),
                }
            } else if let Some(s) = p.downcast_ref::<String>() {
                PanicInfo {
                    payload: "string",
                    msg: s.clone(),
                }
            } else {
                PanicInfo {
                    payload: "opaque",
                    msg: String::new(),
                }
            };
            PassOutcome::Panic(info)
        }
    };
    let after = format!("{:?}", engine.state());
    PassRun {
        outcome,
        engine_clean: before == after,
    }
}

// ---------------------------------------------------------------------------------------------
// Debug-text surgery
// ---------------------------------------------------------------------------------------------

/// Index just past the value that starts at `start`: scans to the first `,` or closing bracket at
/// nesting depth 0 (string literals are skipped).
pub fn balanced_end(s: &str, start: usize) -> usize {
    let b = s.as_bytes();
    let mut depth = 0i32;
    let mut i = start;
    let mut in_str = false;
    while i < b.len() {
        let c = b[i];
        if in_str {
            if c == b'\\' {
                i += 2;
                continue;
            }
            if c == b'"' {
                in_str = false;
            }
            i += 1;
            continue;
        }
        match c {
            b'"' => in_str = true,
            b'{' | b'[' | b'(' => depth += 1,
            b'}' | b']' | b')' => {
                if depth == 0 {
                    return i;
                }
                depth -= 1;
            }
            b',' if depth == 0 => return i,
            _ => {}
        }
        i += 1;
    }
    b.len()
}

/// Top-level fields `(name, value)` of a struct `Debug` rendering `Name { a: v, b: v }`.
pub fn debug_fields(s: &str) -> Option<Vec<(&str, &str)>> {
    let open = s.find(" { ")?;
    let mut out = Vec::new();
    let mut i = open + 3;
    loop {
        let end = balanced_end(s, i);
        let piece = s.get(i..end)?.trim();
        if !piece.is_empty() {
            let colon = piece.find(": ")?;
            out.push((&piece[..colon], &piece[colon + 2..]));
        }
        match s.as_bytes().get(end) {
            Some(b',') => i = end + 1,
            _ => break,
        }
    }
    Some(out)
}

/// Fields of `WorldlineRuntime` that hold scheduler fault evidence (read off the struct
/// definition in coordinator.rs).
pub const FAULT_FIELDS: [&str; 4] = [
    "scheduler_faults",
    "faulted_heads",
    "runtime_fault",
    "next_scheduler_fault_generation",
];
/// Derived cache of "runnable = admitted, unpaused, not quarantined" — a function of head modes and
/// fault evidence; compared separately against its definition.
pub const RUNNABLE_FIELD: &str = "runnable";

/// The runtime's `Debug` split into (everything except fault evidence and the runnable cache,
/// fault evidence, runnable cache).
pub struct RuntimeView {
    pub rest: String,
    pub fault: String,
    pub runnable: String,
    pub field_count: usize,
}

/// Split a runtime's `Debug` text.  `None` when the text does not have the expected shape.
pub fn runtime_view(runtime: &WorldlineRuntime) -> Option<RuntimeView> {
    let s = format!("{runtime:?}");
    let fields = debug_fields(&s)?;
    let mut rest = String::new();
    let mut fault = String::new();
    let mut runnable = None;
    let mut seen_fault = 0;
    for (k, v) in &fields {
        if FAULT_FIELDS.contains(k) {
            fault.push_str(k);
            fault.push('=');
            fault.push_str(v);
            fault.push(';');
            seen_fault += 1;
        } else if *k == RUNNABLE_FIELD {
            runnable = Some((*v).to_string());
        } else {
            rest.push_str(k);
            rest.push('=');
            rest.push_str(v);
            rest.push(';');
        }
    }
    if seen_fault != FAULT_FIELDS.len() {
        return None;
    }
    Some(RuntimeView {
        rest,
        fault,
        runnable: runnable?,
        field_count: fields.len(),
    })
}

/// Expected `Debug` text of the runnable cache for the given keys.
pub fn runnable_text(keys: &[WriterHeadKey]) -> String {
    format!("RunnableWriterSet {{ keys: {keys:?} }}")
}

/// Table from the `Debug` text of an `IngressTarget` to the canonical text of the head it resolves
/// to in a runtime built by [`build_rt`] (DefaultWriter → `h0`, InboxAddress "named" → `h1`).
pub fn route_table(worldlines: u8, heads: &[WriterHeadKey]) -> HashMap<String, String> {
    let mut m = HashMap::new();
    let canon = |k: &WriterHeadKey| format!("ROUTE<{k:?}>");
    for w in 1..=worldlines {
        m.insert(
            format!(
                "{:?}",
                IngressTarget::DefaultWriter {
                    worldline_id: wl(w)
                }
            ),
            canon(&head_key(w, 0)),
        );
        m.insert(
            format!(
                "{:?}",
                IngressTarget::InboxAddress {
                    worldline_id: wl(w),
                    inbox: InboxAddress(NAMED.to_owned())
                }
            ),
            canon(&head_key(w, 1)),
        );
    }
    for k in heads {
        m.insert(format!("{:?}", IngressTarget::ExactHead { key: *k }), canon(k));
    }
    m
}

/// Counters of what [`canonicalize_arrival`] replaced.
#[derive(Debug, Default, Clone, Copy, PartialEq, Eq)]
pub struct Replaced {
    pub generations: usize,
    pub targets: usize,
    pub unknown_targets: usize,
}

const GEN_PAT: &str = "submission_generation: IngressSubmissionGeneration(";
const TARGET_PAT: &str = " target: ";

/// Remove the two documented arrival-order artefacts from a `Debug` text:
/// * `IntentSubmissionRecord.submission_generation` (per-record intake counter) → `_`
///   (the runtime-level `next_submission_generation` counter is kept);
/// * the stored *form* of an envelope's `target` → the head it resolves to.
pub fn canonicalize_arrival(s: &str, routes: &HashMap<String, String>) -> (String, Replaced) {
    let mut out = String::with_capacity(s.len());
    let mut rep = Replaced::default();
    let mut i = 0usize;
    loop {
        let g = s[i..].find(GEN_PAT).map(|p| p + i);
        let t = s[i..].find(TARGET_PAT).map(|p| p + i);
        let (pos, is_gen) = match (g, t) {
            (None, None) => break,
            (Some(g), None) => (g, true),
            (None, Some(t)) => (t, false),
            (Some(g), Some(t)) => {
                if g < t {
                    (g, true)
                } else {
                    (t, false)
                }
            }
        };
        if is_gen {
            let vstart = pos + GEN_PAT.len();
            let vend = s[vstart..].find(')').map(|p| p + vstart).unwrap_or(s.len());
            let is_next = pos >= 5 && &s[pos - 5..pos] == "next_";
            out.push_str(&s[i..vstart]);
            if is_next {
                out.push_str(&s[vstart..vend]);
            } else {
                out.push('_');
                rep.generations += 1;
            }
            i = vend;
        } else {
            let vstart = pos + TARGET_PAT.len();
            let vend = balanced_end(s, vstart);
            out.push_str(&s[i..vstart]);
            match routes.get(&s[vstart..vend]) {
                Some(c) => {
                    out.push_str(c);
                    rep.targets += 1;
                }
                None => {
                    out.push_str(&s[vstart..vend]);
                    rep.unknown_targets += 1;
                }
            }
            i = vend;
        }
    }
    out.push_str(&s[i..]);
    (out, rep)
}

// ---------------------------------------------------------------------------------------------
// Small read-back helpers (public API only)
// ---------------------------------------------------------------------------------------------

/// Bytes of the content-addressed ingress event node `NodeId(ingress_id)` in a worldline's root
/// store (`None` when the node does not exist; `Some(None)` when it has no atom attachment).
pub fn event_node(
    runtime: &WorldlineRuntime,
    worldline: &WorldlineId,
    ingress_id: &Hash,
) -> Option<Option<Vec<u8>>> {
    let frontier = runtime.worldlines().get(worldline)?;
    let st = frontier.state();
    let store = st.store(&st.root().warp_id)?;
    store.node(&NodeId(*ingress_id))?;
    Some(match store.node_attachment(&NodeId(*ingress_id)) {
        Some(warp_core::AttachmentValue::Atom(a)) => Some(a.bytes.to_vec()),
        _ => None,
    })
}

/// `(frontier tick, state root)` of every worldline.
pub fn frontier_summary(runtime: &WorldlineRuntime) -> BTreeMap<WorldlineId, (u64, Hash)> {
    runtime
        .worldlines()
        .iter()
        .map(|(id, f)| (*id, (f.frontier_tick().as_u64(), f.state().state_root())))
        .collect()
}

/// Pending count of every head (registry order = canonical key order).
pub fn pending_summary(runtime: &WorldlineRuntime) -> Vec<(WriterHeadKey, usize)> {
    runtime
        .heads()
        .iter()
        .map(|(k, h)| (*k, h.inbox().pending_count()))
        .collect()
}

#[cfg(test)]
mod tests {
    use super::*;
    #[test]
    fn fields_split() {
        let f = debug_fields("X { a: [1, 2], b: Y { c: \"}{\" }, d: None }").unwrap();
        assert_eq!(f, vec![("a", "[1, 2]"), ("b", "Y { c: \"}{\" }"), ("d", "None")]);
    }
}
