//! Property check C08 — ingress is content-addressed, idempotent and order-free.
//!
//! Three enumerations, all on the real code:
//!
//! 1. `identity`: over kinds × byte strings × causal-parent sequences (every ordering / duplication
//!    of ≤3 parents) × target forms: `ingress_id` equal ⇔ (kind, bytes, canonical parent set) equal.
//! 2. `inbox`: explicit-state BFS over the real `HeadInbox` (ops: ingest, admit, set_policy — the only
//!    place a policy *change* is reachable: `WorldlineRuntime` has no public policy setter) against a
//!    reference model, with all permutations of every ≤3-subset of envelopes compared in every state.
//! 3. `runtime`: explicit-state BFS over the real `WorldlineRuntime` + `ProvenanceService` (cloned as
//!    state, fresh `Engine` per pass) for a list of configurations (worldlines, per-head inbox policy
//!    fixed at `WriterHead` construction, routing of the 4 intents), ops = ingest(intent, form) / pass /
//!    poison (a failing program on another head, forcing a rolled-back pass).  Every transition is
//!    compared with a reference model (`Model`: per-head pending / committed sets, budgets, kind
//!    filter, quarantine).  In EVERY visited state, for every multiset X of submissions (bounded
//!    size, retry multiplicity ≤2, retries using the other target form) ALL distinct permutations of
//!    X are applied from the state; the end states must be equal on the full fingerprint minus the
//!    two arrival-order artefacts, and the following pass must produce equal StepRecords, provenance
//!    entries (receipts, patches) and end states.

use std::collections::{BTreeMap, BTreeSet, HashMap};
use std::sync::Mutex;

use mc::{json, Level, Report, Value};
use rayon::prelude::*;
use rtkit::*;
use rules::{Program, Step};
use warp_core::{
    CausalTickReceiptRef, GlobalTick, Hash, HeadInbox, InboxAddress, InboxPolicy,
    IngressCausalParent, IngressDisposition, IngressEnvelope, IngressPayload, IngressTarget,
    IntentKind, ProvenanceStore, RuntimeError, SchedulerFaultScope, SchedulerKind, WorldlineTick,
    WriterHeadKey,
};

// ---------------------------------------------------------------------------------------------
// Alphabet
// ---------------------------------------------------------------------------------------------

/// The 4 intents: two kinds, programs writing distinct slots (a0 and b1 conflict on n1's
/// attachment, so a batch holding both has a lawful loser).
fn intent(i: usize) -> (IntentKind, Program) {
    match i {
        0 => (prog_kind(), Program::new(vec![Step::SetNodeAtt { n: 1, v: 1 }])),
        1 => (prog_kind(), Program::new(vec![Step::SetNodeAtt { n: 2, v: 2 }])),
        2 => (other_kind(), Program::new(vec![Step::SetEdgeAtt { e: 0, v: 3 }])),
        _ => (other_kind(), Program::new(vec![Step::SetNodeAtt { n: 1, v: 5 }])),
    }
}
const INTENT_NAMES: [&str; 4] = ["a0", "a1", "b0", "b1"];

/// The failing program: deletes n1, which has the incident edge e0 (typed `EngineError`).
fn poison_program() -> Program {
    Program::new(vec![Step::DeleteNodeUnchecked { n: 1 }, Step::ReadNode { n: 2 }])
}

#[derive(Clone, Copy, Debug, PartialEq, Eq, PartialOrd, Ord, Hash)]
enum Pol {
    AcceptAll,
    /// KindFilter { prog_kind } — rejects b0, b1
    KindFilter,
    Budgeted(u32),
}
impl Pol {
    fn real(self) -> InboxPolicy {
        match self {
            Pol::AcceptAll => InboxPolicy::AcceptAll,
            Pol::KindFilter => InboxPolicy::KindFilter([prog_kind()].into_iter().collect()),
            Pol::Budgeted(n) => InboxPolicy::Budgeted { max_per_tick: n },
        }
    }
    fn accepts(self, kind: IntentKind) -> bool {
        match self {
            Pol::KindFilter => kind == prog_kind(),
            _ => true,
        }
    }
    fn budget(self) -> usize {
        match self {
            Pol::Budgeted(n) => n as usize,
            _ => usize::MAX,
        }
    }
}
const POLICIES: [Pol; 5] = [
    Pol::AcceptAll,
    Pol::KindFilter,
    Pol::Budgeted(0),
    Pol::Budgeted(1),
    Pol::Budgeted(2),
];

/// A submission symbol: intent index (4 = poison) and target form (0 = public form: DefaultWriter for
/// h0 / InboxAddress "named" for h1; 1 = ExactHead).
#[derive(Clone, Copy, Debug, PartialEq, Eq, PartialOrd, Ord, Hash)]
struct Sym {
    intent: u8,
    form: u8,
}

#[derive(Clone, Debug)]
struct Config {
    name: String,
    worldlines: u8,
    /// (worldline, head label index 0|1, policy) in registration order
    heads: Vec<(u8, u8, Pol)>,
    /// intent -> (worldline, head label)
    route: [(u8, u8); 4],
    poison: (u8, u8),
    depth: usize,
    /// operations executed (and checked like any other step) before the search starts: (intent to
    /// ingest in its BFS form, then a pass) pairs — puts committed history under the search root
    prefix_commits: Vec<u8>,
    /// leave the failing ("poison") intent out of the alphabet: the model's rule "a batch that holds
    /// the poison fails the pass" presumes the poison is alone on its head, which a configuration
    /// whose every head also receives honest intents cannot guarantee (the poison may lose a lawful
    /// footprint conflict instead of failing)
    no_poison: bool,
}

impl Config {
    fn target(&self, w: u8, h: u8, form: u8) -> IngressTarget {
        if form == 1 {
            IngressTarget::ExactHead {
                key: head_key(w, h),
            }
        } else if h == 0 {
            IngressTarget::DefaultWriter {
                worldline_id: wl(w),
            }
        } else {
            IngressTarget::InboxAddress {
                worldline_id: wl(w),
                inbox: InboxAddress(NAMED.to_owned()),
            }
        }
    }
    fn envelope(&self, s: Sym) -> (IngressEnvelope, WriterHeadKey, IntentKind) {
        if s.intent == 4 {
            let (w, h) = self.poison;
            let env = IngressEnvelope::local_intent(
                self.target(w, h, s.form),
                prog_kind(),
                poison_program().to_bytes(),
            );
            (env, head_key(w, h), prog_kind())
        } else {
            let (kind, p) = intent(s.intent as usize);
            let (w, h) = self.route[s.intent as usize];
            let env = IngressEnvelope::local_intent(self.target(w, h, s.form), kind, p.to_bytes());
            (env, head_key(w, h), kind)
        }
    }
    /// Form used by the BFS (and by first occurrences in the reduced multiset alphabet).
    fn f1(&self, intent: u8) -> u8 {
        intent % 2
    }
    fn to_json(&self) -> Value {
        json!({"name": self.name, "worldlines": self.worldlines,
               "heads": self.heads.iter().map(|(w,h,p)| format!("wl{w}.h{h}:{p:?}")).collect::<Vec<_>>(),
               "route": self.route.iter().map(|(w,h)| format!("wl{w}.h{h}")).collect::<Vec<_>>(),
               "poison": format!("wl{}.h{}", self.poison.0, self.poison.1), "depth": self.depth})
    }
}

/// `focus` = label of the head receiving all 4 intents on wl(1); the other head gets the poison.
fn single_wl(focus: u8, pol: Pol, other: Pol, depth: usize) -> Config {
    let o = 1 - focus;
    Config {
        name: format!("1wl:focus=h{focus}:{pol:?}:other={other:?}"),
        worldlines: 1,
        heads: vec![
            (1, 0, if focus == 0 { pol } else { other }),
            (1, 1, if focus == 1 { pol } else { other }),
        ],
        route: [(1, focus); 4],
        poison: (1, o),
        depth,
        prefix_commits: Vec::new(),
        no_poison: false,
    }
}

/// One worldline whose TWO heads both receive honest intents (a0,b0 → h1 ; a1,b1 → h0), so one pass
/// commits two heads of the same worldline (no failing intent in this alphabet, see `no_poison`).
fn split_wl(p1: Pol, p0: Pol, depth: usize) -> Config {
    Config {
        name: format!("1wl:split:h1={p1:?}:h0={p0:?}"),
        worldlines: 1,
        heads: vec![(1, 0, p0), (1, 1, p1)],
        route: [(1, 1), (1, 0), (1, 1), (1, 0)],
        poison: (1, 0),
        depth,
        prefix_commits: Vec::new(),
        no_poison: true,
    }
}

/// Two worldlines: a0,b1 → wl1.h0 ; a1,b0 → wl2.h1 ; poison → wl2.h0 (last head in key order).
fn two_wl(p1: Pol, p2: Pol, depth: usize) -> Config {
    Config {
        name: format!("2wl:wl1.h0={p1:?}:wl2.h1={p2:?}"),
        worldlines: 2,
        heads: vec![
            (2, 1, p2),
            (1, 0, p1),
            (2, 0, Pol::AcceptAll),
            (1, 1, Pol::AcceptAll),
        ],
        route: [(1, 0), (2, 1), (2, 1), (1, 0)],
        poison: (2, 0),
        depth,
        prefix_commits: Vec::new(),
        no_poison: false,
    }
}

// ---------------------------------------------------------------------------------------------
// Reference model
// ---------------------------------------------------------------------------------------------

#[derive(Clone, Debug)]
struct HeadM {
    key: WriterHeadKey,
    pol: Pol,
    pending: BTreeSet<Hash>,
    committed: BTreeSet<Hash>,
    faulted: bool,
    /// ids that were pending while a pass was rolled back
    survived_rollback: BTreeSet<Hash>,
    /// ids left pending by a budgeted pass
    left_by_budget: BTreeSet<Hash>,
}

#[derive(Clone, Debug)]
struct Model {
    /// canonical key order
    heads: Vec<HeadM>,
    /// (head, ingress id) -> (submission id, generation) of the first acceptance
    witnessed: BTreeMap<(WriterHeadKey, Hash), (Hash, u64)>,
    gen: u64,
    poison_id: Hash,
    desync: bool,
}

#[derive(Clone, Copy, Debug, PartialEq, Eq)]
enum Disp {
    Accepted,
    Duplicate,
    Rejected,
}

#[derive(Clone, Debug, PartialEq, Eq)]
enum TickExp {
    Fail { culprit: usize, committed_before: usize },
    Commit(Vec<(usize, Vec<Hash>)>),
}

impl Model {
    fn head_ix(&self, k: &WriterHeadKey) -> usize {
        self.heads.iter().position(|h| h.key == *k).unwrap_or(0)
    }
    fn ingest(&mut self, head: usize, id: Hash, kind: IntentKind) -> Disp {
        let h = &mut self.heads[head];
        if h.committed.contains(&id) {
            return Disp::Duplicate;
        }
        if !h.pol.accepts(kind) {
            return Disp::Rejected;
        }
        if h.pending.contains(&id) {
            return Disp::Duplicate;
        }
        h.pending.insert(id);
        Disp::Accepted
    }
    /// Disposition `ingest` would return, without changing the model.
    fn clone_peek(&self, head: usize, id: Hash, kind: IntentKind) -> Disp {
        let h = &self.heads[head];
        if h.committed.contains(&id) {
            Disp::Duplicate
        } else if !h.pol.accepts(kind) {
            Disp::Rejected
        } else if h.pending.contains(&id) {
            Disp::Duplicate
        } else {
            Disp::Accepted
        }
    }
    fn expect_tick(&self) -> TickExp {
        let mut commits = Vec::new();
        for (i, h) in self.heads.iter().enumerate() {
            if h.faulted {
                continue;
            }
            let batch: Vec<Hash> = h.pending.iter().take(h.pol.budget()).copied().collect();
            if batch.is_empty() {
                continue;
            }
            if batch.contains(&self.poison_id) {
                return TickExp::Fail {
                    culprit: i,
                    committed_before: commits.len(),
                };
            }
            commits.push((i, batch));
        }
        TickExp::Commit(commits)
    }
}

#[derive(Clone)]
struct World {
    rt: Rt,
    m: Model,
}

fn build_world(cfg: &Config) -> World {
    let heads: Vec<(u8, u8, InboxPolicy)> = cfg
        .heads
        .iter()
        .map(|(w, h, p)| (*w, *h, p.real()))
        .collect();
    let rt = build_rt(cfg.worldlines, &heads);
    let mut hm: Vec<HeadM> = cfg
        .heads
        .iter()
        .map(|(w, h, p)| HeadM {
            key: head_key(*w, *h),
            pol: *p,
            pending: BTreeSet::new(),
            committed: BTreeSet::new(),
            faulted: false,
            survived_rollback: BTreeSet::new(),
            left_by_budget: BTreeSet::new(),
        })
        .collect();
    hm.sort_by_key(|h| h.key);
    let poison_id = cfg.envelope(Sym { intent: 4, form: 0 }).0.ingress_id();
    World {
        rt,
        m: Model {
            heads: hm,
            witnessed: BTreeMap::new(),
            gen: 0,
            poison_id,
            desync: false,
        },
    }
}

// ---------------------------------------------------------------------------------------------
// Observation plumbing
// ---------------------------------------------------------------------------------------------

#[derive(Default)]
struct Out {
    viol: Vec<(String, String, Value)>,
    outcomes: BTreeMap<String, u64>,
    counters: BTreeMap<&'static str, u64>,
    nontrivial: Vec<u128>,
    evals: u64,
    traces: u64,
    machinery: Vec<String>,
}
impl Out {
    fn v(&mut self, sig: impl Into<String>, what: impl Into<String>, extra: Value) {
        if self.viol.len() < 64 {
            self.viol.push((sig.into(), what.into(), extra));
        }
    }
    fn c(&mut self, k: &'static str) {
        *self.counters.entry(k).or_default() += 1;
    }
    fn o(&mut self, k: String) {
        *self.outcomes.entry(k).or_default() += 1;
    }
    fn merge(&mut self, o: Out) {
        self.viol.extend(o.viol);
        for (k, n) in o.outcomes {
            *self.outcomes.entry(k).or_default() += n;
        }
        for (k, n) in o.counters {
            *self.counters.entry(k).or_default() += n;
        }
        self.nontrivial.extend(o.nontrivial);
        self.evals += o.evals;
        self.traces += o.traces;
        self.machinery.extend(o.machinery);
    }
}

struct Ctx {
    cfg: Config,
    routes: HashMap<String, String>,
    sched: SchedulerKind,
}

fn full_fp(rt: &Rt) -> (String, String) {
    (format!("{:?}", rt.runtime), format!("{:?}", rt.provenance))
}

/// Fingerprint minus the documented arrival-order artefacts.
fn canon_fp(cx: &Ctx, rt: &Rt, full: &(String, String), out: &mut Out) -> [u8; 32] {
    let (c, rep) = canonicalize_arrival(&full.0, &cx.routes);
    let subs = rt.runtime.witnessed_submission_count();
    let pend: usize = pending_summary(&rt.runtime).iter().map(|x| x.1).sum();
    if rep.unknown_targets != 0 || rep.generations != subs || rep.targets != subs + pend {
        out.machinery.push(format!(
            "canonicalisation replaced {rep:?}, expected generations={subs} targets={}",
            subs + pend
        ));
    }
    // provenance never stores envelopes; checked: nothing to replace there
    let (p, rep2) = canonicalize_arrival(&full.1, &cx.routes);
    if rep2 != Replaced::default() {
        out.v(
            "arrival-order-artefact-leaked-into-provenance",
            format!("{rep2:?}"),
            Value::Null,
        );
    }
    let mut h = blake3::Hasher::new();
    h.update(c.as_bytes());
    h.update(b"\n");
    h.update(p.as_bytes());
    *h.finalize().as_bytes()
}

/// At-most-once ledger recomputed from provenance: every (head, ingress id) admitted by a committed
/// tick, with multiplicity.  Ingress ids are the scope nodes of the tick receipt's entries.
fn ledger(rt: &Rt) -> BTreeMap<(WriterHeadKey, Hash), u32> {
    let mut m = BTreeMap::new();
    for (wid, _) in rt.runtime.worldlines().iter() {
        let n = rt.provenance.len(*wid).unwrap_or(0);
        for t in 0..n {
            if let Ok(e) = rt.provenance.entry(*wid, WorldlineTick::from_raw(t)) {
                if let (Some(hk), Some(rc)) = (e.head_key, e.tick_receipt.as_ref()) {
                    for x in rc.entries() {
                        *m.entry((hk, x.scope.local_id.0)).or_default() += 1;
                    }
                }
            }
        }
    }
    m
}

fn sym_name(s: Sym) -> String {
    format!(
        "{}/{}",
        if s.intent == 4 {
            "poison"
        } else {
            INTENT_NAMES[s.intent as usize]
        },
        if s.form == 0 { "public" } else { "exact" }
    )
}

// ---------------------------------------------------------------------------------------------
// Validated transitions
// ---------------------------------------------------------------------------------------------

/// Ingest one symbol on the real runtime and the model; compare.
fn step_ingest(cx: &Ctx, w: &mut World, s: Sym, check_noop: bool, out: &mut Out) -> Disp {
    let (env, hk, kind) = cx.cfg.envelope(s);
    let id = env.ingress_id();
    let hi = w.m.head_ix(&hk);
    let was_pending = w.m.heads[hi].pending.contains(&id);
    let was_committed = w.m.heads[hi].committed.contains(&id);
    let predicted = w.m.clone_peek(hi, id, kind);
    let before = if check_noop && predicted != Disp::Accepted {
        Some(full_fp(&w.rt))
    } else {
        None
    };
    let want = w.m.ingest(hi, id, kind);
    let got = w.rt.runtime.ingest(env);
    out.evals += 1;
    let tag = sym_name(s);
    let got_disp = match &got {
        Ok(IngressDisposition::Accepted { .. }) => Some(Disp::Accepted),
        Ok(IngressDisposition::Duplicate { .. }) => Some(Disp::Duplicate),
        Err(RuntimeError::RejectedByPolicy(k)) if *k == hk => Some(Disp::Rejected),
        Err(_) => None,
    };
    if got_disp != Some(want) {
        let phase = if was_committed {
            "committed"
        } else if was_pending {
            "pending"
        } else {
            "new"
        };
        out.v(
            format!("ingest-disposition:{phase}:model={want:?}:real={}", got_disp.map(|d| format!("{d:?}")).unwrap_or_else(|| "error".into())),
            format!("{tag}: {got:?}"),
            Value::Null,
        );
        w.m.desync = true;
        return want;
    }
    match (&got, want) {
        (
            Ok(IngressDisposition::Accepted {
                ingress_id,
                head_key,
                submission_id,
                submission_generation,
            }),
            Disp::Accepted,
        ) => {
            w.m.gen += 1;
            if *ingress_id != id || *head_key != hk {
                out.v("ingest-accepted:wrong-identity-or-route", tag.clone(), Value::Null);
            }
            match w.m.witnessed.get(&(hk, id)) {
                // re-acceptance (never reachable here: nothing evicts) keeps the first identity
                Some((sid, _)) => {
                    if sid != submission_id {
                        out.v("ingest-accepted:submission-id-changed", tag.clone(), Value::Null);
                    }
                }
                None => {
                    if submission_generation.as_u64() != w.m.gen {
                        out.v(
                            "ingest-accepted:generation-not-next",
                            format!("{tag}: {} want {}", submission_generation.as_u64(), w.m.gen),
                            Value::Null,
                        );
                    }
                    w.m.witnessed
                        .insert((hk, id), (*submission_id, submission_generation.as_u64()));
                }
            }
        }
        (
            Ok(IngressDisposition::Duplicate {
                ingress_id,
                head_key,
                submission_id,
                submission_generation,
            }),
            Disp::Duplicate,
        ) => {
            // a retry returns the identity of the first acceptance
            let first = w.m.witnessed.get(&(hk, id)).copied();
            if *ingress_id != id
                || *head_key != hk
                || first != Some((*submission_id, submission_generation.as_u64()))
            {
                out.v(
                    "ingest-duplicate:identity-differs-from-first-acceptance",
                    format!("{tag}: {got:?} first={first:?}"),
                    Value::Null,
                );
            }
            if was_committed {
                out.c("duplicate_refused_after_commit");
                if w.m.heads[hi].survived_rollback.contains(&id) {
                    out.c("duplicate_refused_after_commit_that_followed_a_rollback");
                }
            } else {
                out.c("duplicate_refused_while_pending");
                if w.m.heads[hi].survived_rollback.contains(&id) {
                    out.c("duplicate_refused_while_pending_after_rollback");
                }
                if w.m.heads[hi].left_by_budget.contains(&id) {
                    out.c("duplicate_refused_while_left_pending_by_budget");
                }
            }
        }
        (_, Disp::Rejected) => out.c("rejected_by_kind_filter"),
        _ => {}
    }
    if let (Some(b), true) = (before, want != Disp::Accepted) {
        if b != full_fp(&w.rt) {
            out.v(
                format!("ingest-{want:?}:state-changed"),
                format!("{tag}: a refused submission changed ledger state"),
                Value::Null,
            );
        }
    }
    want
}

/// What a pass produced, as compared across permutations.
struct TickObs {
    digest: [u8; 32],
    label: String,
}

/// One real pass + model step + invariants (at-most-once, admitted batch = model's, event nodes).
fn step_tick(cx: &Ctx, w: &mut World, out: &mut Out) -> TickObs {
    let pre = w.rt.clone();
    let exp = w.m.expect_tick();
    let run = run_pass(&mut w.rt, cx.sched);
    out.evals += 1;
    let label = run.outcome.label();
    out.o(format!("pass:{label}"));
    if !run.engine_clean {
        out.v("engine-state-dirty-after-pass", label.clone(), Value::Null);
    }
    let mut recs_dbg = String::new();
    match (&exp, &run.outcome) {
        (TickExp::Commit(commits), PassOutcome::Ok(records)) => {
            recs_dbg = format!("{records:?}");
            let got: Vec<(WriterHeadKey, usize)> =
                records.iter().map(|r| (r.head_key, r.admitted_count)).collect();
            let want: Vec<(WriterHeadKey, usize)> = commits
                .iter()
                .map(|(i, b)| (w.m.heads[*i].key, b.len()))
                .collect();
            if got != want {
                out.v(
                    "pass:committed-heads-or-admitted-counts-differ-from-model",
                    format!("got {got:?} want {want:?}"),
                    Value::Null,
                );
                w.m.desync = true;
            }
            for (ri, (i, batch)) in commits.iter().enumerate() {
                let key = w.m.heads[*i].key;
                let wid = key.worldline_id;
                // admitted batch = the model's (first `budget` pending ids in id order)
                if let Some(rec) = records.get(ri) {
                    let tick = WorldlineTick::from_raw(rec.worldline_tick_after.as_u64().saturating_sub(1));
                    match w.rt.provenance.entry(wid, tick) {
                        Ok(e) => {
                            let ids: BTreeSet<Hash> = e
                                .tick_receipt
                                .as_ref()
                                .map(|rc| rc.entries().iter().map(|x| x.scope.local_id.0).collect())
                                .unwrap_or_default();
                            let wantids: BTreeSet<Hash> = batch.iter().copied().collect();
                            if ids != wantids {
                                out.v(
                                    "pass:admitted-batch-differs-from-canonical-prefix",
                                    format!("head {i}: {} ids admitted, model {}", ids.len(), wantids.len()),
                                    Value::Null,
                                );
                            }
                            if e.head_key != Some(key)
                                || e.expected.commit_hash != rec.commit_hash
                                || e.expected.state_root != rec.state_root
                                || e.commit_global_tick != rec.commit_global_tick
                            {
                                out.v("pass:step-record-vs-provenance", format!("head {i}"), Value::Null);
                            }
                        }
                        Err(e) => out.v(
                            "pass:step-record-without-provenance-entry",
                            format!("{e:?}"),
                            Value::Null,
                        ),
                    }
                }
                let pend_before = w.m.heads[*i].pending.len();
                if batch.len() < pend_before {
                    out.c("budget_left_part_of_the_batch_pending");
                }
                for id in batch {
                    let h = &mut w.m.heads[*i];
                    h.pending.remove(id);
                    if !h.committed.insert(*id) {
                        out.v("at-most-once:model-recommitted", format!("head {i}"), Value::Null);
                    }
                    if h.survived_rollback.contains(id) {
                        out.c("commit_after_rollback");
                    }
                    h.left_by_budget.remove(id);
                    // content-addressed event node with the intent bytes
                    match event_node(&w.rt.runtime, &wid, id) {
                        Some(Some(_)) => {}
                        other => out.v(
                            "pass:committed-ingress-without-event-node",
                            format!("head {i}: {other:?}"),
                            Value::Null,
                        ),
                    }
                }
                let h = &mut w.m.heads[*i];
                h.left_by_budget = h.pending.clone();
            }
            if commits.len() >= 1 {
                out.c("committing_passes");
            }
        }
        (TickExp::Fail { culprit, committed_before }, PassOutcome::Err(RuntimeError::Engine(_))) => {
            out.c("rolled_back_passes");
            if *committed_before > 0 {
                out.c("rolled_back_passes_after_earlier_head_committed");
            }
            // all-or-nothing (C09 decides this in depth; here it is the premise of "retry after rollback")
            let (a, b) = (runtime_view(&pre.runtime), runtime_view(&w.rt.runtime));
            match (a, b) {
                (Some(a), Some(b)) => {
                    if a.rest != b.rest
                        || format!("{:?}", pre.provenance) != format!("{:?}", w.rt.provenance)
                    {
                        out.v(
                            "rolled-back-pass:state-not-restored",
                            format!("culprit {culprit}"),
                            Value::Null,
                        );
                    }
                }
                _ => out.machinery.push("runtime Debug text not splittable".into()),
            }
            let ck = w.m.heads[*culprit].key;
            if !w.rt.runtime.is_head_faulted(&ck)
                || !w
                    .rt
                    .runtime
                    .scheduler_fault_for_head(&ck)
                    .is_some_and(|f| f.scope == SchedulerFaultScope::Head(ck))
            {
                out.v("rolled-back-pass:culprit-not-quarantined", format!("{ck:?}"), Value::Null);
            }
            w.m.heads[*culprit].faulted = true;
            for h in w.m.heads.iter_mut() {
                let p = h.pending.clone();
                h.survived_rollback.extend(p);
            }
        }
        (e, o) => {
            out.v(
                format!("pass:outcome-differs-from-model:{}", o.label()),
                format!("model {e:?}, real {o:?}"),
                Value::Null,
            );
            w.m.desync = true;
        }
    }
    // inbox contents = model
    let want_p: Vec<usize> = w.m.heads.iter().map(|h| h.pending.len()).collect();
    let got_p: Vec<usize> = pending_summary(&w.rt.runtime).iter().map(|x| x.1).collect();
    if want_p != got_p && !w.m.desync {
        out.v(
            "pass:pending-sets-differ-from-model",
            format!("got {got_p:?} want {want_p:?}"),
            Value::Null,
        );
    }
    // at-most-once, recomputed from provenance over the whole history of this path
    let led = ledger(&w.rt);
    for ((hk, id), n) in &led {
        if *n > 1 {
            out.v(
                "at-most-once:ingress-admitted-by-more-than-one-committed-tick",
                format!("{hk:?} {} x{n}", mc::hex(&id[..6])),
                Value::Null,
            );
        }
    }
    let model_committed: BTreeSet<(WriterHeadKey, Hash)> = w
        .m
        .heads
        .iter()
        .flat_map(|h| h.committed.iter().map(move |id| (h.key, *id)))
        .collect();
    if led.keys().copied().collect::<BTreeSet<_>>() != model_committed && !w.m.desync {
        out.v(
            "at-most-once:committed-ledger-differs-from-model",
            format!("{} in provenance, {} in model", led.len(), model_committed.len()),
            Value::Null,
        );
    }
    // event nodes exist exactly for committed ingress (per worldline)
    for i in 0..5u8 {
        let (env, hk, _) = cx.cfg.envelope(Sym { intent: i, form: 0 });
        let id = env.ingress_id();
        let committed_on_wl = w
            .m
            .heads
            .iter()
            .any(|h| h.key.worldline_id == hk.worldline_id && h.committed.contains(&id));
        let present = event_node(&w.rt.runtime, &hk.worldline_id, &id).is_some();
        if present != committed_on_wl && !w.m.desync {
            out.v(
                "event-node-presence-differs-from-committed-ledger",
                format!("{} present={present}", sym_name(Sym { intent: i, form: 0 })),
                Value::Null,
            );
        }
    }
    let post = full_fp(&w.rt);
    let c = canon_fp(cx, &w.rt, &post, out);
    let mut h = blake3::Hasher::new();
    h.update(label.as_bytes());
    h.update(recs_dbg.as_bytes());
    h.update(&c);
    TickObs {
        digest: *h.finalize().as_bytes(),
        label,
    }
}

// ---------------------------------------------------------------------------------------------
// Permutation oracle
// ---------------------------------------------------------------------------------------------

/// Multisets of submissions: per intent one of the given occurrence lists (or absent), total size
/// 1..=max.
fn multisets(per_intent: &dyn Fn(u8) -> Vec<Vec<Sym>>, max: usize) -> Vec<Vec<Sym>> {
    let mut out: Vec<Vec<Sym>> = vec![Vec::new()];
    for i in 0..4u8 {
        let mut next = Vec::new();
        for base in &out {
            next.push(base.clone());
            for occ in per_intent(i) {
                if base.len() + occ.len() <= max {
                    let mut b = base.clone();
                    b.extend(occ);
                    next.push(b);
                }
            }
        }
        out = next;
    }
    out.retain(|m| !m.is_empty());
    out
}

fn distinct_perms(x: &[Sym]) -> Vec<Vec<Sym>> {
    let mut set = BTreeSet::new();
    mc::enumerate::permutations(x.len(), |p| {
        set.insert(p.iter().map(|i| x[*i]).collect::<Vec<_>>());
    });
    set.into_iter().collect()
}

type Memo = Vec<Mutex<HashMap<[u8; 32], ([u8; 32], [u8; 32], String)>>>;

/// In state `w`: for every multiset, all distinct permutations give equal canonical states and
/// equal following passes.
///
/// Execution is shared through a trie.  A node is the ordered list of submissions ACCEPTED so far
/// (its real world is kept).  A refused submission (duplicate / policy rejection) must leave the full
/// fingerprint unchanged — checked on the real system for every (node, symbol) pair that occurs —
/// and therefore stays at its node.  Every distinct permutation of every multiset is walked through
/// the trie; every distinct end node gets one canonical fingerprint and one real scheduler pass
/// (shared across states through `memo`, keyed by the FULL fingerprint).
fn oracle(cx: &Ctx, w: &World, xs: &[Vec<Sym>], memo: &Memo, path: &[String], out: &mut Out) {
    struct Node {
        world: World,
        next: BTreeMap<Sym, usize>,
    }
    let mut nodes: Vec<Node> = vec![Node {
        world: w.clone(),
        next: BTreeMap::new(),
    }];
    // per multiset: (permutation, end node, number of newly accepted submissions)
    let mut walks: Vec<Vec<(Vec<Sym>, usize, usize)>> = Vec::with_capacity(xs.len());
    for x in xs {
        let mut v = Vec::new();
        for p in distinct_perms(x) {
            let mut cur = 0usize;
            let mut acc = 0usize;
            for s in &p {
                let known = nodes[cur].next.get(s).copied();
                let nxt = match known {
                    Some(n) => n,
                    None => {
                        let mut w2 = nodes[cur].world.clone();
                        let d = step_ingest(cx, &mut w2, *s, true, out);
                        if w2.m.desync {
                            return; // already reported
                        }
                        let n = if d == Disp::Accepted {
                            nodes.push(Node {
                                world: w2,
                                next: BTreeMap::new(),
                            });
                            nodes.len() - 1
                        } else {
                            cur
                        };
                        nodes[cur].next.insert(*s, n);
                        n
                    }
                };
                if nxt != cur {
                    acc += 1;
                }
                cur = nxt;
            }
            out.traces += 1;
            v.push((p, cur, acc));
        }
        walks.push(v);
    }
    // one canonical fingerprint + one real pass per distinct end node, in parallel (`World` holds a
    // `Cell`, so every task owns its clone)
    let needed: BTreeSet<usize> = walks.iter().flatten().map(|t| t.1).collect();
    let tasks: Vec<(usize, World)> = needed
        .iter()
        .map(|i| (*i, nodes[*i].world.clone()))
        .collect();
    let results: Vec<(usize, ([u8; 32], [u8; 32], String), Out)> = tasks
        .into_par_iter()
        .map(|(i, mut w2)| {
            let mut o = Out::default();
            let full = full_fp(&w2.rt);
            let fh = mc::h(format!("{}\n{}", full.0, full.1).as_bytes());
            let shard = &memo[(fh[0] as usize) % memo.len()];
            let cached = shard.lock().unwrap().get(&fh).cloned();
            let v = match cached {
                Some(c) => c,
                None => {
                    // Two tasks may race to the same state: only the one whose insert wins reports its
                    // observations, so every count is a function of the set of distinct states.
                    let mut tmp = Out::default();
                    let canon = canon_fp(cx, &w2.rt, &full, &mut tmp);
                    let obs = step_tick(cx, &mut w2, &mut tmp);
                    let v = (canon, obs.digest, obs.label);
                    let mut g = shard.lock().unwrap();
                    if !g.contains_key(&fh) {
                        g.insert(fh, v.clone());
                        drop(g);
                        o.merge(tmp);
                    }
                    v
                }
            };
            (i, v, o)
        })
        .collect();
    let mut obs: BTreeMap<usize, ([u8; 32], [u8; 32], String)> = BTreeMap::new();
    for (i, v, o) in results {
        obs.insert(i, v);
        out.merge(o);
    }
    let polsig = format!("{:?}", cx.cfg.heads.iter().map(|h| h.2).collect::<Vec<_>>());
    for (x, v) in xs.iter().zip(&walks) {
        let Some((p0, n0, _)) = v.first() else { continue };
        let (c0, t0, l0) = &obs[n0];
        let mut effective = 0;
        for (p, n, acc) in v {
            effective = effective.max(*acc);
            let (c, t, l) = &obs[n];
            if c != c0 || t != t0 {
                let case = json!({"config": cx.cfg.name, "path": path,
                    "perm_a": p0.iter().map(|s| sym_name(*s)).collect::<Vec<_>>(),
                    "perm_b": p.iter().map(|s| sym_name(*s)).collect::<Vec<_>>()});
                if c != c0 {
                    out.v(
                        format!("order-freedom:pending-state-depends-on-arrival-order:policies={polsig}"),
                        "states differ beyond submission generations / stored target form",
                        case.clone(),
                    );
                }
                if t != t0 {
                    out.v(
                        format!("order-freedom:committed-tick-depends-on-arrival-order:policies={polsig}"),
                        format!("{l0} vs {l}"),
                        case,
                    );
                }
            }
        }
        if v.len() >= 2 {
            out.c("multisets_with_2plus_orders_compared");
            if effective >= 2 {
                out.c("multisets_with_2plus_orders_and_2plus_new_submissions");
                out.nontrivial.push(Report::key(
                    format!("{}|{path:?}|{x:?}", cx.cfg.name).as_bytes(),
                ));
            }
        }
    }
    out.counters
        .entry("oracle_trie_nodes")
        .and_modify(|n| *n += nodes.len() as u64)
        .or_insert(nodes.len() as u64);
}

// ---------------------------------------------------------------------------------------------
// Runtime BFS
// ---------------------------------------------------------------------------------------------

#[derive(Clone, Copy, Debug, PartialEq, Eq)]
enum Op {
    Ingest(Sym),
    Tick,
}
fn op_name(o: &Op) -> String {
    match o {
        Op::Ingest(s) => sym_name(*s),
        Op::Tick => "pass".into(),
    }
}

struct BfsResult {
    states: u64,
    transitions: u64,
    max_depth: usize,
    capped: bool,
}

/// One configuration's search state.
struct Shared {
    cx: Ctx,
    xs: Vec<Vec<Sym>>,
    ops: Vec<Op>,
}

/// One configuration's search state.
struct Search {
    sh: Shared,
    seen: BTreeSet<[u8; 32]>,
    frontier: Vec<(World, Vec<String>)>,
    res: BfsResult,
    finished: bool,
}

fn state_key(w: &World) -> [u8; 32] {
    let f = full_fp(&w.rt);
    mc::h(format!("{}\n{}", f.0, f.1).as_bytes())
}

impl Search {
    fn new(r: &Report, cx: Ctx, xs: Vec<Vec<Sym>>) -> Search {
        let mut ops: Vec<Op> = (0..4u8)
            .map(|i| {
                Op::Ingest(Sym {
                    intent: i,
                    form: cx.cfg.f1(i),
                })
            })
            .collect();
        ops.push(Op::Tick);
        if !cx.cfg.no_poison {
            ops.push(Op::Ingest(Sym { intent: 4, form: 0 }));
        }
        let mut w0 = build_world(&cx.cfg);
        // committed history under the root: each prefix intent is ingested and committed by its own pass
        let mut path0: Vec<String> = Vec::new();
        let mut out0 = Out::default();
        for &i in &cx.cfg.prefix_commits {
            let sym = Sym { intent: i, form: cx.cfg.f1(i) };
            step_ingest(&cx, &mut w0, sym, true, &mut out0);
            path0.push(sym_name(sym));
            step_tick(&cx, &mut w0, &mut out0);
            path0.push("pass".into());
        }
        for v in out0.viol.iter_mut() {
            if v.2.is_null() {
                v.2 = json!({"config": cx.cfg.name, "path": path0, "in": "prefix"});
            }
        }
        flush(r, out0);
        let mut seen = BTreeSet::new();
        seen.insert(state_key(&w0));
        Search {
            sh: Shared { cx, xs, ops },
            seen,
            frontier: vec![(w0, path0)],
            res: BfsResult {
                states: 1,
                transitions: 0,
                max_depth: 0,
                capped: false,
            },
            finished: false,
        }
    }
}

/// Level-synchronous BFS over all configurations: every configuration completes depth d (oracle in
/// every state of the level, then expansion) before any starts depth d+1, so a wall cap cuts all of
/// them at the same depth.  All states of a level (across configurations) are processed in parallel;
/// successors are merged sequentially in task order (deterministic counts).
fn explore_all(r: &Report, searches: &mut [Search], memo: &Memo, budget_frac: f64) {
    let max_depth = searches.iter().map(|s| s.sh.cx.cfg.depth).max().unwrap_or(0);
    for depth in 0..=max_depth {
        let over = r.over_budget_frac(budget_frac);
        let mut tasks: Vec<(usize, World, Vec<String>)> = Vec::new();
        for (ci, s) in searches.iter_mut().enumerate() {
            if s.finished {
                continue;
            }
            if depth > s.sh.cx.cfg.depth || s.frontier.is_empty() {
                s.finished = true;
                continue;
            }
            if over {
                s.res.capped = true;
                s.finished = true;
                continue;
            }
            for (w, p) in std::mem::take(&mut s.frontier) {
                tasks.push((ci, w, p));
            }
        }
        if tasks.is_empty() {
            break;
        }
        let shared: Vec<&Shared> = searches.iter().map(|s| &s.sh).collect();
        let results: Vec<(usize, Out, Vec<([u8; 32], World, Vec<String>)>, bool)> = tasks
            .into_par_iter()
            .map(|(ci, w, path): (usize, World, Vec<String>)| {
                let s: &Shared = shared[ci];
                let cx = &s.cx;
                let expand = depth < cx.cfg.depth;
                let (w, path) = (&w, &path);
                let mut out = Out::default();
                if r.over_budget_frac(budget_frac) {
                    return (ci, out, Vec::new(), false);
                }
                // the order-freedom oracle in THIS state
                oracle(cx, w, &s.xs, memo, path, &mut out);
                for v in out.viol.iter_mut() {
                    if v.2.is_null() {
                        v.2 = json!({"config": cx.cfg.name, "path": path, "in": "permutation-oracle"});
                    }
                }
                let mut succ = Vec::new();
                if expand {
                    for op in &s.ops {
                        let mut w2 = w.clone();
                        match op {
                            Op::Ingest(sym) => {
                                step_ingest(cx, &mut w2, *sym, true, &mut out);
                            }
                            Op::Tick => {
                                step_tick(cx, &mut w2, &mut out);
                            }
                        }
                        let mut p2 = path.clone();
                        p2.push(op_name(op));
                        for v in out.viol.iter_mut() {
                            if v.2.is_null() {
                                v.2 = json!({"config": cx.cfg.name, "path": p2});
                            }
                        }
                        if w2.m.desync {
                            continue;
                        }
                        succ.push((state_key(&w2), w2, p2));
                    }
                }
                (ci, out, succ, true)
            })
            .collect();
        drop(shared);
        for (ci, out, succ, done) in results {
            let s = &mut searches[ci];
            if !done {
                s.res.capped = true;
                s.finished = true;
            }
            flush(r, out);
            for (k, w2, p2) in succ {
                s.res.transitions += 1;
                if s.seen.insert(k) {
                    s.res.states += 1;
                    s.frontier.push((w2, p2));
                }
            }
            if done && !s.res.capped {
                s.res.max_depth = depth;
            }
        }
    }
}

fn flush(r: &Report, out: Out) {
    r.eval(out.evals);
    r.add_traces(out.traces);
    r.nontrivial_many(out.nontrivial.iter().copied());
    for (k, n) in &out.outcomes {
        r.outcome_n(k, *n);
    }
    for (k, n) in &out.counters {
        r.counter(k, *n);
    }
    for m in &out.machinery {
        r.machinery_error(m);
    }
    for (sig, what, case) in out.viol {
        r.violation(&sig, json!({"case": case, "what": what}));
    }
}

// ---------------------------------------------------------------------------------------------
// Phase 1: identity
// ---------------------------------------------------------------------------------------------

fn receipt_ref(n: u8) -> CausalTickReceiptRef {
    CausalTickReceiptRef {
        worldline_id: wl(n),
        worldline_tick_after: WorldlineTick::from_raw(n as u64),
        commit_global_tick: GlobalTick::from_raw(n as u64 + 1),
        commit_hash: [n; 32],
        submission_id: [n.wrapping_add(1); 32],
        ticket_digest: [n.wrapping_add(2); 32],
        receipt_content_digest: [n.wrapping_add(3); 32],
    }
}

fn identity_phase(r: &Report) {
    let parents_alpha = [
        IngressCausalParent::TickReceipt {
            receipt_ref: receipt_ref(1),
        },
        IngressCausalParent::TickReceipt {
            receipt_ref: receipt_ref(2),
        },
        IngressCausalParent::ContractInverseTarget {
            receipt_ref: receipt_ref(1),
        },
    ];
    let mut byte_alpha: Vec<Vec<u8>> = (0..4).map(|i| intent(i).1.to_bytes()).collect();
    byte_alpha.push(poison_program().to_bytes());
    byte_alpha.push(Vec::new());
    byte_alpha.push(vec![0]);
    byte_alpha.push(intent(0).1.to_bytes()[..8].to_vec());
    // length-extension shaped pair: bytes ++ le64(0) vs bytes
    let mut ext = intent(0).1.to_bytes();
    ext.extend_from_slice(&0u64.to_le_bytes());
    byte_alpha.push(ext);
    let kinds = [prog_kind(), other_kind()];
    let targets = [
        IngressTarget::DefaultWriter {
            worldline_id: wl(1),
        },
        IngressTarget::InboxAddress {
            worldline_id: wl(1),
            inbox: InboxAddress(NAMED.to_owned()),
        },
        IngressTarget::ExactHead {
            key: head_key(1, 0),
        },
    ];
    let max_len = r.pick(3, 4);
    let mut parent_seqs: Vec<Vec<IngressCausalParent>> = vec![Vec::new()];
    for len in 1..=max_len {
        mc::enumerate::sequences(parents_alpha.len(), len, |s| {
            parent_seqs.push(s.iter().map(|i| parents_alpha[*i]).collect());
        });
    }
    type Content = (IntentKind, Vec<u8>, Vec<IngressCausalParent>);
    let mut by_id: BTreeMap<Hash, BTreeSet<String>> = BTreeMap::new();
    let mut by_content: BTreeMap<String, BTreeSet<Hash>> = BTreeMap::new();
    let mut n = 0u64;
    for kind in kinds {
        for bytes in &byte_alpha {
            for ps in &parent_seqs {
                let mut canon = ps.clone();
                canon.sort_unstable();
                canon.dedup();
                let content: Content = (kind, bytes.clone(), canon.clone());
                let ckey = format!("{content:?}");
                for t in &targets {
                    let env = IngressEnvelope::local_intent_with_causal_parents(
                        t.clone(),
                        kind,
                        bytes.clone(),
                        ps.clone(),
                    );
                    n += 1;
                    by_id.entry(env.ingress_id()).or_default().insert(ckey.clone());
                    by_content
                        .entry(ckey.clone())
                        .or_default()
                        .insert(env.ingress_id());
                    if env.causal_parents() != canon.as_slice() {
                        r.violation(
                            "identity:causal-parents-not-canonicalised-as-a-set",
                            json!({"case": {"parents": format!("{ps:?}")}}),
                        );
                    }
                    if ps.is_empty() {
                        let plain = IngressEnvelope::local_intent(t.clone(), kind, bytes.clone());
                        if plain.ingress_id() != env.ingress_id() {
                            r.violation("identity:empty-parent-list-changes-id", json!({"case": {}}));
                        }
                    }
                    match IngressEnvelope::from_retained_bytes(&env.to_retained_bytes_v2()) {
                        Ok(back) if back == env && back.ingress_id() == env.ingress_id() => {}
                        other => r.violation(
                            "identity:retained-bytes-roundtrip-changes-envelope",
                            json!({"case": {"content": ckey, "got": format!("{other:?}")}}),
                        ),
                    }
                }
            }
        }
    }
    r.eval(n);
    r.counter("identity_envelopes", n);
    r.counter("identity_distinct_ids", by_id.len() as u64);
    r.counter("identity_distinct_contents", by_content.len() as u64);
    for (id, cs) in &by_id {
        if cs.len() > 1 {
            r.violation(
                "identity:distinct-(kind,bytes,parents)-share-an-ingress-id",
                json!({"case": {"id": mc::hex(id), "contents": cs.iter().collect::<Vec<_>>()}}),
            );
        }
    }
    for (c, ids) in &by_content {
        if ids.len() > 1 {
            r.violation(
                "identity:equal-(kind,bytes,parents)-get-different-ingress-ids",
                json!({"case": {"content": c}}),
            );
        }
    }
    r.guard(
        "identity_parent_permutations_collapsed",
        by_content.len() < (n / 3) as usize && by_id.len() == by_content.len(),
    );
    r.nontrivial(b"identity:parent-set-permutations");
    r.sample(json!({"phase": "identity", "envelopes": n, "distinct_ids": by_id.len(),
        "parent_sequences": parent_seqs.len(), "byte_strings": byte_alpha.len()}));

    // Observation (outside the stated alphabet, not a verdict): the parentless and the causal hash
    // domains are prefix-related ("ingress:" vs "ingress:causal:v2\0"); a kind built with the public
    // `IntentKind::from_hash` can therefore replay a causal preimage in the parentless domain.
    let causal = IngressEnvelope::local_intent_with_causal_parents(
        targets[0].clone(),
        prog_kind(),
        b"x".to_vec(),
        vec![parents_alpha[0]],
    );
    let mut pre = Vec::new();
    pre.extend_from_slice(prog_kind().as_hash());
    pre.extend_from_slice(&1u64.to_le_bytes());
    pre.extend_from_slice(b"x");
    pre.extend_from_slice(&1u64.to_le_bytes());
    pre.extend_from_slice(b"tick-receipt\0");
    pre.extend_from_slice(&receipt_ref(1).to_canonical_bytes());
    let mut crafted_kind = [0u8; 32];
    crafted_kind[..10].copy_from_slice(b"causal:v2\0");
    crafted_kind[10..].copy_from_slice(&pre[..22]);
    let crafted = IngressEnvelope::local_intent(
        targets[0].clone(),
        IntentKind::from_hash(crafted_kind),
        pre[22..].to_vec(),
    );
    r.note(
        "observation_cross_domain_preimage",
        json!({"crafted_parentless_intent_collides_with_causal_intent": crafted.ingress_id() == causal.ingress_id(),
               "note": "needs a kind hash chosen through IntentKind::from_hash; outside the label-derived kind alphabet of the identity oracle"}),
    );
}

// ---------------------------------------------------------------------------------------------
// Phase 2: HeadInbox BFS (policy changes between passes)
// ---------------------------------------------------------------------------------------------

#[derive(Clone, Debug)]
struct InboxM {
    pol: Pol,
    pending: BTreeMap<Hash, IntentKind>,
}

fn inbox_phase(r: &Report) {
    let hk = head_key(1, 0);
    // 4 intents + a second target form of intent 0 (same id)
    let mut envs: Vec<(IngressEnvelope, IntentKind)> = (0..4)
        .map(|i| {
            let (k, p) = intent(i);
            (
                IngressEnvelope::local_intent(
                    IngressTarget::DefaultWriter {
                        worldline_id: wl(1),
                    },
                    k,
                    p.to_bytes(),
                ),
                k,
            )
        })
        .collect();
    envs.push((
        IngressEnvelope::local_intent(
            IngressTarget::ExactHead { key: hk },
            intent(0).0,
            intent(0).1.to_bytes(),
        ),
        intent(0).0,
    ));
    let routes = route_table(1, &[hk, head_key(1, 1)]);
    #[derive(Clone, Copy, Debug)]
    enum IOp {
        Ingest(usize),
        Admit,
        Set(Pol),
    }
    let mut ops: Vec<IOp> = (0..envs.len()).map(IOp::Ingest).collect();
    ops.push(IOp::Admit);
    ops.extend(POLICIES.iter().map(|p| IOp::Set(*p)));
    let depth = r.pick(4, 6);
    let canon = |ib: &HeadInbox| canonicalize_arrival(&format!("{ib:?}"), &routes).0;
    let ids_of = |v: &[IngressEnvelope]| v.iter().map(|e| e.ingress_id()).collect::<Vec<_>>();
    let subsets = mc::enumerate::subsets_range(4, 2, 3);

    let stats = mc::bfs::bfs(
        (
            HeadInbox::new(hk, InboxPolicy::AcceptAll),
            InboxM {
                pol: Pol::AcceptAll,
                pending: BTreeMap::new(),
            },
        ),
        depth,
        |s| format!("{:?}", s.0).into_bytes(),
        |_, _| ops.clone(),
        |s, op, path| {
            let (mut ib, mut m) = s.clone();
            let case = || json!({"phase": "inbox", "path": format!("{path:?}"), "op": format!("{op:?}")});
            r.eval(1);
            match op {
                IOp::Ingest(j) => {
                    let (env, kind) = &envs[*j];
                    let id = env.ingress_id();
                    let want = if !m.pol.accepts(*kind) {
                        "Rejected"
                    } else if m.pending.contains_key(&id) {
                        "Duplicate"
                    } else {
                        m.pending.insert(id, *kind);
                        "Accepted"
                    };
                    // `InboxIngestResult` is not re-exported: compare by its Debug name
                    let got = format!("{:?}", ib.ingest(env.clone()));
                    if got != want {
                        r.violation(
                            &format!("inbox:ingest-result:model={want}:real={got}"),
                            json!({"case": case()}),
                        );
                    }
                    r.outcome(&format!("inbox_ingest:{got}"));
                }
                IOp::Admit => {
                    let n = m.pol.budget().min(m.pending.len());
                    let want: Vec<Hash> = m.pending.keys().take(n).copied().collect();
                    for id in &want {
                        m.pending.remove(id);
                    }
                    let can = ib.can_admit();
                    let got = ids_of(&ib.admit());
                    if got != want {
                        r.violation(
                            "inbox:admitted-batch-is-not-the-ascending-id-prefix",
                            json!({"case": case(), "got": got.len(), "want": want.len()}),
                        );
                    }
                    if can != !want.is_empty() {
                        r.violation("inbox:can_admit-disagrees-with-admit", json!({"case": case()}));
                    }
                    if !want.is_empty() && !m.pending.is_empty() {
                        r.counter("inbox_budget_left_pending", 1);
                    }
                }
                IOp::Set(p) => {
                    m.pol = *p;
                    m.pending.retain(|_, k| p.accepts(*k));
                    ib.set_policy(p.real());
                }
            }
            if ib.pending_count() != m.pending.len() || ib.is_empty() != m.pending.is_empty() {
                r.violation("inbox:pending-count-differs-from-model", json!({"case": case()}));
            }
            Some((ib, m))
        },
        |s, path| {
            // order-freedom in this state: all permutations of every 2..3-subset of the 4 intents
            // (intent 0 arriving in either target form) give the same inbox and the same next batch
            for sub in &subsets {
                let mut first: Option<(String, Vec<Hash>)> = None;
                let mut orders = 0;
                mc::enumerate::permutations(sub.len(), |p| {
                    for alt in 0..2 {
                        let mut ib = s.0.clone();
                        for i in p {
                            let j = sub[*i];
                            let j = if j == 0 && alt == 1 { 4 } else { j };
                            ib.ingest(envs[j].0.clone());
                        }
                        let c = canon(&ib);
                        let batch = ids_of(&ib.admit());
                        let c2 = canon(&ib);
                        orders += 1;
                        r.eval(1);
                        match &first {
                            None => first = Some((format!("{c}|{c2}"), batch)),
                            Some((c0, b0)) => {
                                if *c0 != format!("{c}|{c2}") || *b0 != batch {
                                    r.violation(
                                        &format!(
                                            "inbox:order-freedom:policy={:?}",
                                            s.1.pol
                                        ),
                                        json!({"case": {"phase": "inbox", "path": format!("{path:?}"), "subset": sub, "perm": p}}),
                                    );
                                }
                            }
                        }
                    }
                });
                if orders >= 2 {
                    r.counter("inbox_permutation_classes_compared", 1);
                }
            }
        },
        || r.over_budget_frac(if r.quick() { 0.25 } else { 0.03 }),
    );
    r.add_states(stats.states);
    r.add_transitions(stats.transitions);
    r.add_traces(stats.paths);
    r.note(
        "inbox_bfs",
        json!({"states": stats.states, "transitions": stats.transitions, "depth": stats.max_depth, "capped": stats.capped}),
    );
    if stats.capped {
        r.cap_hit("HeadInbox BFS stopped by the wall cap");
    }
    r.guard("inbox_budget_left_pending_seen", r.counter_value("inbox_budget_left_pending") > 0);
    r.guard(
        "inbox_duplicates_and_rejections_seen",
        r.outcome_count("inbox_ingest:Duplicate") > 0 && r.outcome_count("inbox_ingest:Rejected") > 0,
    );
    r.sample(json!({"phase": "inbox", "ops": ops.iter().map(|o| format!("{o:?}")).collect::<Vec<_>>(), "depth": depth}));
}

// ---------------------------------------------------------------------------------------------
// main
// ---------------------------------------------------------------------------------------------

fn configs(r: &Report) -> Vec<Config> {
    let mut v = Vec::new();
    if r.quick() {
        // focus h1 sorts BEFORE h0 in canonical key order, so a poisoned h0 rolls back a pass in which
        // the focus head had already committed
        for p in POLICIES {
            let d = match p {
                Pol::Budgeted(1) => 3,
                _ => 2,
            };
            v.push(single_wl(1, p, Pol::AcceptAll, d));
        }
        v.push(single_wl(0, Pol::Budgeted(1), Pol::Budgeted(1), 2));
        v.push(two_wl(Pol::Budgeted(1), Pol::AcceptAll, 2));
        // both heads of one worldline commit honest intents in the same pass
        v.push(split_wl(Pol::AcceptAll, Pol::AcceptAll, 3));
        // two commits already under the root (intent a0, then intent a1, on the focus head): retries of
        // an intent whose commit is NOT the worldline's latest are reached at depth 0
        let mut deep = single_wl(1, Pol::AcceptAll, Pol::AcceptAll, 2);
        deep.name = format!("{}:after-two-commits", deep.name);
        deep.prefix_commits = vec![0, 1];
        v.push(deep);
    } else {
        // all policies on either focus head, then two-worldline routings; the wall budget is shared
        // fairly (a configuration that exhausts its share reports the depth it completed)
        for focus in [1u8, 0u8] {
            for p in POLICIES {
                v.push(single_wl(focus, p, if focus == 0 { Pol::Budgeted(1) } else { Pol::AcceptAll }, 5));
            }
        }
        for p1 in POLICIES {
            v.push(two_wl(p1, if p1 == Pol::AcceptAll { Pol::Budgeted(1) } else { Pol::AcceptAll }, 4));
        }
        v.push(split_wl(Pol::AcceptAll, Pol::AcceptAll, 5));
        v.push(split_wl(Pol::Budgeted(1), Pol::AcceptAll, 4));
        for focus in [1u8, 0u8] {
            let mut deep = single_wl(focus, Pol::AcceptAll, Pol::AcceptAll, 3);
            deep.name = format!("{}:after-two-commits", deep.name);
            deep.prefix_commits = vec![0, 1];
            v.push(deep);
        }
    }
    v
}

fn main() {
    let r = Report::new("C08", Level::ModelChecking);
    mc::quiet_panics();
    let _ = rayon::ThreadPoolBuilder::new()
        .num_threads(
            2 * std::thread::available_parallelism()
                .map(|n| n.get())
                .unwrap_or(8),
        )
        .build_global();
    r.rule(
        "runtime phase: per configuration (worldlines, per-head inbox policy from {AcceptAll, KindFilter{verif/program}, Budgeted 0/1/2}, routing), \
         BFS over ops {ingest(intent a0|a1|b0|b1, form), pass, poison(failing program on another head)} to the stated depth, dedup on the FULL Debug \
         fingerprint of runtime+provenance; in every visited state every multiset of submissions (size <= bound, per-intent multiplicity <= 2, the retry \
         using the other target form) is applied in ALL distinct orders and followed by a pass. identity phase: kinds x byte strings x every sequence \
         (<= bound) over 3 causal parents x 3 target forms. inbox phase: BFS over the real HeadInbox with ingest/admit/set_policy. \
         distinct_nontrivial counts (configuration, state path, multiset) triples that had >= 2 distinct orders and >= 2 newly accepted submissions",
    );
    r.assume("arrival-order artefacts excluded from the order-freedom comparison, each justified by reading coordinator.rs/head_inbox.rs: (1) IntentSubmissionRecord.submission_generation — documented as Echo-owned intake/correlation audit metadata, 'not scheduler order'; assigned from a counter at first acceptance (record_witnessed_submission); the runtime-level next_submission_generation counter is NOT excluded; (2) the stored *form* of IngressEnvelope.target in HeadInbox.pending and witnessed_submission_envelopes — the first arrival's envelope is retained (Entry::Vacant); it is replaced by the head it resolves to, so routing itself stays compared. Nothing else is excluded; the following pass is executed on every permutation's end state, so any influence of the excluded fields on commits is caught");
    r.assume("BFS dedup key = full Debug fingerprint (nothing removed): the transition functions (ingest, super_tick on a fresh engine with constant configuration) read only runtime+provenance, so equal keys have equal futures");
    r.assume("WorldlineRuntime exposes no inbox-policy setter: runtime-level policies are fixed per configuration at WriterHead construction; policy CHANGES between passes are explored on the real HeadInbox (set_policy) in the inbox phase. 'After a restart' is decided by C10");
    r.assume("a fresh Engine per pass; ingress ids of committed envelopes are read from the tick receipt's scope nodes (every alphabet intent matches exactly one cmd/verif rule)");

    if let Some(path) = r.replay.clone() {
        replay(&r, &path);
        r.finish();
    }

    identity_phase(&r);
    inbox_phase(&r);

    let memo: Memo = (0..64).map(|_| Mutex::new(HashMap::new())).collect();
    let cfgs = configs(&r);
    let max_x = r.pick(3, 5);
    let mut per_cfg = Vec::new();
    // quick: up to 90% of the 240 s cap; thorough: ~20 min of the 3600 s cap.  Configurations run
    // concurrently, so a wall cap stops all of them at the depth each has completed.
    let frac = if r.quick() { 0.9 } else { 0.33 };
    let thorough = r.thorough();
    let mut searches: Vec<Search> = cfgs
        .into_iter()
        .map(|cfg| {
            let keys: Vec<WriterHeadKey> =
                cfg.heads.iter().map(|(w, h, _)| head_key(*w, *h)).collect();
            let cx = Ctx {
                routes: route_table(cfg.worldlines, &keys),
                sched: SchedulerKind::Radix,
                cfg,
            };
            // reduced alphabet: first occurrence in the BFS form, the retry in the other form
            let f1 = |i: u8| cx.cfg.f1(i);
            let mut xs = multisets(
                &|i| {
                    vec![
                        vec![Sym { intent: i, form: f1(i) }],
                        vec![
                            Sym { intent: i, form: f1(i) },
                            Sym { intent: i, form: 1 - f1(i) },
                        ],
                    ]
                },
                max_x,
            );
            if thorough {
                // full form alphabet for small multisets
                let full = multisets(
                    &|i| {
                        let (p, e) = (Sym { intent: i, form: 0 }, Sym { intent: i, form: 1 });
                        vec![vec![p], vec![e], vec![p, p], vec![p, e], vec![e, e]]
                    },
                    3,
                );
                for m in full {
                    if !xs.contains(&m) {
                        xs.push(m);
                    }
                }
            }
            Search::new(&r, cx, xs)
        })
        .collect();
    explore_all(&r, &mut searches, &memo, frac);
    let results: Vec<(Value, String, usize, usize, Option<Vec<String>>, BfsResult)> = searches
        .into_iter()
        .map(|s| {
            (
                s.sh.cx.cfg.to_json(),
                s.sh.cx.cfg.name.clone(),
                s.sh.cx.cfg.depth,
                s.sh.xs.len(),
                s.sh
                    .xs
                    .last()
                    .map(|x| x.iter().map(|y| sym_name(*y)).collect::<Vec<_>>()),
                s.res,
            )
        })
        .collect();
    for (ci, (cj, name, depth, nxs, example, res)) in results.into_iter().enumerate() {
        r.add_states(res.states);
        r.add_transitions(res.transitions);
        r.add_traces(res.transitions);
        if ci < 4 {
            r.sample(json!({"phase": "runtime", "config": cj, "multisets": nxs,
                "example_multiset": example, "states": res.states, "transitions": res.transitions}));
        }
        per_cfg.push(json!({"config": name, "depth_completed": res.max_depth, "depth": depth,
            "states": res.states, "transitions": res.transitions, "multisets_per_state": nxs, "capped": res.capped}));
        if res.capped {
            r.cap_hit(&format!(
                "runtime BFS of configuration {name} stopped at depth {} of {depth}",
                res.max_depth
            ));
        }
    }
    r.note("runtime_bfs", json!(per_cfg));
    r.note("multiset_size_bound", json!(max_x));

    // vacuity guards
    let c = |k: &str| r.counter_value(k);
    r.guard("duplicates_refused_while_pending", c("duplicate_refused_while_pending") > 0);
    r.guard("duplicates_refused_after_commit", c("duplicate_refused_after_commit") > 0);
    r.guard(
        "duplicates_refused_after_rollback",
        c("duplicate_refused_while_pending_after_rollback") > 0,
    );
    r.guard(
        "duplicates_refused_while_left_pending_by_budget",
        c("duplicate_refused_while_left_pending_by_budget") > 0,
    );
    r.guard("budget_left_pending", c("budget_left_part_of_the_batch_pending") > 0);
    r.guard("rollbacks_seen", c("rolled_back_passes") > 0);
    r.guard(
        "rollbacks_after_an_earlier_head_committed",
        c("rolled_back_passes_after_earlier_head_committed") > 0,
    );
    r.guard("commit_after_rollback_seen", c("commit_after_rollback") > 0);
    r.guard("kind_filter_rejections_seen", c("rejected_by_kind_filter") > 0);
    r.guard(
        "permutations_with_2plus_orders_compared",
        c("multisets_with_2plus_orders_and_2plus_new_submissions") > 0,
    );
    r.guard("committing_passes_seen", c("committing_passes") > 0);
    r.finish();
}

/// Replay: re-run the recorded path of a configuration, then the oracle in the end state.
fn replay(r: &Report, path: &std::path::Path) {
    let v: Value = std::fs::read_to_string(path)
        .ok()
        .and_then(|s| serde_json::from_str(&s).ok())
        .unwrap_or(Value::Null);
    let case = v
        .get("case")
        .cloned()
        .or_else(|| v.get("detail").and_then(|d| d.get("case").cloned()))
        .unwrap_or(Value::Null);
    let name = case.get("config").and_then(|c| c.as_str()).unwrap_or("");
    let mut all = Vec::new();
    for focus in [0u8, 1u8] {
        for p in POLICIES {
            for o in POLICIES {
                all.push(single_wl(focus, p, o, 0));
            }
        }
    }
    for p1 in POLICIES {
        for p2 in POLICIES {
            all.push(two_wl(p1, p2, 0));
        }
    }
    let Some(cfg) = all.into_iter().find(|c| c.name == name) else {
        r.machinery_error("replay: unknown configuration name");
        return;
    };
    let keys: Vec<WriterHeadKey> = cfg.heads.iter().map(|(w, h, _)| head_key(*w, *h)).collect();
    let cx = Ctx {
        routes: route_table(cfg.worldlines, &keys),
        sched: SchedulerKind::Radix,
        cfg,
    };
    let parse = |s: &str| -> Option<Op> {
        if s == "pass" {
            return Some(Op::Tick);
        }
        let (a, b) = s.split_once('/')?;
        let intent = if a == "poison" {
            4
        } else {
            INTENT_NAMES.iter().position(|n| *n == a)? as u8
        };
        Some(Op::Ingest(Sym {
            intent,
            form: if b == "exact" { 1 } else { 0 },
        }))
    };
    let mut w = build_world(&cx.cfg);
    let mut out = Out::default();
    let mut names = Vec::new();
    for s in case
        .get("path")
        .and_then(|p| p.as_array())
        .cloned()
        .unwrap_or_default()
    {
        if let Some(op) = s.as_str().and_then(parse) {
            match op {
                Op::Ingest(s) => {
                    let d = step_ingest(&cx, &mut w, s, true, &mut out);
                    println!("replay: {} -> {d:?}", sym_name(s));
                }
                Op::Tick => {
                    let o = step_tick(&cx, &mut w, &mut out);
                    println!("replay: pass -> {}", o.label);
                }
            }
            names.push(op_name(&op));
        }
    }
    let memo: Memo = (0..4).map(|_| Mutex::new(HashMap::new())).collect();
    let f1 = |i: u8| cx.cfg.f1(i);
    let xs = multisets(
        &|i| {
            vec![
                vec![Sym { intent: i, form: f1(i) }],
                vec![
                    Sym { intent: i, form: f1(i) },
                    Sym { intent: i, form: 1 - f1(i) },
                ],
            ]
        },
        3,
    );
    oracle(&cx, &w, &xs, &memo, &names, &mut out);
    flush(r, out);
    r.add_states(1);
    r.add_transitions(1);
    r.add_traces(1);
    r.nontrivial(b"replay-a");
    r.nontrivial(b"replay-b");
    r.sample(json!({"replay": name}));
}

#[allow(dead_code)]
fn _unused(_: IngressPayload) {}
