//! probe (temporary)
use rules::fixture::*;
use rules::{Program, Step};
use std::time::Instant;
use warp_core::*;

fn main() {
    let mut rt = Rt::new(2, 2);
    let p = Program::new(vec![Step::SetNodeAtt { n: 1, v: 1 }]);
    let p2 = Program::new(vec![Step::SetNodeAtt { n: 1, v: 5 }]);
    let e1 = intent_default(wl(1), &p);
    let e2 = intent_exact(rt.heads[0], other_kind(), &p2);
    rt.runtime.ingest(e1.clone()).unwrap();
    rt.runtime.ingest(e2.clone()).unwrap();
    let n = 300;
    let t = Instant::now();
    for _ in 0..n {
        let _e = fresh_engine(SchedulerKind::Radix, 1);
    }
    println!("fresh_engine {:?}", t.elapsed() / n);
    let mut eng = fresh_engine(SchedulerKind::Radix, 1);
    let t = Instant::now();
    for _ in 0..n {
        let mut c = rt.clone();
        let r = c.super_tick_with(&mut eng).unwrap();
        assert_eq!(r.len(), 1);
    }
    println!("tick on reused engine {:?}", t.elapsed() / n);
    let t = Instant::now();
    for _ in 0..n {
        let _ = format!("{:?}", eng.state());
    }
    println!("engine state fp {:?}", t.elapsed() / n);
    let t = Instant::now();
    for _ in 0..n {
        let mut c = rt.clone();
        let _ = c.runtime.ingest(e1.clone());
    }
    println!("clone+dup ingest {:?}", t.elapsed() / n);
    let t = Instant::now();
    for _ in 0..n {
        let f = rt.fingerprint();
        let _ = blake3::hash(&f);
    }
    println!("fp+hash {:?}", t.elapsed() / n);
}
