//! C14 — undeclared access never commits.
//!
//! (a) For each access kind and each op kind a program whose declared footprint omits EXACTLY
//!     that item (or that is inherently unlawful for a user rule: cross-instance write,
//!     instance-level op), placed at every rank among 0..2 honest independent rewrites, executed
//!     with 1..W workers under EVERY claim schedule (controlled claim counter), must make
//!     `commit_with_receipt` unwind with a `FootprintViolation` (or `…WithPanic`) payload of the
//!     matching kind and leave `Engine::state()` and the ledger unchanged.
//! (b) Every honest program (C01 menu, all scenarios incl. the descended instance) commits
//!     without being flagged.
//! (c) Attribution completeness: for every op of a small alphabet over every state of `U_A`
//!     (quick) where it applies, every `GraphView` observation that changes is covered by the
//!     locations `op_write_targets` attributes to the op.

use std::collections::{BTreeMap, BTreeSet};
use std::sync::{Arc, Mutex};

use mc::sched::{explore, Script};
use mc::{json, Level, Report};
use rayon::prelude::*;
use rules::pool::{pre_chain, scenarios};
use rules::tick::{run_tick, Cand, TickFailure};
use rules::{universe, FpItem, Program, RefSlotOrScope, Step, CARRIER0, RULE_A};
use warp_core::verif_hooks::{footprint_guard, rt};
use warp_core::{
    AttachmentKey, AttachmentOwner, EdgeRecord, NodeRecord, SchedulerKind, TickCommitStatus,
    WarpOp, WarpState, WarpTickPatchV1,
};
use world::{RefSlot, RefState, Universe};

struct Violator {
    name: &'static str,
    program: Program,
    /// Expected ViolationKind variant name (prefix of its Debug form), or "Panic" for an honest panicker.
    expect: &'static str,
    with_panic: bool,
}

fn violators() -> Vec<Violator> {
    let mk = |name, steps: Vec<Step>, item: Option<FpItem>, expect, with_panic| {
        let p = Program::new(steps);
        let program = match item {
            Some(i) => p.omitting_item(i).unwrap_or_else(|| panic!("{name}: item not in honest footprint")),
            None => p,
        };
        Violator { name, program, expect, with_panic }
    };
    use FpItem::*;
    use RefSlotOrScope as S;
    vec![
        mk("node-read", vec![Step::ReadNode { n: 2 }], Some(NRead(2)), "NodeReadNotDeclared", false),
        mk("adjacency-read", vec![Step::ReadAdj { n: 2 }], Some(NRead(2)), "NodeReadNotDeclared", false),
        mk("node-attachment-read", vec![Step::ReadNodeAtt { n: 2 }], Some(ARead(S::Node(2))), "AttachmentReadNotDeclared", false),
        mk("edge-attachment-read", vec![Step::ReadEdgeAtt { e: 1 }], Some(ARead(S::Edge(1))), "AttachmentReadNotDeclared", false),
        mk("edge-existence-read", vec![Step::HasEdge { e: 1 }], Some(ERead(1)), "EdgeReadNotDeclared", false),
        mk("self-attachment-read", vec![Step::SetNodeAtt { n: 2, v: 1 }], Some(ARead(S::Scope)), "AttachmentReadNotDeclared", false),
        mk("copy-source-read", vec![Step::CopyNodeAtt { from: 1, to: 2 }], Some(ARead(S::Node(1))), "AttachmentReadNotDeclared", false),
        mk("upsert-node", vec![Step::UpsertNode { n: 3, ty: 1 }], Some(NWrite(3)), "NodeWriteNotDeclared", false),
        mk("delete-node:node", vec![Step::DeleteNode { n: 3 }], Some(NWrite(3)), "NodeWriteNotDeclared", false),
        mk("delete-node:attachment", vec![Step::DeleteNode { n: 3 }], Some(AWrite(S::Node(3))), "AttachmentWriteNotDeclared", false),
        mk("upsert-edge:from-adjacency", vec![Step::UpsertEdge { e: 2, from: 2, to: 0, ty: 0 }], Some(NWrite(2)), "NodeWriteNotDeclared", false),
        mk("upsert-edge:edge", vec![Step::UpsertEdge { e: 2, from: 2, to: 0, ty: 0 }], Some(EWrite(2)), "EdgeWriteNotDeclared", false),
        mk("delete-edge:from-adjacency", vec![Step::DeleteEdge { e: 1, from: 1 }], Some(NWrite(1)), "NodeWriteNotDeclared", false),
        mk("delete-edge:edge", vec![Step::DeleteEdge { e: 1, from: 1 }], Some(EWrite(1)), "EdgeWriteNotDeclared", false),
        mk("delete-edge:attachment", vec![Step::DeleteEdge { e: 1, from: 1 }], Some(AWrite(S::Edge(1))), "AttachmentWriteNotDeclared", false),
        mk("set-node-attachment", vec![Step::SetNodeAtt { n: 2, v: 2 }], Some(AWrite(S::Node(2))), "AttachmentWriteNotDeclared", false),
        mk("set-edge-attachment", vec![Step::SetEdgeAtt { e: 1, v: 2 }], Some(AWrite(S::Edge(1))), "AttachmentWriteNotDeclared", false),
        mk("second-of-two-ops", vec![Step::SetNodeAtt { n: 2, v: 2 }, Step::UpsertNode { n: 3, ty: 1 }], Some(NWrite(3)), "NodeWriteNotDeclared", false),
        mk("cross-instance-write", vec![Step::CrossSetNodeAtt { w: 1, n: 0, v: 1 }], None, "CrossWarpEmission", false),
        mk("instance-op:open-portal", vec![Step::OpenPortal { n: 2, w: 1, root: 0 }], None, "UnauthorizedInstanceOp", false),
        mk("instance-op:upsert-instance", vec![Step::UpsertInstance { w: 2, root: 0 }], None, "UnauthorizedInstanceOp", false),
        mk("undeclared-write-then-panic", vec![Step::SetNodeAtt { n: 2, v: 2 }, Step::Panic], Some(AWrite(S::Node(2))), "AttachmentWriteNotDeclared", true),
        mk("undeclared-read-before-write", vec![Step::ReadNode { n: 2 }, Step::SetNodeAtt { n: 2, v: 2 }], Some(NRead(2)), "NodeReadNotDeclared", false),
        mk("honest-panic", vec![Step::SetNodeAtt { n: 2, v: 2 }, Step::Panic], None, "Panic", false),
    ]
}

fn honest_companions() -> Vec<Program> {
    vec![
        Program::new(vec![Step::SetNodeAtt { n: 0, v: 1 }]),
        Program::new(vec![Step::SetEdgeAtt { e: 0, v: 2 }]),
    ]
}

fn controlled<R>(workers: usize, script: Arc<Mutex<Script>>, f: impl FnOnce() -> R) -> (R, rt::RunLog) {
    let s2 = Arc::clone(&script);
    rt::install(
        workers,
        Box::new(move |enabled: &[usize], costly: bool| {
            s2.lock().unwrap_or_else(|e| e.into_inner()).choose(enabled.len(), costly)
        }),
    );
    let out = f();
    (out, rt::uninstall().unwrap_or_default())
}

fn state_fp(u: &Universe, s: &WarpState) -> String {
    format!("{:?}", u.read(s))
}

/// Carrier layouts: `SPREAD` puts the programs on carriers in three different shards (three
/// work units), `SHARED` puts the first two on carriers that share a shard (same work unit).
const SPREAD: [u8; 3] = [0, 2, 4];
const SHARED: [u8; 3] = [0, 1, 2];

/// One (violator, companions, placement, layout) case under every schedule for `workers`.
fn run_case(r: &Report, v: &Violator, h: usize, slot: usize, workers: usize, layout: &[u8; 3]) {
    let u = universe();
    let comps = honest_companions();
    let mut pre = pre_chain();
    let mut ci = 0;
    let mut seq: Vec<Cand> = Vec::new();
    for i in 0..=h {
        let p = if i == slot {
            v.program.clone()
        } else {
            ci += 1;
            comps[ci - 1].clone()
        };
        let n = CARRIER0 + layout[i];
        pre.nodes.insert((0, n), 2);
        pre.atts.insert(RefSlot::Node(0, n), p.carrier_att());
        seq.push((RULE_A, 0u8, n));
    }
    let pre_real_fp = state_fp(u, &u.build(&pre));
    let unit_count = {
        let mut shards: BTreeSet<u8> = BTreeSet::new();
        for c in &seq {
            shards.insert(u.node(c.2).0[0]);
        }
        shards.len()
    };
    let eff = workers.min(unit_count);
    let case_base = json!({"violator": v.name, "program": format!("{:?}", v.program.steps), "omit_item": v.program.omit,
        "honest_companions": h, "violator_carrier": slot, "workers": workers, "layout": layout});
    let mut ranks: BTreeSet<usize> = BTreeSet::new();
    let mut on_workers: BTreeSet<usize> = BTreeSet::new();
    let stats = explore(
        None,
        |script: &mut Script| {
            let shared = Arc::new(Mutex::new(std::mem::take(script)));
            let (res, log) = controlled(eff, Arc::clone(&shared), || run_tick(&pre, &seq, SchedulerKind::Radix, workers));
            *script = std::mem::take(&mut *shared.lock().unwrap_or_else(|e| e.into_inner()));
            if let Some(e) = &log.error {
                script.error = Some(format!("controller: {e}"));
                return;
            }
            for g in &log.grants {
                on_workers.insert(*g);
            }
            let case = json!({"case": case_base, "schedule": script.choices()});
            match res {
                Ok(_) => r.violation(
                    &format!("undeclared-access-committed:{}", v.name),
                    case,
                ),
                Err((fail, after)) => {
                    let ok_kind = match &fail {
                        TickFailure::Violation { kind, with_panic, .. } => kind.starts_with(v.expect) && *with_panic == v.with_panic,
                        TickFailure::Panic(_) => v.expect == "Panic",
                        _ => false,
                    };
                    if !ok_kind {
                        r.violation(
                            &format!("wrong-failure-for-undeclared-access:{}:{}", v.name, short(&fail)),
                            json!({"case": case, "failure": format!("{fail:?}"), "expected": v.expect}),
                        );
                    }
                    r.outcome(&short(&fail));
                    match after {
                        Some(st) => {
                            if state_fp(u, &st) != pre_real_fp {
                                r.violation(
                                    &format!("failed-tick-left-visible-effects:{}", v.name),
                                    json!({"case": case, "after": state_fp(u, &st)}),
                                );
                            }
                        }
                        None => r.machinery_error("no engine state after failure"),
                    }
                }
            }
        },
        || r.over_budget_frac(0.75),
    );
    r.eval(stats.executions);
    r.counter("violator_schedules", stats.executions);
    for e in &stats.errors {
        r.machinery_error(e);
    }
    if stats.capped {
        r.cap_hit("violator schedule exploration stopped by wall cap");
    }
    // rank of the violator in canonical order
    let mut keyed: Vec<(usize, [u8; 32])> = seq.iter().enumerate().map(|(i, c)| (i, warp_core::scope_hash(&rules::rule_id(c.0), &u.node_key(c.1, c.2)))).collect();
    keyed.sort_by_key(|k| k.1);
    if let Some(rank) = keyed.iter().position(|(i, _)| *i == slot) {
        ranks.insert(rank);
        r.outcome(&format!("violator_rank={rank}_of_{}", h + 1));
    }
    r.nontrivial(format!("{}:{h}:{slot}:{workers}:{layout:?}", v.name).as_bytes());
    if workers >= 2 && on_workers.len() >= 2 {
        r.counter("cases_with_violator_on_multiple_workers", 1);
    }
}

fn short(f: &TickFailure) -> String {
    match f {
        TickFailure::EngineError(e) => format!("EngineError:{}", e.split(|c| c == '(' || c == ' ').next().unwrap_or("")),
        TickFailure::Violation { kind, with_panic, .. } => format!(
            "Violation:{}{}",
            kind.split('(').next().unwrap_or("").split(' ').next().unwrap_or(""),
            if *with_panic { "+panic" } else { "" }
        ),
        TickFailure::Panic(_) => "Panic".into(),
        TickFailure::Setup(s) => format!("Setup:{s}"),
    }
}

/// (b) honest programs are never flagged.
fn honest_never_flagged(r: &Report) {
    let level = if r.quick() { 0 } else { 1 };
    for scen in scenarios(level) {
        let sets = mc::enumerate::subsets_range(scen.pool.len(), 1, 2);
        sets.par_iter().for_each(|ixs| {
            let seq: Vec<Cand> = ixs.iter().map(|i| scen.pool[*i].0).collect();
            r.eval(1);
            match run_tick(&scen.pre, &seq, SchedulerKind::Radix, 1) {
                Ok(_) => r.counter("honest_ticks_committed", 1),
                Err((f, _)) => r.violation(
                    &format!("honest-rewrite-flagged:{}:{}", scen.name, short(&f)),
                    json!({"case": {"scenario": scen.name, "sequence": seq.iter().map(|c| format!("{}@W{}.n{}", c.0, c.1, c.2)).collect::<Vec<_>>()}, "failure": format!("{f:?}")}),
                ),
            }
        });
    }
}

/// (d) The legacy engine-inbox path: `dispatch_next_intent` puts the user handler and the system
/// rule `sys/ack_pending` on the SAME event scope, i.e. into one work unit.  System privileges
/// (instance-level ops) must stay per rewrite: every violator must still be flagged with the same
/// kind and leave the state untouched, every honest program must commit, with and without an
/// honest companion unit, on 1..2 workers.
fn inbox_path(r: &Report) {
    let u = universe();
    let comps = honest_companions();
    let cases: Vec<(usize, usize, usize)> = (0..violators().len()).flat_map(|vi| (0..=1).flat_map(move |h| (1..=2).map(move |w| (vi, h, w)))).collect();
    let vs = violators();
    cases.par_iter().for_each(|&(vi, h, workers)| {
        let v = &vs[vi];
        let mut pre = pre_chain();
        let mut seq: Vec<Cand> = Vec::new();
        if h == 1 {
            let n = CARRIER0;
            pre.nodes.insert((0, n), 2);
            pre.atts.insert(RefSlot::Node(0, n), comps[0].carrier_att());
            seq.push((RULE_A, 0u8, n));
        }
        r.eval(1);
        let case = json!({"case": {"phase": "inbox", "violator": v.name, "program": format!("{:?}", v.program.steps), "omit_item": v.program.omit, "companions": h, "workers": workers}});
        match rules::tick::run_inbox_tick(&pre, &v.program.to_bytes(), &seq, SchedulerKind::Radix, workers) {
            Ok(_) => r.violation(&format!("undeclared-access-committed:inbox-dispatch(next to sys/ack_pending):{}", v.name), case),
            Err((TickFailure::Setup(e), _, _)) => r.machinery_error(&format!("inbox phase setup: {e}")),
            Err((fail, after, before)) => {
                let ok_kind = match &fail {
                    TickFailure::Violation { kind, with_panic, .. } => kind.starts_with(v.expect) && *with_panic == v.with_panic,
                    TickFailure::Panic(_) => v.expect == "Panic",
                    _ => false,
                };
                if !ok_kind {
                    r.violation(
                        &format!("wrong-failure-for-undeclared-access:inbox-dispatch:{}:{}", v.name, short(&fail)),
                        json!({"case": case, "failure": format!("{fail:?}"), "expected": v.expect}),
                    );
                }
                r.outcome(&format!("inbox:{}", short(&fail)));
                match (after, before) {
                    (Some(a), Some(b)) => {
                        if format!("{a:?}") != format!("{b:?}") {
                            r.violation(&format!("failed-tick-left-visible-effects:inbox-dispatch:{}", v.name), json!({"case": case}));
                        }
                    }
                    _ => r.machinery_error("inbox phase: no engine state after failure"),
                }
                r.nontrivial(format!("inbox:{}:{h}:{workers}", v.name).as_bytes());
            }
        }
        let _ = u;
    });
    // honest programs through the same path
    // menu entries 12/13 re-assert portals that only exist in the nested-portal scenario: on the
    // chain pre-state they would emit a Descend to a missing instance (an invalid op, not an
    // honest program), so the inbox phase takes the portal-free part of the menu
    let honest: Vec<Program> = rules::pool::menu().into_iter().take(12).chain(honest_companions()).collect();
    for (i, p) in honest.iter().enumerate() {
        let pre = pre_chain();
        if !rules::ref_matches(p, &pre, 0) {
            continue;
        }
        for workers in 1..=2 {
            r.eval(1);
            match rules::tick::run_inbox_tick(&pre, &p.to_bytes(), &[], SchedulerKind::Radix, workers) {
                Ok(o) => {
                    r.counter("inbox_honest_ticks_committed", 1);
                    // both the handler and sys/ack_pending were applied
                    if o.applied.iter().filter(|a| **a).count() >= 2 {
                        r.counter("inbox_ticks_with_user_and_system_rewrite_applied", 1);
                    }
                }
                Err((TickFailure::Setup(e), _, _)) => r.machinery_error(&format!("inbox honest setup: {e}")),
                Err((f, _, _)) => r.violation(
                    &format!("honest-rewrite-flagged:inbox-dispatch:{}", short(&f)),
                    json!({"case": {"phase": "inbox-honest", "menu_index": i, "program": format!("{:?}", p.steps), "workers": workers}, "failure": format!("{f:?}")}),
                ),
            }
        }
    }
}

// ---------------------------------------------------------------------------------------------
// (c) attribution completeness
// ---------------------------------------------------------------------------------------------

#[derive(Clone, Debug, PartialEq, Eq, PartialOrd, Ord)]
enum Loc {
    Node(u8),
    Edge(u8),
    NodeAtt(u8),
    EdgeAtt(u8),
}

/// Everything a rule can observe through `GraphView` in instance 0, keyed by the location whose
/// read permission the observation requires.
fn observations(u: &Universe, s: &WarpState, nn: u8, ne: u8) -> BTreeMap<Loc, String> {
    let mut out = BTreeMap::new();
    let Some(store) = s.store(&u.warp(0)) else { return out };
    let view = warp_core::GraphView::new(store);
    for n in 0..nn {
        let id = u.node(n);
        let adj: Vec<&EdgeRecord> = view.edges_from(&id).collect();
        out.insert(Loc::Node(n), format!("{:?}|{:?}", view.node(&id), adj));
        out.insert(Loc::NodeAtt(n), format!("{:?}", view.node_attachment(&id)));
    }
    for e in 0..ne {
        let id = u.edge(e);
        out.insert(Loc::Edge(e), format!("{}", view.has_edge(&id)));
        out.insert(Loc::EdgeAtt(e), format!("{:?}", view.edge_attachment(&id)));
    }
    out
}

fn op_alphabet(u: &Universe) -> Vec<(String, WarpOp)> {
    let mut ops = Vec::new();
    let w = u.warp(0);
    for n in 0..3u8 {
        for t in 0..2u8 {
            ops.push((format!("UpsertNode(n{n},t{t})"), WarpOp::UpsertNode { node: u.node_key(0, n), record: NodeRecord { ty: u.ty(t) } }));
        }
        ops.push((format!("DeleteNode(n{n})"), WarpOp::DeleteNode { node: u.node_key(0, n) }));
        for v in [None, Some(world::RefAtt::Atom(0, b"Z".to_vec()))] {
            ops.push((
                format!("SetAttachment(node n{n},{})", if v.is_some() { "Z" } else { "None" }),
                WarpOp::SetAttachment { key: AttachmentKey::node_alpha(u.node_key(0, n)), value: v.as_ref().map(|a| u.att_value(a)) },
            ));
        }
    }
    for e in 0..2u8 {
        for from in 0..3u8 {
            ops.push((format!("DeleteEdge(e{e},from n{from})"), WarpOp::DeleteEdge { warp_id: w, from: u.node(from), edge_id: u.edge(e) }));
            for to in 0..3u8 {
                for t in 0..2u8 {
                    ops.push((
                        format!("UpsertEdge(e{e}:n{from}->n{to},t{t})"),
                        WarpOp::UpsertEdge { warp_id: w, record: EdgeRecord { id: u.edge(e), from: u.node(from), to: u.node(to), ty: u.ty(t) } },
                    ));
                }
            }
        }
        for v in [None, Some(world::RefAtt::Atom(0, b"Z".to_vec()))] {
            ops.push((
                format!("SetAttachment(edge e{e},{})", if v.is_some() { "Z" } else { "None" }),
                WarpOp::SetAttachment { key: AttachmentKey::edge_beta(u.edge_key(0, e)), value: v.as_ref().map(|a| u.att_value(a)) },
            ));
        }
    }
    ops
}

fn op_class(name: &str, pre: &RefState, op: &WarpOp, u: &Universe) -> String {
    match op {
        WarpOp::UpsertEdge { record, .. } => {
            let e = u.edges.iter().position(|x| *x == record.id).unwrap_or(0) as u8;
            match pre.edges.get(&(0, e)) {
                Some(old) if u.node(old.from) != record.from => "UpsertEdge:reparent".into(),
                Some(_) => "UpsertEdge:replace-same-from".into(),
                None => "UpsertEdge:new".into(),
            }
        }
        _ => name.split('(').next().unwrap_or("?").to_string(),
    }
}

fn attribution(r: &Report) {
    let u = Universe::default();
    let (states, _) = world::spec_u_a(0).enumerate();
    let ops = op_alphabet(&u);
    r.note("attribution_states", json!(states.len()));
    r.note("attribution_ops", json!(ops.len()));
    states.par_iter().for_each(|s| {
        if r.over_budget() {
            r.cap_hit("attribution sweep stopped by wall cap");
            return;
        }
        let real = u.build(s);
        let before = observations(&u, &real, 3, 2);
        let mut local_keys = Vec::new();
        for (name, op) in &ops {
            let mut st = real.clone();
            let patch = WarpTickPatchV1::new(0, [0u8; 32], TickCommitStatus::Committed, vec![], vec![], vec![op.clone()]);
            r.eval(1);
            if patch.apply_to_state(&mut st).is_err() {
                continue;
            }
            let after = observations(&u, &st, 3, 2);
            let t = footprint_guard::write_targets(op);
            let mut attributed: BTreeSet<Loc> = BTreeSet::new();
            for n in &t.nodes {
                if let Some(i) = u.nodes.iter().position(|x| x == n) {
                    attributed.insert(Loc::Node(i as u8));
                }
            }
            for e in &t.edges {
                if let Some(i) = u.edges.iter().position(|x| x == e) {
                    attributed.insert(Loc::Edge(i as u8));
                }
            }
            for a in &t.attachments {
                match a.owner {
                    AttachmentOwner::Node(nk) => {
                        if let Some(i) = u.nodes.iter().position(|x| *x == nk.local_id) {
                            attributed.insert(Loc::NodeAtt(i as u8));
                        }
                    }
                    AttachmentOwner::Edge(ek) => {
                        if let Some(i) = u.edges.iter().position(|x| *x == ek.local_id) {
                            attributed.insert(Loc::EdgeAtt(i as u8));
                        }
                    }
                }
            }
            let changed: Vec<Loc> = before
                .iter()
                .filter(|(k, v)| after.get(*k) != Some(*v))
                .map(|(k, _)| k.clone())
                .collect();
            if !changed.is_empty() {
                local_keys.push(Report::key(format!("{name}:{}", String::from_utf8_lossy(&s.key())).as_bytes()));
            }
            let class = op_class(name, s, op, &u);
            for c in &changed {
                if !attributed.contains(c) {
                    let what = match c {
                        Loc::Node(_) => "node-or-adjacency",
                        Loc::Edge(_) => "edge-existence",
                        Loc::NodeAtt(_) => "node-attachment",
                        Loc::EdgeAtt(_) => "edge-attachment",
                    };
                    r.violation(
                        &format!("attribution-incomplete:{class}:changes-unattributed-{what}"),
                        json!({"case": {"state": s.to_json(), "op": name}, "changed": format!("{c:?}"), "attributed": format!("{attributed:?}")}),
                    );
                }
            }
            r.outcome_n(&format!("applied:{class}"), 1);
        }
        r.nontrivial_many(local_keys);
    });
    r.sample_force(json!({"attribution_case": {"state": states[states.len() / 2].to_json(), "ops": ops.iter().take(6).map(|(n, _)| n.clone()).collect::<Vec<_>>()}}));
}

fn replay(r: &Report, path: &std::path::Path) {
    let txt = std::fs::read_to_string(path).unwrap_or_default();
    let v: serde_json::Value = serde_json::from_str(&txt).unwrap_or_default();
    let case = &v["detail"]["case"];
    let inner = if case.get("case").is_some() { &case["case"] } else { case };
    if let Some(name) = inner["violator"].as_str() {
        if let Some(vi) = violators().into_iter().find(|x| x.name == name) {
            let h = inner["honest_companions"].as_u64().unwrap_or(0) as usize;
            let slot = inner["violator_carrier"].as_u64().unwrap_or(0) as usize;
            let workers = inner["workers"].as_u64().unwrap_or(1) as usize;
            let shared = inner["layout"] == json!(SHARED);
            run_case(r, &vi, h, slot, workers, if shared { &SHARED } else { &SPREAD });
        }
    } else {
        r.machinery_error("replay: attribution/honest cases are replayed by re-running the tier (they are deterministic sweeps)");
    }
    r.nontrivial(b"replay-x");
    r.sample(case.clone());
}

fn main() {
    mc::quiet_panics();
    let r = Report::new("C14", Level::Exploration);
    r.rule("cases = (violating program, number of honest companions, carrier placement, worker count, complete claim schedule) committed on the real Engine with enforcement active; \
            plus honest programs; plus (state, op) attribution checks. distinct_nontrivial = distinct (violator, companions, placement, workers) cases + distinct (state, op) pairs whose application changed at least one GraphView observation");
    r.assume("enforcement is active in this build (profile with debug-assertions); rules are user rules (not system)");
    r.assume("observable content = what GraphView exposes: node record + outbound adjacency (node read), edge existence, node/edge attachment");
    if let Some(p) = r.replay.clone() {
        replay(&r, &p);
        r.finish();
    }
    let max_workers = r.pick(2, 3);
    let max_h = 2usize;
    for v in violators() {
        for h in 0..=max_h {
            for slot in 0..=h {
                for workers in 1..=max_workers {
                    if r.over_budget_frac(0.75) {
                        r.cap_hit("violator family stopped by wall cap");
                        break;
                    }
                    run_case(&r, &v, h, slot, workers, &SPREAD);
                    if h >= 1 {
                        run_case(&r, &v, h, slot, workers, &SHARED);
                    }
                }
            }
        }
        r.sample(json!({"violator": v.name, "program": format!("{:?}", v.program.steps), "omitted_item_index": v.program.omit, "expected": v.expect}));
    }
    honest_never_flagged(&r);
    inbox_path(&r);
    attribution(&r);

    r.guard("honest_ticks_committed", r.counter_value("honest_ticks_committed") > 0);
    r.guard("inbox_user_and_system_rewrite_in_one_tick", r.counter_value("inbox_ticks_with_user_and_system_rewrite_applied") > 0);
    r.guard("inbox_instance_op_flagged", r.outcome_count("inbox:Violation:UnauthorizedInstanceOp") > 0);
    r.guard("violator_on_multiple_workers", r.counter_value("cases_with_violator_on_multiple_workers") > 0);
    r.guard("violator_at_every_rank_of_3", (0..3).all(|k| r.outcome_count(&format!("violator_rank={k}_of_3")) > 0));
    r.guard(">=6 distinct violation kinds observed", {
        ["Violation:NodeReadNotDeclared", "Violation:EdgeReadNotDeclared", "Violation:AttachmentReadNotDeclared", "Violation:NodeWriteNotDeclared",
         "Violation:EdgeWriteNotDeclared", "Violation:AttachmentWriteNotDeclared", "Violation:CrossWarpEmission", "Violation:UnauthorizedInstanceOp"]
            .iter().filter(|k| r.outcome_count(k) > 0).count() >= 6
    });
    r.guard("reparent_ops_applied", r.outcome_count("applied:UpsertEdge:reparent") > 0);
    r.finish();
}
