//! Property check C06 — "the state root commits to exactly the reachable state; independent
//! computations agree; a WSC round-trip denotes the same state" (see /verif/DESIGN.md §4 C06).
//!
//! Sub-checks (each reports under its own signature prefix):
//!  (1) `state-root-…`      root is a function of, and injective on, the abstract reachable content;
//!  (2) `construction-order…` every construction order / detour of the same abstract state gives the
//!                           same root, accumulator root and WSC bytes;
//!  (3) `accumulator-…`     the columnar accumulator's root equals the legacy root on every state, and
//!                           accumulator(apply ops) equals accumulator(store after the same ops);
//!  (4) `wsc-…`             build_one_warp_input → write_wsc_one_warp → from_bytes → validate_wsc →
//!                           view decodes back to the same abstract instance;
//!  (5) the same on a universe of adversarial raw ids (`U_RAW`).

use std::collections::{BTreeMap, BTreeSet, HashSet};

use mc::{json, Level, Report, Value};
use pairlib::*;
use rayon::prelude::*;
use warp_core::verif_hooks as hooks;
use warp_core::wsc::{build_one_warp_input, validate_wsc, write_wsc_one_warp, WscFile};
use warp_core::{NodeKey, WarpState};
use world::{RefAtt, RefEdge, RefInstance, RefSlot, RefState, Spec, Universe, E, N, T, W};

// ---------------------------------------------------------------------------------------------
// (5) adversarial raw-id universe
// ---------------------------------------------------------------------------------------------

/// 32-byte id whose first 8 bytes are the little-endian count `k` and the rest zero.
fn le_count_id(k: u64) -> [u8; 32] {
    let mut b = [0u8; 32];
    b[..8].copy_from_slice(&k.to_le_bytes());
    b
}

/// `U_RAW`: every id table uses the same "looks like a little-endian count" byte strings, so a
/// node id, an edge id, a type id and a warp id can be byte-identical, and attachment payloads
/// imitate record fragments of the hash pre-image (an id, a count, a whole node record).
fn uni_raw() -> Uni {
    let u = Universe::raw(
        vec![le_count_id(1), le_count_id(2)],
        vec![le_count_id(1), le_count_id(2), le_count_id(3)],
        vec![le_count_id(1), le_count_id(2)],
        vec![le_count_id(0), le_count_id(1), le_count_id(2)],
    );
    let edge = |from: N, to: N, ty: T| Some(RefEdge { from, to, ty });
    let atom = |t: T, b: Vec<u8>| Some(RefAtt::Atom(t, b));
    // payload imitating "node id ‖ type id ‖ 00" (a node record without attachment)
    let mut fake_node = Vec::new();
    fake_node.extend_from_slice(&le_count_id(2));
    fake_node.extend_from_slice(&le_count_id(0));
    fake_node.push(0);
    // payload imitating "count=1 ‖ edge id[..23]" (31 bytes: makes a node record as long as a 1-edge bucket)
    let mut fake_bucket = Vec::new();
    fake_bucket.extend_from_slice(&1u64.to_le_bytes());
    fake_bucket.extend_from_slice(&le_count_id(1)[..23]);
    let spec = Spec {
        instances: vec![
            (
                0,
                vec![Some(RefInstance {
                    root: 0,
                    parent: None,
                })],
            ),
            (
                1,
                vec![
                    None,
                    Some(RefInstance {
                        root: 0,
                        parent: Some(RefSlot::Node(0, 1)),
                    }),
                ],
            ),
        ],
        nodes: vec![
            ((0, 0), vec![Some(0), Some(1)]),
            ((0, 1), vec![None, Some(0), Some(1)]),
            ((0, 2), vec![None, Some(0)]),
            ((1, 0), vec![None, Some(0)]),
        ],
        edges: vec![
            (
                (0, 0),
                vec![
                    None,
                    edge(0, 1, 0),
                    edge(0, 1, 1),
                    edge(0, 2, 0),
                    edge(1, 2, 1),
                    edge(1, 0, 0),
                ],
            ),
            ((0, 1), vec![None, edge(0, 1, 0), edge(0, 2, 1)]),
        ],
        atts: vec![
            (
                RefSlot::Node(0, 0),
                vec![None, atom(1, 1u64.to_le_bytes().to_vec()), atom(0, fake_node)],
            ),
            (
                RefSlot::Node(0, 1),
                vec![None, atom(0, le_count_id(1).to_vec()), Some(RefAtt::Descend(1))],
            ),
            (
                RefSlot::Edge(0, 0),
                vec![None, atom(1, Vec::new()), atom(0, fake_bucket)],
            ),
        ],
    };
    Uni::from_spec("U_RAW", 0, u, &spec)
}

/// `U_AR`: every state of `U_A` level 0 re-rooted at each other existing node of the root
/// instance (the root itself is part of what the state root commits to).  Enumerated together
/// with the original states so that collisions *across* roots would be seen.
fn uni_rerooted() -> Uni {
    let base = Uni::a(0);
    let mut states = base.states.clone();
    for s in &base.states {
        for n in 1..3u8 {
            if s.nodes.contains_key(&(0, n)) {
                let mut t = s.clone();
                if let Some(i) = t.instances.get_mut(&0) {
                    i.root = n;
                }
                if t.well_formed() {
                    states.push(t);
                }
            }
        }
    }
    states.sort();
    states.dedup();
    Uni {
        name: "U_AR".into(),
        level: 0,
        u: base.u,
        states,
        raw: base.raw,
    }
}

// ---------------------------------------------------------------------------------------------
// per-state work
// ---------------------------------------------------------------------------------------------

#[derive(Default)]
struct StateOut {
    root: [u8; 32],
    acc_root: [u8; 32],
    acc_matches_legacy: bool,
    strict_subset: bool,
    variants: u64,
    variants_physically_different: u64,
    wsc_instances: u64,
    wsc_bytes_total: u64,
    /// accumulator's WSC bytes == writer's bytes for the root instance (observation only)
    acc_wsc_equal: Option<bool>,
    fully_reachable_root_instance: bool,
    /// (signature, human detail)
    viol: Vec<(String, String)>,
    machinery: Vec<String>,
}

fn pos32<TId: Copy>(table: &[TId], get: impl Fn(&TId) -> [u8; 32], id: &[u8; 32]) -> Option<u8> {
    table.iter().position(|x| &get(x) == id).map(|i| i as u8)
}

/// Projection of `s` onto instance `w` (what one single-warp WSC file can denote).
fn project(s: &RefState, w: W) -> RefState {
    let mut o = RefState::default();
    if let Some(i) = s.instances.get(&w) {
        o.instances.insert(
            w,
            RefInstance {
                root: i.root,
                parent: None,
            },
        );
    }
    for ((nw, n), t) in &s.nodes {
        if *nw == w {
            o.nodes.insert((*nw, *n), *t);
        }
    }
    for ((ew, e), r) in &s.edges {
        if *ew == w {
            o.edges.insert((*ew, *e), *r);
        }
    }
    for (slot, a) in &s.atts {
        let sw = match slot {
            RefSlot::Node(x, _) | RefSlot::Edge(x, _) => *x,
        };
        if sw == w {
            o.atts.insert(*slot, a.clone());
        }
    }
    o
}

/// WSC bytes of instance `w` of `state`, or a violation signature.
fn wsc_bytes(u: &Universe, s: &RefState, state: &WarpState, w: W) -> Result<Vec<u8>, (String, String)> {
    let store = state
        .store(&u.warp(w))
        .ok_or_else(|| ("wsc:machinery".to_string(), "store missing".to_string()))?;
    let root = u.node(s.instances[&w].root);
    let input = mc::catch(|| build_one_warp_input(store, root))
        .map_err(|p| ("wsc-build-panics".to_string(), p))?;
    match mc::catch(|| write_wsc_one_warp(&input, [0u8; 32], 0)) {
        Ok(Ok(b)) => Ok(b),
        Ok(Err(e)) => Err(("wsc-write-fails".into(), format!("{e}"))),
        Err(p) => Err(("wsc-write-panics".into(), p)),
    }
}

/// Decode WSC bytes through the public view accessors back into an abstract instance.
fn wsc_decode(u: &Universe, w: W, bytes: &[u8]) -> Result<RefState, (String, String)> {
    let file = WscFile::from_bytes(bytes.to_vec())
        .map_err(|e| ("wsc-from_bytes-rejects-writer-output".to_string(), format!("{e:?}")))?;
    validate_wsc(&file).map_err(|e| {
        let full = format!("{e:?}");
        let variant: String = full
            .chars()
            .take_while(|c| c.is_ascii_alphanumeric())
            .collect();
        (format!("wsc-validate-rejects-writer-output:{variant}"), full)
    })?;
    let bad = |what: &str| ("wsc-roundtrip-differs:".to_string() + what, what.to_string());
    if file.warp_count() != 1 {
        return Err(bad("warp-count"));
    }
    let view = file
        .warp_view(0)
        .map_err(|e| ("wsc-warp_view-fails".to_string(), format!("{e:?}")))?;
    if view.warp_id() != &u.warp(w).0 {
        return Err(bad("warp-id"));
    }
    let mut o = RefState::default();
    let root = pos32(&u.nodes, |x| x.0, view.root_node_id()).ok_or_else(|| bad("root-node-id"))?;
    o.instances.insert(w, RefInstance { root, parent: None });
    let att_of = |row: &warp_core::wsc::types::AttRow| -> Result<RefAtt, (String, String)> {
        if row.is_atom() {
            let t = pos32(&u.types, |x| x.0, &row.type_or_warp).ok_or_else(|| bad("attachment-type-id"))?;
            let blob = view
                .blob_for_attachment(row)
                .ok_or_else(|| bad("attachment-blob-range"))?;
            Ok(RefAtt::Atom(t, blob.to_vec()))
        } else if row.is_descend() {
            let cw = pos32(&u.warps, |x| x.0, &row.type_or_warp).ok_or_else(|| bad("descend-warp-id"))?;
            Ok(RefAtt::Descend(cw))
        } else {
            Err(bad("attachment-tag"))
        }
    };
    for (ix, row) in view.nodes().iter().enumerate() {
        let n = pos32(&u.nodes, |x| x.0, &row.node_id).ok_or_else(|| bad("node-id"))?;
        let t = pos32(&u.types, |x| x.0, &row.node_type).ok_or_else(|| bad("node-type"))?;
        if o.nodes.insert((w, n), t).is_some() {
            return Err(bad("duplicate-node"));
        }
        let atts = view.node_attachments(ix);
        if atts.len() > 1 {
            return Err(bad("node-attachment-count"));
        }
        if let Some(a) = atts.first() {
            o.atts.insert(RefSlot::Node(w, n), att_of(a)?);
        }
        if view.node_ix(&row.node_id) != Some(ix) {
            return Err(bad("node_ix-lookup"));
        }
    }
    for (ix, row) in view.edges().iter().enumerate() {
        let e = pos32(&u.edges, |x| x.0, &row.edge_id).ok_or_else(|| bad("edge-id"))?;
        let from = pos32(&u.nodes, |x| x.0, &row.from_node_id).ok_or_else(|| bad("edge-from"))?;
        let to = pos32(&u.nodes, |x| x.0, &row.to_node_id).ok_or_else(|| bad("edge-to"))?;
        let ty = pos32(&u.types, |x| x.0, &row.edge_type).ok_or_else(|| bad("edge-type"))?;
        if o.edges.insert((w, e), RefEdge { from, to, ty }).is_some() {
            return Err(bad("duplicate-edge"));
        }
        let atts = view.edge_attachments(ix);
        if atts.len() > 1 {
            return Err(bad("edge-attachment-count"));
        }
        if let Some(a) = atts.first() {
            o.atts.insert(RefSlot::Edge(w, e), att_of(a)?);
        }
        if view.edge_ix(&row.edge_id) != Some(ix) {
            return Err(bad("edge_ix-lookup"));
        }
    }
    // adjacency table agrees with the edge table
    for (ix, row) in view.nodes().iter().enumerate() {
        let mut listed: BTreeSet<[u8; 32]> = BTreeSet::new();
        for oe in view.out_edges_for_node(ix) {
            let Some(er) = view.edges().get(oe.edge_ix() as usize) else {
                return Err(bad("out-edge-index-range"));
            };
            if er.edge_id != oe.edge_id || er.from_node_id != row.node_id {
                return Err(bad("out-edge-ref"));
            }
            listed.insert(oe.edge_id);
        }
        let expect: BTreeSet<[u8; 32]> = view
            .edges()
            .iter()
            .filter(|e| e.from_node_id == row.node_id)
            .map(|e| e.edge_id)
            .collect();
        if listed != expect {
            return Err(bad("out-edge-set"));
        }
    }
    Ok(o)
}

/// Every alternative construction of the same abstract state: (label, store).
fn construction_variants(u: &Universe, s: &RefState) -> Vec<(String, WarpState)> {
    let mut out = Vec::new();
    out.push(("reverse-insertion".to_string(), u.build_ordered(s, true)));
    let mut counts: BTreeSet<usize> = BTreeSet::new();
    for w in s.instances.keys() {
        counts.insert(s.edges.keys().filter(|(ew, _)| ew == w).count());
    }
    for k in counts {
        if (2..=4).contains(&k) {
            for p in mc::enumerate::all_permutations(k) {
                for rev in [false, true] {
                    out.push((format!("edge-permutation{}", if rev { "+reverse" } else { "" }), u.build_with(s, rev, &p)));
                }
            }
        }
    }
    // detours on the canonical build
    for ((w, e), rec) in &s.edges {
        // delete + re-insert (the edge moves to the end of its bucket; attachment must be re-set)
        let mut st = u.build(s);
        if let Some(store) = st.store_mut(&u.warp(*w)) {
            store.delete_edge_exact(u.node(rec.from), u.edge(*e));
            store.insert_edge(u.node(rec.from), u.edge_record(*e, rec));
            if let Some(a) = s.atts.get(&RefSlot::Edge(*w, *e)) {
                store.set_edge_attachment(u.edge(*e), Some(u.att_value(a)));
            }
        }
        out.push(("detour:edge-delete-reinsert".to_string(), st));
        // migrate to every other existing source bucket and back (same id; attachment stays)
        for ((nw, n), _) in &s.nodes {
            if nw != w || *n == rec.from {
                continue;
            }
            let mut st = u.build(s);
            if let Some(store) = st.store_mut(&u.warp(*w)) {
                let moved = RefEdge { from: *n, ..*rec };
                store.insert_edge(u.node(*n), u.edge_record(*e, &moved));
                store.insert_edge(u.node(rec.from), u.edge_record(*e, rec));
            }
            out.push(("detour:edge-migrate-and-back".to_string(), st));
        }
    }
    for ((w, n), t) in &s.nodes {
        // re-insert the node record (upsert of an equal record) and retype-and-back
        let mut st = u.build(s);
        if let Some(store) = st.store_mut(&u.warp(*w)) {
            store.insert_node(u.node(*n), warp_core::NodeRecord { ty: u.ty((*t + 1) % 2) });
            store.insert_node(u.node(*n), warp_core::NodeRecord { ty: u.ty(*t) });
        }
        out.push(("detour:node-retype-and-back".to_string(), st));
    }
    for (slot, a) in &s.atts {
        if matches!(a, RefAtt::Descend(_)) {
            continue;
        }
        let mut st = u.build(s);
        let (w, is_node, n, e) = match slot {
            RefSlot::Node(w, n) => (*w, true, *n, 0),
            RefSlot::Edge(w, e) => (*w, false, 0, *e),
        };
        if let Some(store) = st.store_mut(&u.warp(w)) {
            if is_node {
                store.set_node_attachment(u.node(n), None);
                store.set_node_attachment(u.node(n), Some(u.att_value(a)));
            } else {
                store.set_edge_attachment(u.edge(e), None);
                store.set_edge_attachment(u.edge(e), Some(u.att_value(a)));
            }
        }
        out.push(("detour:attachment-clear-and-set".to_string(), st));
    }
    out
}

fn check_state(u: &Universe, s: &RefState) -> StateOut {
    let mut o = StateOut::default();
    let real = u.build(s);
    let rk: NodeKey = u.root_key(s);
    o.root = hooks::snapshot::state_root(&real, &rk);
    let content = s.reachable_content();
    o.strict_subset = &content != s;
    // (3a) second implementation
    let canonical_acc = match mc::catch(|| hooks::snapshot_accum::accumulator_root(&real, &rk)) {
        Ok((root, bytes)) => {
            o.acc_root = root;
            o.acc_matches_legacy = root == o.root;
            Some(bytes)
        }
        Err(p) => {
            o.viol.push(("accumulator-panics-on-a-well-formed-state".into(), p));
            None
        }
    };
    // (4) WSC per instance of the canonical build
    let mut canonical_wsc: BTreeMap<W, Vec<u8>> = BTreeMap::new();
    for w in s.instances.keys() {
        match wsc_bytes(u, s, &real, *w) {
            Err(v) => o.viol.push(v),
            Ok(bytes) => {
                o.wsc_instances += 1;
                o.wsc_bytes_total += bytes.len() as u64;
                match wsc_decode(u, *w, &bytes) {
                    Err(v) => o.viol.push(v),
                    Ok(dec) => {
                        let want = project(s, *w);
                        if dec != want {
                            let sigs = discrepancy_sigs(&want, &want, &dec);
                            let what = sigs
                                .first()
                                .map(|x| x.split(':').next().unwrap_or("").trim_start_matches("ok-but-").to_string())
                                .unwrap_or_else(|| "content".into());
                            o.viol.push((
                                format!("wsc-roundtrip-differs:{what}"),
                                format!("decoded {:?}", dec.to_json()),
                            ));
                        }
                    }
                }
                canonical_wsc.insert(*w, bytes);
            }
        }
    }
    // observation: accumulator's WSC bytes vs the store writer's bytes (root instance)
    if let (Some(ab), Some(wb), true) = (&canonical_acc, canonical_wsc.get(&0), s.instances.len() == 1) {
        o.acc_wsc_equal = Some(ab == wb);
        let p0 = project(s, 0);
        let c0 = project(&content, 0);
        o.fully_reachable_root_instance = p0 == c0;
    }
    // (2) construction orders and detours
    let canonical_dbg = format!("{real:?}");
    for (label, st) in construction_variants(u, s) {
        o.variants += 1;
        match u.read(&st) {
            Ok(r) if &r == s => {}
            // The variants are built with public store operations whose net effect is `s` (on the
            // unchanged tree this never fires — every run checks all of them).  If the store then
            // reads back differently, or is internally inconsistent, the store remembers HOW it
            // was built: a verdict about the code under test, not about the harness.
            Ok(other) => {
                o.viol.push((
                    format!("construction-order:store-content-differs-after-detour:{label}"),
                    format!("expected {:?} got {:?}", s.to_json(), other.to_json()),
                ));
                continue;
            }
            Err(e) => {
                o.viol.push((
                    format!("construction-order:store-inconsistent-after-detour:{label}"),
                    format!("read-back failed: {e}"),
                ));
                // the root is still compared below: layout residue must not reach the hash
            }
        }
        if format!("{st:?}") != canonical_dbg {
            o.variants_physically_different += 1;
        }
        let root = hooks::snapshot::state_root(&st, &rk);
        if root != o.root {
            o.viol.push((
                format!("construction-order:state-root-differs:{label}"),
                format!("canonical {} vs {label} {}", mc::hex(&o.root), mc::hex(&root)),
            ));
        }
        if canonical_acc.is_some() {
            match mc::catch(|| hooks::snapshot_accum::accumulator_root(&st, &rk)) {
                Ok((r2, b2)) => {
                    if r2 != o.acc_root {
                        o.viol.push((
                            format!("construction-order:accumulator-root-differs:{label}"),
                            String::new(),
                        ));
                    }
                    if Some(&b2) != canonical_acc.as_ref() {
                        o.viol.push((
                            format!("construction-order:accumulator-wsc-bytes-differ:{label}"),
                            String::new(),
                        ));
                    }
                }
                Err(p) => o.viol.push(("accumulator-panics-on-a-well-formed-state".into(), p)),
            }
        }
        for w in s.instances.keys() {
            match wsc_bytes(u, s, &st, *w) {
                Err(v) => o.viol.push(v),
                Ok(bytes) => {
                    if canonical_wsc.get(w) != Some(&bytes) {
                        o.viol.push((
                            format!("construction-order:wsc-bytes-differ:{label}"),
                            String::new(),
                        ));
                    }
                }
            }
        }
    }
    o
}

fn state_features(s: &RefState) -> String {
    let mut f = Vec::new();
    if s.instances.len() > 1 {
        f.push("multi-instance");
    }
    if &s.reachable_content() != s {
        f.push("unreachable-content");
    }
    if s.atts.keys().any(|k| matches!(k, RefSlot::Edge(..))) {
        f.push("edge-attachment");
    }
    if s.atts.keys().any(|k| matches!(k, RefSlot::Node(..))) {
        f.push("node-attachment");
    }
    if !s.edges.is_empty() {
        f.push("edges");
    }
    if f.is_empty() {
        f.push("root-only");
    }
    f.join("+")
}

/// Number of element slots in which two abstract states differ.
fn content_distance(a: &RefState, b: &RefState) -> usize {
    fn d<K: Ord + Clone, V: PartialEq>(x: &BTreeMap<K, V>, y: &BTreeMap<K, V>) -> usize {
        let keys: BTreeSet<K> = x.keys().chain(y.keys()).cloned().collect();
        keys.iter().filter(|k| x.get(k) != y.get(k)).count()
    }
    d(&a.instances, &b.instances) + d(&a.nodes, &b.nodes) + d(&a.edges, &b.edges) + d(&a.atts, &b.atts)
}

struct Tot {
    states: u64,
    strict_subset: u64,
    contents: u64,
    contents_shared: u64,
    variants: u64,
    variants_phys: u64,
    wsc_instances: u64,
    acc_mismatch: u64,
    acc_total: u64,
    acc_wsc_equal: u64,
    acc_wsc_differs: u64,
    acc_wsc_equal_iff_fully_reachable: bool,
    pairs: u64,
    pairs_ok: u64,
    pairs_acc_eq_acc: u64,
    pairs_acc_eq_legacy: u64,
    pair_flags_ok: [u64; flag::COUNT],
    viol: BTreeMap<String, (u64, Value)>,
    keys: HashSet<u128>,
}

fn add_viol(t: &mut Tot, sig: &str, detail: impl FnOnce() -> Value) {
    match t.viol.get_mut(sig) {
        Some(e) => e.0 += 1,
        None => {
            t.viol.insert(sig.to_string(), (1, detail()));
        }
    }
}

fn state_phase(r: &Report, t: &mut Tot, uni: &Uni) {
    let t0 = r.elapsed_s();
    let prefix = if uni.name == "U_RAW" { "raw-ids:" } else { "" };
    let outs: Vec<StateOut> = uni.states.par_iter().map(|s| check_state(&uni.u, s)).collect();
    let case = |i: usize| json!({"universe": uni.name, "level": uni.level, "state_index": i, "state": uni.states[i].to_json()});

    // (1) function / injectivity maps, in index order — for the legacy root and, independently,
    // for the accumulator's root (so an accumulator-only hashing defect is visible even while the
    // two implementations disagree globally)
    let contents: Vec<RefState> = uni.states.par_iter().map(|s| s.reachable_content()).collect();
    let mut by_content: BTreeMap<&RefState, Vec<usize>> = BTreeMap::new();
    for i in 0..uni.states.len() {
        by_content.entry(&contents[i]).or_default().push(i);
    }
    t.contents += by_content.len() as u64;
    t.contents_shared += by_content.values().filter(|v| v.len() > 1).count() as u64;
    let mut distinct_roots = 0usize;
    for (which, roots) in [
        ("state-root", outs.iter().map(|o| o.root).collect::<Vec<_>>()),
        ("accumulator-root", outs.iter().map(|o| o.acc_root).collect::<Vec<_>>()),
    ] {
        let mut by_root: BTreeMap<[u8; 32], Vec<usize>> = BTreeMap::new();
        for i in 0..uni.states.len() {
            by_root.entry(roots[i]).or_default().push(i);
        }
        if which == "state-root" {
            distinct_roots = by_root.len();
        }
        for (_, idxs) in &by_content {
            let first = idxs[0];
            for &i in &idxs[1..] {
                if roots[i] != roots[first] {
                    let tags = flag_names(pair_flags(&uni.states[first], &uni.states[i])).join(",");
                    add_viol(t, &format!("{prefix}{which}-differs-for-equal-reachable-content:unreachable-change={tags}"), || {
                        json!({"case": {"kind": "two-states", "universe": uni.name, "level": uni.level, "i": first, "j": i,
                               "state_i": uni.states[first].to_json(), "state_j": uni.states[i].to_json(),
                               "reachable_content": contents[i].to_json()},
                               "root_i": mc::hex(&roots[first]), "root_j": mc::hex(&roots[i])})
                    });
                }
            }
        }
        for (root, idxs) in &by_root {
            // distinct contents under this root
            let mut reps: Vec<usize> = Vec::new();
            for &i in idxs {
                if !reps.iter().any(|&j| contents[j] == contents[i]) {
                    reps.push(i);
                }
            }
            for k in 1..reps.len() {
                let i = reps[k];
                // nearest earlier colliding content names the class
                let j = *reps[..k]
                    .iter()
                    .min_by_key(|&&j| (content_distance(&contents[j], &contents[i]), j))
                    .unwrap_or(&reps[0]);
                let tags = flag_names(pair_flags(&contents[j], &contents[i])).join(",");
                add_viol(t, &format!("{prefix}{which}-collision:reachable-content-differs-in={tags}"), || {
                    json!({"case": {"kind": "two-states", "universe": uni.name, "level": uni.level, "i": j, "j": i,
                           "state_i": uni.states[j].to_json(), "state_j": uni.states[i].to_json(),
                           "reachable_i": contents[j].to_json(), "reachable_j": contents[i].to_json()},
                           "shared_root": mc::hex(root)})
                });
            }
        }
    }

    // (2)(3a)(4) per-state results
    let mut acc_mismatch_first: Option<usize> = None;
    let mut acc_mismatch = 0u64;
    let mut wsc_eq_consistent = true;
    for (i, o) in outs.iter().enumerate() {
        t.states += 1;
        t.keys.insert(Report::key(format!("{}|{}|{i}", uni.name, uni.level).as_bytes()));
        if o.strict_subset {
            t.strict_subset += 1;
        }
        t.variants += o.variants;
        t.variants_phys += o.variants_physically_different;
        t.wsc_instances += o.wsc_instances;
        t.acc_total += 1;
        if !o.acc_matches_legacy {
            acc_mismatch += 1;
            if acc_mismatch_first.is_none() {
                acc_mismatch_first = Some(i);
            }
        }
        match o.acc_wsc_equal {
            Some(true) => t.acc_wsc_equal += 1,
            Some(false) => t.acc_wsc_differs += 1,
            None => {}
        }
        if let Some(eq) = o.acc_wsc_equal {
            if eq != o.fully_reachable_root_instance {
                wsc_eq_consistent = false;
            }
        }
        for m in &o.machinery {
            r.machinery_error(&format!("{} state {i}: {m}", uni.name));
        }
        for (sig, human) in &o.viol {
            let sig = format!("{prefix}{sig}");
            add_viol(t, &sig, || json!({"case": case(i), "detail": human}));
        }
    }
    t.acc_wsc_equal_iff_fully_reachable &= wsc_eq_consistent;
    t.acc_mismatch += acc_mismatch;
    if acc_mismatch == uni.states.len() as u64 && acc_mismatch > 0 {
        let i = acc_mismatch_first.unwrap_or(0);
        let e = t
            .viol
            .entry("accumulator-root!=legacy-root:all-states".to_string())
            .or_insert_with(|| {
                (0, json!({"case": case(i), "legacy_root": mc::hex(&outs[i].root), "accumulator_root": mc::hex(&outs[i].acc_root),
                           "note": "differs for every state of every universe evaluated"}))
            });
        e.0 += acc_mismatch;
    } else if acc_mismatch > 0 {
        for (i, o) in outs.iter().enumerate() {
            if !o.acc_matches_legacy {
                let sig = format!("{prefix}accumulator-root!=legacy-root:states-with:{}", state_features(&uni.states[i]));
                add_viol(t, &sig, || json!({"case": case(i), "legacy_root": mc::hex(&o.root), "accumulator_root": mc::hex(&o.acc_root)}));
            }
        }
    }
    if let Some(s) = uni.states.iter().position(|s| &s.reachable_content() != s && s.edges.len() >= 2) {
        r.sample(json!({"kind": "state", "universe": uni.name, "state": uni.states[s].to_json(),
                        "reachable_content": contents[s].to_json(), "state_root": mc::hex(&outs[s].root),
                        "accumulator_root": mc::hex(&outs[s].acc_root), "construction_variants": outs[s].variants}));
    }
    r.note(
        &format!("states:{}{}", uni.name, uni.level),
        json!({"states": uni.states.len(), "raw_product": uni.raw, "distinct_reachable_contents": by_content.len(),
               "distinct_roots": distinct_roots,
               "states_with_unreachable_content": outs.iter().filter(|o| o.strict_subset).count(),
               "accumulator_root_mismatches": acc_mismatch,
               "construction_variants": outs.iter().map(|o| o.variants).sum::<u64>(),
               "wall_s": ((r.elapsed_s() - t0) * 10.0).round() / 10.0}),
    );
}

// ---------------------------------------------------------------------------------------------
// (3b) accumulator applying ops vs the store applying the same ops
// ---------------------------------------------------------------------------------------------

#[derive(Default)]
struct PairAcc {
    pairs: u64,
    ok: u64,
    acc_eq_acc: u64,
    acc_eq_legacy: u64,
    /// pairs with Ok apply per change tag (vacuity evidence)
    flags_ok: [u64; flag::COUNT],
    /// symptom -> (op-kind bits, case) occurrences
    bad: Vec<(&'static str, u8, CaseId)>,
}

fn pair_phase(r: &Report, t: &mut Tot, uni: &Uni, maxd: Option<u32>) {
    let t0 = r.elapsed_s();
    let pre = precompute(uni);
    let sv = slot_vectors(&uni.states);
    let n = uni.states.len();
    let parts: Vec<PairAcc> = (0..n)
        .into_par_iter()
        .map(|ai| {
            let mut acc = PairAcc::default();
            if r.over_budget() {
                return acc;
            }
            let a = &uni.states[ai];
            for bi in 0..n {
                let d = distance(&sv.vecs[ai], &sv.vecs[bi]);
                if let Some(m) = maxd {
                    if d > m {
                        continue;
                    }
                }
                if ai == bi {
                    continue;
                }
                let b = &uni.states[bi];
                acc.pairs += 1;
                let ev = eval_pair(&uni.u, a, &pre[ai].real, b, &pre[bi].real, &pre[bi].root);
                let Some(st) = &ev.result else { continue };
                acc.ok += 1;
                let fl = pair_flags(a, b);
                for i in 0..flag::COUNT {
                    if fl & (1 << i) != 0 {
                        acc.flags_ok[i] += 1;
                    }
                }
                let rk = pre[bi].root_key;
                let Ok(legacy) = safe_root(st, &rk) else {
                    // a replayed state the legacy hasher itself rejects is C04's business
                    continue;
                };
                let case = CaseId {
                    root_equal: false,
                    distance: d,
                    size: state_size(a) + state_size(b),
                    a: ai as u32,
                    b: bi as u32,
                    reverse_a: false,
                };
                let kinds = op_kind_bits(ev.ops());
                let of_state = mc::catch(|| hooks::snapshot_accum::accumulator_root(st, &rk));
                let after = mc::catch(|| {
                    hooks::snapshot_accum::accumulator_root_after(&pre[ai].real, ev.ops().to_vec(), &rk)
                });
                match (of_state, after) {
                    (Ok((r1, b1)), Ok((r2, b2))) => {
                        if r1 == r2 {
                            acc.acc_eq_acc += 1;
                        } else {
                            acc.bad.push(("accumulator-apply-root!=accumulator-root-of-store-after-same-ops", kinds, case));
                        }
                        if b1 != b2 {
                            acc.bad.push(("accumulator-apply-wsc-bytes!=accumulator-wsc-bytes-of-store-after-same-ops", kinds, case));
                        }
                        if r2 == legacy {
                            acc.acc_eq_legacy += 1;
                        } else if r1 == legacy {
                            // the accumulator agrees with legacy on the state itself, so this is the applier
                            acc.bad.push(("accumulator-apply-root!=legacy-root-of-store-after-same-ops", kinds, case));
                        }
                    }
                    (_, Err(_)) => acc.bad.push(("accumulator-panics-on-ops-the-store-applies", kinds, case)),
                    (Err(_), _) => acc.bad.push(("accumulator-panics-on-a-replayed-state", kinds, case)),
                }
            }
            acc
        })
        .collect();
    if r.over_budget() {
        r.cap_hit(&format!("{}{} accumulator pair phase interrupted by the wall cap", uni.name, uni.level));
    }
    let mut pairs = 0;
    let mut ok = 0;
    let mut bad: Vec<(&'static str, u8, CaseId)> = Vec::new();
    for p in parts {
        pairs += p.pairs;
        ok += p.ok;
        for i in 0..flag::COUNT {
            t.pair_flags_ok[i] += p.flags_ok[i];
        }
        t.pairs_acc_eq_acc += p.acc_eq_acc;
        t.pairs_acc_eq_legacy += p.acc_eq_legacy;
        bad.extend(p.bad);
    }
    t.pairs += pairs;
    t.pairs_ok += ok;
    // fold occurrences onto minimal op-kind sets ("generators") per symptom
    bad.sort_by_key(|(s, k, c)| (*s, k.count_ones(), *k, *c));
    let mut gens: Vec<(&'static str, u8)> = Vec::new();
    for (sym, kinds, c) in &bad {
        let g = match gens.iter().find(|(s, g)| s == sym && (g & kinds) == *g) {
            Some(g) => *g,
            None => {
                gens.push((*sym, *kinds));
                (*sym, *kinds)
            }
        };
        let names: Vec<&str> = (0..8).filter(|i| g.1 & (1 << i) != 0).map(|i| OP_KINDS[i]).collect();
        let sig = format!("{}:ops={}", g.0, names.join("+"));
        add_viol(t, &sig, || {
            let a = &uni.states[c.a as usize];
            let b = &uni.states[c.b as usize];
            let ev = eval_pair(&uni.u, a, &pre[c.a as usize].real, b, &pre[c.b as usize].real, &pre[c.b as usize].root);
            json!({"case": case_json(uni, c), "patch_ops": ev.ops().iter().map(|o| format!("{o:?}")).collect::<Vec<_>>()})
        });
    }
    r.note(
        &format!("pairs:{}{}", uni.name, uni.level),
        json!({"family": match maxd { Some(m) => format!("all ordered pairs a!=b at slot distance <= {m}"), None => "all ordered pairs a!=b".to_string() },
               "pairs": pairs, "store_apply_ok": ok, "wall_s": ((r.elapsed_s() - t0) * 10.0).round() / 10.0}),
    );
}

// ---------------------------------------------------------------------------------------------

fn replay(r: &Report, path: &std::path::Path) {
    let v: Value = match std::fs::read_to_string(path).ok().and_then(|t| serde_json::from_str(&t).ok()) {
        Some(v) => v,
        None => {
            r.machinery_error("cannot read/parse replay file");
            return;
        }
    };
    let case = if v["detail"]["case"].is_object() { &v["detail"]["case"] } else { &v["case"] };
    let name = case["universe"].as_str().unwrap_or("U_A");
    let level = case["level"].as_u64().unwrap_or(0) as u8;
    let uni = match name {
        "U_RAW" => Some(uni_raw()),
        "U_AR" => Some(uni_rerooted()),
        _ => Uni::by_name(name, level),
    };
    let Some(uni) = uni else {
        r.machinery_error("replay: unknown universe");
        return;
    };
    r.rule("replay of one recorded state / state pair");
    r.eval(1);
    r.nontrivial(b"replay");
    r.nontrivial(b"replay-2");
    let mut t = new_tot();
    let mut idxs: Vec<usize> = Vec::new();
    for k in ["state_index", "i", "j", "a_index", "b_index"] {
        if let Some(i) = case[k].as_u64() {
            idxs.push(i as usize);
        }
    }
    if idxs.iter().any(|i| *i >= uni.states.len()) || idxs.is_empty() {
        r.machinery_error("replay: bad indices");
        return;
    }
    let sub = Uni {
        name: uni.name.clone(),
        level: uni.level,
        u: uni.u.clone(),
        states: idxs.iter().map(|i| uni.states[*i].clone()).collect(),
        raw: 0,
    };
    for (k, i) in idxs.iter().enumerate() {
        let o = check_state(&sub.u, &sub.states[k]);
        println!(
            "state {i}: {}\n  legacy_root={} accumulator_root={} violations={:?}",
            sub.states[k].to_json(),
            mc::hex(&o.root),
            mc::hex(&o.acc_root),
            o.viol
        );
    }
    state_phase(r, &mut t, &sub);
    if sub.states.len() == 2 {
        pair_phase(r, &mut t, &sub, None);
    }
    // the "all-states" roll-up is meaningless on a 1–2 state sub-universe: report it under the
    // original name only if the recorded signature was that one
    r.sample(json!({"replayed_case": case}));
    for (sig, (n, d)) in &t.viol {
        println!("replay reproduces: {sig} x{n}");
        r.violation(sig, d.clone());
    }
}

fn new_tot() -> Tot {
    Tot {
        states: 0,
        strict_subset: 0,
        contents: 0,
        contents_shared: 0,
        variants: 0,
        variants_phys: 0,
        wsc_instances: 0,
        acc_mismatch: 0,
        acc_total: 0,
        acc_wsc_equal: 0,
        acc_wsc_differs: 0,
        acc_wsc_equal_iff_fully_reachable: true,
        pairs: 0,
        pairs_ok: 0,
        pairs_acc_eq_acc: 0,
        pairs_acc_eq_legacy: 0,
        pair_flags_ok: [0; flag::COUNT],
        viol: BTreeMap::new(),
        keys: HashSet::new(),
    }
}

fn main() {
    let r = Report::new("C06", Level::Exploration);
    mc::quiet_panics();
    if let Some(p) = r.replay.clone() {
        replay(&r, &p);
        r.finish();
    }
    r.rule(
        "case = one well-formed abstract state of a universe, evaluated on the real code under every construction \
         order/detour (root, accumulator root, WSC bytes), plus ordered pairs (a,b) for the accumulator-vs-store op application \
         differential. distinct_nontrivial counts distinct (universe, state) cases; every one computes a real state root over a \
         store with >= 1 node; counters give how many have unreachable content / share their reachable content with another state.",
    );
    r.assume("world::RefState::reachable_content (written from the property text) defines 'content reachable from the root'");
    r.assume("BLAKE3 collisions are out of scope; injectivity is decided over the enumerated universes only");
    r.assume("accumulator pair differential is evaluated on pairs whose real apply_to_state returned Ok, against the store *after* that apply (so a C04 defect does not leak into C06)");
    r.assume("accumulator WSC bytes vs store-writer WSC bytes: equality is not documented by the code (the accumulator writes reachable rows only), recorded as an observation");

    let mut t = new_tot();

    // ---- per-state sub-checks (1)(2)(3a)(4) and (5) --------------------------------------------
    // U_AR contains every state of U_A level 0 (plus all re-rootings), so U_A0 is not listed again
    let mut unis: Vec<Uni> = vec![uni_rerooted(), Uni::b(0), uni_raw()];
    if r.thorough() {
        unis.push(Uni::a(1));
        unis.push(Uni::b(1));
    }
    for uni in &unis {
        state_phase(&r, &mut t, uni);
    }
    // ---- (3b) pairs ---------------------------------------------------------------------------
    let ua0 = Uni::a(0);
    if r.quick() {
        pair_phase(&r, &mut t, &ua0, Some(2));
        pair_phase(&r, &mut t, &unis[1], Some(4));
    } else {
        pair_phase(&r, &mut t, &ua0, None);
        pair_phase(&r, &mut t, &unis[1], None);
        pair_phase(&r, &mut t, &unis[3], Some(2));
        pair_phase(&r, &mut t, &unis[4], Some(2));
    }

    // ---- evidence -----------------------------------------------------------------------------
    r.eval(t.states + t.variants + t.pairs);
    r.nontrivial_many(t.keys.iter().copied());
    r.counter("states", t.states);
    r.counter("states_whose_reachable_content_is_a_strict_subset", t.strict_subset);
    r.counter("distinct_reachable_contents", t.contents);
    r.counter("reachable_contents_shared_by_several_states", t.contents_shared);
    r.counter("construction_variants", t.variants);
    r.counter("construction_variants_physically_different_from_canonical", t.variants_phys);
    r.counter("wsc_instance_roundtrips", t.wsc_instances);
    r.counter("accumulator_root_compared_states", t.acc_total);
    r.counter("accumulator_root_mismatch_states", t.acc_mismatch);
    r.counter("pairs_evaluated", t.pairs);
    r.counter("pairs_store_apply_ok", t.pairs_ok);
    r.counter("pairs_accumulator_apply_root==accumulator_root_of_applied_store", t.pairs_acc_eq_acc);
    r.counter("pairs_accumulator_apply_root==legacy_root_of_applied_store", t.pairs_acc_eq_legacy);
    r.note(
        "observation:accumulator_wsc_vs_store_writer_wsc",
        json!({"scope": "single-instance states only (for multi-instance states the accumulator writes the reachable instance with the smallest WarpId, a documented TODO)",
               "bytes_equal": t.acc_wsc_equal, "bytes_differ": t.acc_wsc_differs,
               "equal_exactly_when_every_element_is_reachable": t.acc_wsc_equal_iff_fully_reachable,
               "status": "not asserted: the code does not document byte equality (the accumulator emits reachable rows only)"}),
    );
    r.outcome_n("states_checked", t.states);
    r.outcome_n("states_accumulator_root==legacy_root", t.acc_total - t.acc_mismatch);
    r.outcome_n("states_accumulator_root!=legacy_root", t.acc_mismatch);
    for (sig, (n, _)) in &t.viol {
        r.outcome_n(&format!("violation:{sig}"), *n);
    }
    r.guard("states>0", t.states > 0);
    r.guard("states_with_unreachable_content>0", t.strict_subset > 0);
    r.guard("reachable_contents_shared_by_several_states>0", t.contents_shared > 0);
    r.guard("physically_different_construction_variants>0", t.variants_phys > 0);
    r.guard("wsc_roundtrips>0", t.wsc_instances > 0);
    r.guard("pairs_with_ok_apply>0", t.pairs_ok > 0);
    r.guard("accumulator_compared>0", t.acc_total > 0);
    let mut tags = serde_json::Map::new();
    for i in 0..flag::COUNT {
        tags.insert(FLAG_NAMES[i].to_string(), json!(t.pair_flags_ok[i]));
    }
    r.note("accumulator_pairs_by_change_tag", Value::Object(tags));
    for name in ["edge-reparent", "node-delete-with-incident-edges", "portal-open", "portal-close", "instance-delete", "instance-create", "edge-delete+attachment"] {
        let i = FLAG_NAMES.iter().position(|n| *n == name).unwrap_or(0);
        r.guard(&format!("accumulator_pairs_with_{name}>0"), t.pair_flags_ok[i] > 0);
    }

    for (sig, (n, detail)) in &t.viol {
        r.violation(sig, detail.clone());
        for _ in 1..*n {
            r.violation(sig, Value::Null);
        }
    }
    r.finish();
}
