//! Property check C04 — "a tick patch replays to exactly the state the tick produced; the delta
//! between two well-formed states transforms the first into exactly the second or fails with a
//! typed error" (see /verif/DESIGN.md §4 C04).
//!
//! Enumerated: ordered pairs (a,b) of well-formed abstract states of the universes `U_A`
//! (single instance) and `U_B` (root + descended instances).  For each pair the real
//! `diff_state(build(a), build(b))` is wrapped in a `WarpTickPatchV1` and applied to a clone of
//! `build(a)`; the oracle is the abstract target `b` (content, coherence of the store's indexes,
//! state root).  `a` is additionally built in descending insertion order whenever that yields a
//! physically different store.

use std::collections::BTreeMap;
use std::collections::HashSet;
use std::sync::atomic::{AtomicBool, Ordering};

use mc::{json, Level, Report, Value};
use pairlib::*;
use rayon::prelude::*;

mod engine_ticks;
mod ticks;

/// Quick tier: slot-distance bound of the exhaustive "near pairs" family over `U_A` level 0.
const QUICK_D: u32 = 2;

#[derive(Default, Clone)]
struct Acc {
    pairs: u64,
    evals: u64,
    rev_evals: u64,
    exact: u64,
    exact_nontrivial: u64,
    identity_pairs: u64,
    nontrivial: u64,
    typed: Hist,
    viol: Hist,
    flags_seen: [u64; flag::COUNT],
    flags_exact: [u64; flag::COUNT],
    flags_typed: [u64; flag::COUNT],
    op_kinds: [u64; 8],
    classes: HashSet<u128>,
    first_exact: Option<CaseId>,
    max_ops: usize,
}

impl Acc {
    fn merge(&mut self, o: Acc) {
        self.pairs += o.pairs;
        self.evals += o.evals;
        self.rev_evals += o.rev_evals;
        self.exact += o.exact;
        self.exact_nontrivial += o.exact_nontrivial;
        self.identity_pairs += o.identity_pairs;
        self.nontrivial += o.nontrivial;
        self.typed.merge(&o.typed);
        self.viol.merge(&o.viol);
        for i in 0..flag::COUNT {
            self.flags_seen[i] += o.flags_seen[i];
            self.flags_exact[i] += o.flags_exact[i];
            self.flags_typed[i] += o.flags_typed[i];
        }
        for i in 0..8 {
            self.op_kinds[i] += o.op_kinds[i];
        }
        self.classes.extend(o.classes);
        self.first_exact = match (self.first_exact, o.first_exact) {
            (Some(x), Some(y)) => Some(x.min(y)),
            (x, None) => x,
            (None, y) => y,
        };
        self.max_ops = self.max_ops.max(o.max_ops);
    }
}

/// Which ordered pairs of a universe are evaluated.
#[derive(Clone, Copy, Debug)]
enum Family {
    /// Every ordered pair (including a == b).
    All,
    /// Every ordered pair whose slot distance is exactly `d`.
    ExactDistance(u32),
    /// Quick-tier family: every ordered pair whose slot distance is <= `d`, plus every ordered
    /// pair of the sub-universe selected by [`quick_core`].
    Quick(u32),
}

/// Deterministic structural predicate selecting the quick-tier sub-universe of `U_A` level 0:
/// the root node n0 has type t0 and carries no attachment (all other elements range freely).
fn quick_core(s: &world::RefState) -> bool {
    s.nodes.get(&(0, 0)) == Some(&0) && !s.atts.contains_key(&world::RefSlot::Node(0, 0))
}

fn eval_into(acc: &mut Acc, uni: &Uni, pre: &[Pre], ai: usize, bi: usize, d: u32, with_reversed: bool) {
    let a = &uni.states[ai];
    let b = &uni.states[bi];
    acc.pairs += 1;
    let flags = pair_flags(a, b);
    let size = state_size(a) + state_size(b);
    let mut case = CaseId {
        root_equal: true,
        distance: d,
        size,
        a: ai as u32,
        b: bi as u32,
        reverse_a: false,
    };
    let mut variants: Vec<(bool, &warp_core::WarpState)> = vec![(false, &pre[ai].real)];
    if let (Some(rv), true) = (&pre[ai].real_rev, with_reversed) {
        variants.push((true, rv));
    }
    for (reverse_a, real_a) in variants {
        let ev = eval_pair(&uni.u, a, real_a, b, &pre[bi].real, &pre[bi].root);
        acc.evals += 1;
        if reverse_a {
            acc.rev_evals += 1;
        }
        case.reverse_a = reverse_a;
        case.root_equal = true;
        let nontrivial = ai != bi && !ev.ops().is_empty();
        if ai == bi {
            acc.identity_pairs += 1;
        }
        acc.max_ops = acc.max_ops.max(ev.ops().len());
        let kinds = op_kind_bits(ev.ops());
        let vkey: String;
        match &ev.verdict {
            Verdict::Exact => {
                acc.exact += 1;
                if nontrivial {
                    acc.exact_nontrivial += 1;
                    if acc.first_exact.map_or(true, |c| case < c) && d >= 2 {
                        acc.first_exact = Some(case);
                    }
                }
                for i in 0..flag::COUNT {
                    if flags & (1 << i) != 0 {
                        acc.flags_exact[i] += 1;
                    }
                }
                vkey = "exact".into();
            }
            Verdict::Typed(v, _) => {
                acc.typed.add(v, case);
                for i in 0..flag::COUNT {
                    if flags & (1 << i) != 0 {
                        acc.flags_typed[i] += 1;
                    }
                }
                vkey = format!("typed:{v}");
            }
            Verdict::Bad(sigs, root_equal) => {
                case.root_equal = *root_equal;
                for s in sigs {
                    acc.viol.add(s, case);
                }
                vkey = format!("bad:{}", sigs.join("|"));
            }
        }
        for i in 0..flag::COUNT {
            if flags & (1 << i) != 0 {
                acc.flags_seen[i] += 1;
            }
        }
        if nontrivial {
            acc.nontrivial += 1;
            for i in 0..8 {
                if kinds & (1 << i) != 0 {
                    acc.op_kinds[i] += 1;
                }
            }
            let key = format!("{}|{flags:x}|{kinds:x}|{vkey}", uni.name);
            acc.classes.insert(Report::key(key.as_bytes()));
        }
    }
}

/// Sweep one family of pairs of one universe in parallel (per-`a` accumulators merged in index
/// order ⇒ deterministic).  Returns `None` when the wall cap interrupted it.
fn sweep(r: &Report, uni: &Uni, pre: &[Pre], sv: &SlotVecs, fam: Family) -> (Acc, bool) {
    let n = uni.states.len();
    let core: Vec<bool> = uni.states.iter().map(quick_core).collect();
    let stopped = AtomicBool::new(false);
    let parts: Vec<Option<Acc>> = (0..n)
        .into_par_iter()
        .map(|ai| {
            if stopped.load(Ordering::Relaxed) || r.over_budget() {
                stopped.store(true, Ordering::Relaxed);
                return None;
            }
            let mut acc = Acc::default();
            let va = &sv.vecs[ai];
            for bi in 0..n {
                let d = distance(va, &sv.vecs[bi]);
                match fam {
                    Family::All => {}
                    Family::ExactDistance(k) => {
                        if d != k {
                            continue;
                        }
                    }
                    Family::Quick(k) => {
                        if d > k && !(core[ai] && core[bi]) {
                            continue;
                        }
                    }
                }
                // quick tier: the reversed-insertion build of `a` only for the near pairs
                let with_reversed = match fam {
                    Family::Quick(k) => d <= k,
                    _ => true,
                };
                eval_into(&mut acc, uni, pre, ai, bi, d, with_reversed);
            }
            Some(acc)
        })
        .collect();
    let mut total = Acc::default();
    let mut complete = true;
    for p in parts {
        match p {
            Some(a) => total.merge(a),
            None => complete = false,
        }
    }
    (total, complete)
}

fn count_at_distance(sv: &SlotVecs, k: u32) -> u64 {
    let n = sv.vecs.len();
    (0..n)
        .into_par_iter()
        .map(|ai| {
            let va = &sv.vecs[ai];
            let mut c = 0u64;
            for bi in 0..n {
                if distance(va, &sv.vecs[bi]) == k {
                    c += 1;
                }
            }
            c
        })
        .sum()
}

/// Full detail for one case: re-evaluates it and records ops + resulting state.
fn case_detail(uni: &Uni, c: &CaseId) -> Value {
    let a = &uni.states[c.a as usize];
    let b = &uni.states[c.b as usize];
    let real_a = uni.u.build_ordered(a, c.reverse_a);
    let real_b = uni.u.build(b);
    let root_b = uni.u.state_root(&real_b, b);
    let ev = eval_pair(&uni.u, a, &real_a, b, &real_b, &root_b);
    let (outcome, got) = match &ev.verdict {
        Verdict::Exact => ("Ok: exactly b".to_string(), Value::Null),
        Verdict::Typed(v, _) => (format!("Err(TickPatchError::{v})"), Value::Null),
        Verdict::Bad(s, _) => (
            format!("oracle-fail {}", s.join(" | ")),
            match &ev.result {
                Some(st) => match uni.u.read(st) {
                    Ok(g) => match safe_root(st, &uni.u.root_key(b)) {
                        Ok(root) => json!({"state": g.to_json(), "state_root": mc::hex(&root), "expected_state_root": mc::hex(&root_b),
                               "state_root_differs": root != root_b}),
                        Err(p) => json!({"state": g.to_json(), "state_root_panics": p, "expected_state_root": mc::hex(&root_b)}),
                    },
                    Err(e) => json!({"unreadable": e}),
                },
                None => Value::Null,
            },
        ),
    };
    let mut v = json!({
        "case": case_json(uni, c),
        "patch_ops": ev.ops().iter().map(|o| format!("{o:?}")).map(|s| shorten_ids(&uni.u, &s)).collect::<Vec<_>>(),
        "outcome": outcome,
    });
    if !got.is_null() {
        v["replayed"] = got;
    }
    v
}

/// Replace 32-byte id dumps in a Debug rendering by universe labels (n0, e1, t0, W1).
fn shorten_ids(u: &world::Universe, s: &str) -> String {
    let mut out = s.to_string();
    let render = |bytes: &[u8; 32]| -> Vec<String> {
        // both Debug forms that occur: `[1, 2, ...]` and hex (first 8 bytes) – try the array form
        vec![format!("{bytes:?}")]
    };
    for (i, w) in u.warps.iter().enumerate() {
        for r in render(&w.0) {
            out = out.replace(&r, &format!("W{i}"));
        }
    }
    for (i, n) in u.nodes.iter().enumerate() {
        for r in render(&n.0) {
            out = out.replace(&r, &format!("n{i}"));
        }
    }
    for (i, e) in u.edges.iter().enumerate() {
        for r in render(&e.0) {
            out = out.replace(&r, &format!("e{i}"));
        }
    }
    for (i, t) in u.types.iter().enumerate() {
        for r in render(&t.0) {
            out = out.replace(&r, &format!("t{i}"));
        }
    }
    out
}

struct Totals {
    acc: Acc,
    viol_detail: BTreeMap<String, (u64, Value)>,
    typed_samples: BTreeMap<String, Value>,
}

fn absorb(r: &Report, t: &mut Totals, uni: &Uni, label: &str, acc: Acc, wall: f64) {
    r.counter(&format!("pairs:{label}"), acc.pairs);
    r.counter(&format!("evaluations:{label}"), acc.evals);
    r.counter(&format!("ok_exact:{label}"), acc.exact);
    r.note(
        &format!("phase:{label}"),
        json!({"states": uni.states.len(), "raw_product": uni.raw, "pairs": acc.pairs, "evaluations": acc.evals,
               "evaluations_with_reversed_insertion_order_of_a": acc.rev_evals, "wall_s": (wall*10.0).round()/10.0}),
    );
    for (sig, (n, c)) in &acc.viol.m {
        let e = t.viol_detail.entry(sig.clone()).or_insert_with(|| (0, Value::Null));
        if e.1.is_null() {
            e.1 = case_detail(uni, c);
        }
        e.0 += n;
    }
    for (v, (_, c)) in &acc.typed.m {
        t.typed_samples
            .entry(v.clone())
            .or_insert_with(|| case_detail(uni, c));
    }
    if let Some(c) = acc.first_exact {
        r.sample(case_detail(uni, &c));
    }
    t.acc.merge(acc);
}

fn replay(r: &Report, path: &std::path::Path) {
    let txt = match std::fs::read_to_string(path) {
        Ok(t) => t,
        Err(e) => {
            r.machinery_error(&format!("cannot read replay file: {e}"));
            return;
        }
    };
    let v: Value = match serde_json::from_str(&txt) {
        Ok(v) => v,
        Err(e) => {
            r.machinery_error(&format!("replay file is not JSON: {e}"));
            return;
        }
    };
    let case = if v["detail"]["case"].is_object() {
        &v["detail"]["case"]
    } else if v["case"].is_object() {
        &v["case"]
    } else {
        &v
    };
    if case["kind"].as_str() == Some("engine-tick") {
        ticks::replay(r, case);
        return;
    }
    let name = case["universe"].as_str().unwrap_or("U_A");
    let level = case["level"].as_u64().unwrap_or(0) as u8;
    let Some(uni) = Uni::by_name(name, level) else {
        r.machinery_error("replay: unknown universe");
        return;
    };
    let ai = case["a_index"].as_u64().unwrap_or(0) as usize;
    let bi = case["b_index"].as_u64().unwrap_or(0) as usize;
    if ai >= uni.states.len() || bi >= uni.states.len() {
        r.machinery_error("replay: index out of range");
        return;
    }
    if uni.states[ai].to_json() != case["a"] || uni.states[bi].to_json() != case["b"] {
        r.machinery_error("replay: indices no longer denote the recorded states (universe changed)");
        return;
    }
    let sv = slot_vectors(&uni.states);
    let c = CaseId {
        root_equal: false,
        distance: distance(&sv.vecs[ai], &sv.vecs[bi]),
        size: state_size(&uni.states[ai]) + state_size(&uni.states[bi]),
        a: ai as u32,
        b: bi as u32,
        reverse_a: case["reverse_a"].as_bool().unwrap_or(false),
    };
    let d = case_detail(&uni, &c);
    println!("{}", serde_json::to_string_pretty(&d).unwrap_or_default());
    r.eval(1);
    r.nontrivial(b"replay");
    r.nontrivial(b"replay-2");
    r.rule("replay of one recorded (a,b) pair");
    r.sample(d.clone());
    let a = &uni.states[ai];
    let b = &uni.states[bi];
    let real_a = uni.u.build_ordered(a, c.reverse_a);
    let real_b = uni.u.build(b);
    let root_b = uni.u.state_root(&real_b, b);
    if let Verdict::Bad(sigs, _) = eval_pair(&uni.u, a, &real_a, b, &real_b, &root_b).verdict {
        for s in sigs {
            r.violation(&s, d.clone());
        }
    }
}

fn main() {
    let r = Report::new("C04", Level::Exploration);
    mc::quiet_panics();
    if let Some(p) = r.replay.clone() {
        replay(&r, &p);
        r.finish();
    }
    r.rule(
        "case = ordered pair (a,b) of well-formed abstract states of one universe (x insertion order of a when it changes the store physically); \
         evaluated = diff_state -> WarpTickPatchV1::new -> apply_to_state on the real code, judged against b. \
         A case is non-trivial when a != b and the patch has >= 1 op; distinct_nontrivial counts distinct \
         (universe, set of change tags between a and b, set of op kinds in the patch, verdict) classes among the non-trivial cases \
         (the exact number of non-trivial cases, all distinct by construction, is counters.nontrivial_cases).",
    );
    r.assume("RefState (world crate) is the oracle for state equality; Universe::read/coherent observe the real store through public accessors + the enumeration hook only");
    r.assume("Typed TickPatchError on an arbitrary pair is counted, not alarmed (the statement allows 'fails to apply with a typed error'); values outside the universes' alphabets are not covered");
    r.assume("a is built in descending insertion order only when that yields a physically different store (Debug rendering differs); identical memory => identical deterministic behaviour");

    let mut t = Totals {
        acc: Acc::default(),
        viol_detail: BTreeMap::new(),
        typed_samples: BTreeMap::new(),
    };

    // ---- phase 1: every ordered pair of the level-0 universes ---------------------------------
    let mut rate = 1.0e6f64; // evaluations per second, re-measured below
    for uni in [Uni::a(0), Uni::b(0)] {
        let t0 = r.elapsed_s();
        let pre = precompute(&uni);
        let sv = slot_vectors(&uni.states);
        let restricted = r.quick() && uni.name == "U_A";
        let fam = if restricted { Family::Quick(QUICK_D) } else { Family::All };
        let (acc, complete) = sweep(&r, &uni, &pre, &sv, fam);
        let wall = r.elapsed_s() - t0;
        if !complete {
            r.cap_hit(&format!("{} level 0 sweep interrupted by the wall cap", uni.name));
        }
        if wall > 0.5 {
            rate = acc.evals as f64 / wall;
        }
        let label = if restricted {
            r.note(
                "quick_family:U_A0",
                json!({"what": format!("all ordered pairs at slot distance <= {QUICK_D} over all {} states (a built in both insertion orders), plus all ordered pairs of the sub-universe 'n0 has type t0 and no attachment' ({} states, canonical insertion order); the thorough tier evaluates all {} ordered pairs in both insertion orders", uni.states.len(), uni.states.iter().filter(|s| quick_core(s)).count(), uni.states.len()*uni.states.len())}),
            );
            format!("{}0:distance<={QUICK_D}+core-sub-universe", uni.name)
        } else {
            format!("{}0:all-pairs", uni.name)
        };
        absorb(&r, &mut t, &uni, &label, acc, wall);
    }

    // ---- phase 2 (thorough): level-1 universes, every ordered pair within slot distance d ------
    if r.thorough() {
        // per-universe wall windows (the small multi-instance universe first: it normally completes
        // every distance, i.e. all ordered pairs)
        for (uni, window) in [(Uni::b(1), 300.0f64), (Uni::a(1), 480.0f64)] {
            let t0 = r.elapsed_s();
            let pre = precompute(&uni);
            let sv = slot_vectors(&uni.states);
            r.note(
                &format!("universe:{}1", uni.name),
                json!({"states": uni.states.len(), "raw_product": uni.raw, "slots": sv.slots,
                       "physically_order_sensitive_states": pre.iter().filter(|p| p.real_rev.is_some()).count()}),
            );
            let budget_end = (r.elapsed_s() + window).min(0.8 * cap_s(&r));
            let mut completed = 0u32;
            for d in 1..=sv.slots as u32 {
                let cnt = count_at_distance(&sv, d);
                if cnt == 0 {
                    completed = d;
                    continue;
                }
                let est = cnt as f64 * 1.4 / rate;
                if r.elapsed_s() + est > budget_end {
                    r.cap_hit(&format!(
                        "{} level 1: all ordered pairs at slot distance <= {} evaluated; distance {} ({} pairs, est {:.0} s) and above not run (time budget)",
                        uni.name, completed, d, cnt, est
                    ));
                    break;
                }
                let l0 = r.elapsed_s();
                let (acc, complete) = sweep(&r, &uni, &pre, &sv, Family::ExactDistance(d));
                let wall = r.elapsed_s() - l0;
                if wall > 2.0 {
                    rate = acc.evals as f64 / wall;
                }
                let label = format!("{}1:distance={}", uni.name, d);
                absorb(&r, &mut t, &uni, &label, acc, wall);
                if !complete {
                    r.cap_hit(&format!("{} level 1 distance {} interrupted by the wall cap", uni.name, d));
                    break;
                }
                completed = d;
            }
            r.note(
                &format!("covered:{}1", uni.name),
                json!({"all_ordered_pairs_within_slot_distance": completed, "wall_s": ((r.elapsed_s()-t0)*10.0).round()/10.0}),
            );
        }
    }

    // ---- phase 3: patches of real engine ticks ------------------------------------------------
    ticks::run(&r, &mut t.viol_detail);
    engine_ticks::run(&r);

    // ---- evidence -----------------------------------------------------------------------------
    let acc = &t.acc;
    r.eval(acc.evals);
    r.nontrivial_many(acc.classes.iter().copied());
    r.counter("nontrivial_cases", acc.nontrivial);
    r.counter("ok_exact_nontrivial", acc.exact_nontrivial);
    r.counter("identity_pairs_empty_patch", acc.identity_pairs);
    r.counter("max_ops_in_a_patch", acc.max_ops as u64);
    r.counter("evaluations_per_second_last_phase", rate as u64);
    r.outcome_n("apply_ok_exactly_b", acc.exact);
    let mut typed_total = 0;
    for (v, (n, _)) in &acc.typed.m {
        r.outcome_n(&format!("typed_error:{v}"), *n);
        typed_total += n;
    }
    for (sig, (n, _)) in &t.viol_detail {
        r.outcome_n(&format!("violation:{sig}"), *n);
    }
    let mut seen = serde_json::Map::new();
    for i in 0..flag::COUNT {
        seen.insert(
            FLAG_NAMES[i].to_string(),
            json!({"evaluated": acc.flags_seen[i], "ok_exact": acc.flags_exact[i], "typed_error": acc.flags_typed[i]}),
        );
    }
    r.note("change_tags", Value::Object(seen));
    let mut kinds = serde_json::Map::new();
    for i in 0..8 {
        kinds.insert(OP_KINDS[i].to_string(), json!(acc.op_kinds[i]));
    }
    r.note("patches_containing_op_kind", Value::Object(kinds));
    for (v, d) in &t.typed_samples {
        r.sample_force(json!({"typed_error": v, "minimal_case": d}));
    }

    // vacuity guards
    r.guard("pairs_with_ok_apply>0", acc.exact_nontrivial > 0);
    r.guard("pairs_with_typed_error>0", typed_total > 0);
    r.guard("typed_error_variants>=2", acc.typed.m.len() >= 2);
    let need = [
        (flag::EDGE_REPARENT, "edge-reparent"),
        (flag::EDGE_REPARENT_ATT_KEPT, "edge-reparent+attachment-kept"),
        (flag::NODE_DELETE_INCIDENT, "node-delete-with-incident-edges"),
        (flag::NODE_RETYPE_WITH_ATT, "node-retype+attachment"),
        (flag::PORTAL_OPEN, "portal-open"),
        (flag::PORTAL_CLOSE, "portal-close"),
        (flag::INSTANCE_DELETE, "instance-delete"),
        (flag::INSTANCE_CREATE, "instance-create"),
        (flag::INSTANCE_REPARENT, "instance-reparent"),
        (flag::EDGE_DELETE_WITH_ATT, "edge-delete+attachment"),
    ];
    for (bit, name) in need {
        let i = bit.trailing_zeros() as usize;
        r.guard(&format!("pairs_with_{name}>0"), acc.flags_seen[i] > 0);
    }
    for name in ["edge-reparent", "node-delete-with-incident-edges", "portal-open", "portal-close", "instance-delete"] {
        let i = FLAG_NAMES.iter().position(|n| *n == name).unwrap_or(0);
        r.guard(&format!("ok_exact_pairs_with_{name}>0"), acc.flags_exact[i] > 0);
    }
    r.guard("reversed_insertion_order_cases>0", acc.rev_evals > 0);
    for k in 0..8 {
        r.guard(&format!("patches_with_{}>0", OP_KINDS[k]), acc.op_kinds[k] > 0);
    }

    // violations: one registration per signature carrying the minimal case, count = occurrences
    for (sig, (n, detail)) in &t.viol_detail {
        r.violation(sig, detail.clone());
        for _ in 1..*n {
            r.violation(sig, Value::Null);
        }
    }
    r.finish();
}

fn cap_s(r: &Report) -> f64 {
    std::env::var("VERIF_CAP_S")
        .ok()
        .and_then(|s| s.parse::<f64>().ok())
        .unwrap_or(if r.quick() { 240.0 } else { 3600.0 })
}
