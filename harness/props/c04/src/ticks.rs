//! Part (a): patches of real engine ticks (placeholder until measured).
use mc::{Report, Value};

pub fn run(_r: &Report) {}

pub fn replay(r: &Report, _case: &Value) {
    r.machinery_error("engine-tick replay not available");
}
