//! Part (a) of the design: "for every committed tick, applying the emitted patch to the pre-tick
//! state reproduces the post-tick state exactly".
//!
//! The rule-program layer that drives `Engine` is built separately (harness/rules), so ticks are
//! *emulated at the op level with the engine's own two steps* (engine_impl.rs):
//!
//! * `apply_reserved_rewrites`: the merged ops `O` of all executors are applied with
//!   `WarpTickPatchV1::new(.., O).apply_to_state(&mut state)` (an error aborts the tick);
//! * `commit_with_receipt`: the emitted patch is `WarpTickPatchV1::new(.., diff_state(&before, &state))`.
//!
//! So for every pre-state `a` of a universe and every set `O` of ops from a small alphabet over
//! the universe's ids (|O| <= k), this module runs exactly those two steps on the real code; when
//! the live application succeeds (the tick would commit) the emitted patch is replayed on a clone
//! of the pre-state and must be `Ok` and reproduce the post-state (content, coherent store, state
//! root).  Here — unlike for arbitrary state pairs — a typed error on replay *is* a violation.
//! Not modelled: matching, scheduling, footprint enforcement, the merge's conflict detection (an op
//! set stands for the already merged delta; sets that `check_write_to_new_warp` would reject are
//! skipped; sets with two ops of the same sort key are never generated).

use std::collections::BTreeMap;

use mc::{json, Report, Value};
use pairlib::*;
use rayon::prelude::*;
use warp_core::verif_hooks as hooks;
use warp_core::{
    AttachmentOwner, NodeRecord, PortalInit, TickCommitStatus, WarpOp, WarpState, WarpTickPatchV1,
    POLICY_ID_NO_POLICY_V0,
};
use world::{RefAtt, RefEdge, RefInstance, RefSlot, RefState, Universe};

fn patch_of(ops: Vec<WarpOp>) -> WarpTickPatchV1 {
    WarpTickPatchV1::new(
        POLICY_ID_NO_POLICY_V0,
        [0u8; 32],
        TickCommitStatus::Committed,
        vec![],
        vec![],
        ops,
    )
}

fn up_node(u: &Universe, w: u8, n: u8, t: u8) -> WarpOp {
    WarpOp::UpsertNode {
        node: u.node_key(w, n),
        record: NodeRecord { ty: u.ty(t) },
    }
}
fn del_node(u: &Universe, w: u8, n: u8) -> WarpOp {
    WarpOp::DeleteNode {
        node: u.node_key(w, n),
    }
}
fn up_edge(u: &Universe, w: u8, e: u8, from: u8, to: u8, ty: u8) -> WarpOp {
    WarpOp::UpsertEdge {
        warp_id: u.warp(w),
        record: u.edge_record(e, &RefEdge { from, to, ty }),
    }
}
fn del_edge(u: &Universe, w: u8, e: u8, from: u8) -> WarpOp {
    WarpOp::DeleteEdge {
        warp_id: u.warp(w),
        from: u.node(from),
        edge_id: u.edge(e),
    }
}
fn set_att(u: &Universe, s: RefSlot, v: Option<RefAtt>) -> WarpOp {
    WarpOp::SetAttachment {
        key: u.slot_key(s),
        value: v.map(|a| u.att_value(&a)),
    }
}
fn open_portal(u: &Universe, s: RefSlot, child: u8, root: u8, t: u8) -> WarpOp {
    WarpOp::OpenPortal {
        key: u.slot_key(s),
        child_warp: u.warp(child),
        child_root: u.node(root),
        init: PortalInit::Empty {
            root_record: NodeRecord { ty: u.ty(t) },
        },
    }
}

/// Full single-instance alphabet over U_A's ids: 65 ops.
fn alphabet_a_full(u: &Universe) -> Vec<WarpOp> {
    let mut v = Vec::new();
    for n in 0..3 {
        for t in 0..2 {
            v.push(up_node(u, 0, n, t));
        }
    }
    for n in 1..3 {
        v.push(del_node(u, 0, n));
    }
    for e in 0..2 {
        for f in 0..3 {
            for t in 0..3 {
                for ty in 0..2 {
                    v.push(up_edge(u, 0, e, f, t, ty));
                }
            }
            v.push(del_edge(u, 0, e, f));
        }
    }
    let vals = [None, Some(RefAtt::Atom(0, b"A".to_vec())), Some(RefAtt::Atom(1, b"A".to_vec()))];
    for n in 0..3 {
        for val in &vals {
            v.push(set_att(u, RefSlot::Node(0, n), val.clone()));
        }
    }
    for e in 0..2 {
        for val in &vals {
            v.push(set_att(u, RefSlot::Edge(0, e), val.clone()));
        }
    }
    v
}

/// Reduced single-instance alphabet (nodes n0,n1; edge e0; one payload): 17 ops — small enough
/// for all op sets of size <= 3.
fn alphabet_a_reduced(u: &Universe) -> Vec<WarpOp> {
    let mut v = vec![up_node(u, 0, 1, 0), up_node(u, 0, 1, 1), del_node(u, 0, 1)];
    for f in 0..2 {
        for t in 0..2 {
            for ty in 0..2 {
                v.push(up_edge(u, 0, 0, f, t, ty));
            }
        }
        v.push(del_edge(u, 0, 0, f));
    }
    for val in [None, Some(RefAtt::Atom(0, b"A".to_vec()))] {
        v.push(set_att(u, RefSlot::Node(0, 1), val.clone()));
        v.push(set_att(u, RefSlot::Edge(0, 0), val));
    }
    v
}

/// Multi-instance alphabet over U_B's ids: 26 ops (portal open/close, instance upsert/delete,
/// re-link, skeleton edits in parent and child).
fn alphabet_b(u: &Universe) -> Vec<WarpOp> {
    let mut v = Vec::new();
    for s in [RefSlot::Node(0, 0), RefSlot::Node(0, 1), RefSlot::Edge(0, 0)] {
        v.push(open_portal(u, s, 1, 0, 0));
    }
    v.push(open_portal(u, RefSlot::Node(1, 0), 2, 0, 0));
    for w in [1u8, 2] {
        v.push(WarpOp::DeleteWarpInstance { warp_id: u.warp(w) });
    }
    for s in [RefSlot::Node(0, 0), RefSlot::Node(0, 1), RefSlot::Edge(0, 0)] {
        v.push(WarpOp::UpsertWarpInstance {
            instance: u.instance_record(
                1,
                &RefInstance {
                    root: 0,
                    parent: Some(s),
                },
            ),
        });
    }
    for s in [RefSlot::Node(0, 0), RefSlot::Node(0, 1), RefSlot::Edge(0, 0), RefSlot::Node(1, 0)] {
        v.push(set_att(u, s, None));
    }
    v.push(set_att(u, RefSlot::Node(0, 1), Some(RefAtt::Atom(0, b"A".to_vec()))));
    v.push(set_att(u, RefSlot::Node(0, 1), Some(RefAtt::Descend(1))));
    v.push(up_node(u, 0, 1, 0));
    v.push(up_node(u, 1, 1, 0));
    v.push(up_node(u, 1, 0, 1));
    v.push(del_node(u, 0, 1));
    v.push(del_node(u, 1, 1));
    v.push(up_edge(u, 0, 0, 0, 1, 0));
    v.push(up_edge(u, 0, 0, 1, 0, 0));
    v.push(up_edge(u, 1, 0, 0, 1, 0));
    v.push(del_edge(u, 0, 0, 0));
    v.push(del_edge(u, 0, 0, 1));
    v.push(del_edge(u, 1, 0, 0));
    v
}

fn target_warp(op: &WarpOp) -> Option<warp_core::WarpId> {
    match op {
        WarpOp::OpenPortal { .. } => None,
        WarpOp::UpsertNode { node, .. } | WarpOp::DeleteNode { node } => Some(node.warp_id),
        WarpOp::UpsertEdge { warp_id, .. } | WarpOp::DeleteEdge { warp_id, .. } => Some(*warp_id),
        WarpOp::SetAttachment { key, .. } => Some(match key.owner {
            AttachmentOwner::Node(n) => n.warp_id,
            AttachmentOwner::Edge(e) => e.warp_id,
        }),
        WarpOp::UpsertWarpInstance { instance } => Some(instance.warp_id),
        WarpOp::DeleteWarpInstance { warp_id } => Some(*warp_id),
    }
}

/// All op sets of size 1..=k over `alpha` that the merge step would hand to the applier: no two
/// ops with the same sort key, no write into a warp opened (Empty) in the same set.
fn op_sets(alpha: &[WarpOp], k: usize) -> Vec<Vec<usize>> {
    let mut out = Vec::new();
    for sz in 1..=k {
        for set in mc::enumerate::subsets_k(alpha.len(), sz) {
            let mut ok = true;
            for i in 0..set.len() {
                for j in (i + 1)..set.len() {
                    if alpha[set[i]].sort_key() == alpha[set[j]].sort_key() {
                        ok = false;
                    }
                }
                if let WarpOp::OpenPortal { child_warp, .. } = &alpha[set[i]] {
                    for (j, x) in set.iter().enumerate() {
                        if j != i && target_warp(&alpha[*x]) == Some(*child_warp) {
                            ok = false;
                        }
                    }
                }
            }
            if ok {
                out.push(set);
            }
        }
    }
    out
}

#[derive(Default)]
struct TickAcc {
    attempted: u64,
    committed: u64,
    committed_changing: u64,
    replay_exact: u64,
    rejected: BTreeMap<&'static str, u64>,
    /// (symptom signature without op set, live op-kind bits, state index, op-set index)
    bad: Vec<(String, u8, u32, u32)>,
    post_outside_universe: u64,
    illformed: BTreeMap<&'static str, u64>,
    classes: std::collections::HashSet<u128>,
}

struct Family<'a> {
    label: String,
    uni: &'a Uni,
    states: Vec<usize>,
    alpha: Vec<WarpOp>,
    sets: Vec<Vec<usize>>,
}

fn run_one(u: &Universe, a: &RefState, real_a: &WarpState, ops: Vec<WarpOp>) -> (Result<Verdict, &'static str>, Option<RefState>, bool) {
    // step 1: the live application (apply_reserved_rewrites)
    let live_patch = patch_of(ops);
    let mut live = real_a.clone();
    match mc::catch(|| live_patch.apply_to_state(&mut live)) {
        Err(p) => {
            return (
                Ok(Verdict::Bad(vec![format!("tick:panic-in-live-apply:{}", p.chars().take(60).collect::<String>())], false)),
                None,
                false,
            )
        }
        Ok(Err(e)) => return (Err(error_variant(&e)), None, false),
        Ok(Ok(())) => {}
    }
    let post = match safe_coherent(u, &live) {
        Ok(p) => p,
        Err(msg) => {
            return (
                Ok(Verdict::Bad(vec![format!("tick:live-state-incoherent:{}", msg.chars().take(70).collect::<String>())], false)),
                None,
                false,
            )
        }
    };
    // step 2: the emitted patch (commit_with_receipt) and its replay on the pre-state
    let rk = u.root_key(a);
    let root_post = match safe_root(&live, &rk) {
        Ok(x) => x,
        Err(p) => {
            return (
                Ok(Verdict::Bad(vec![format!("tick:live-state-root-panics:{}", p.chars().take(60).collect::<String>())], false)),
                Some(post),
                false,
            )
        }
    };
    let emitted = match mc::catch(|| hooks::tick_patch::diff_state(real_a, &live)) {
        Ok(o) => patch_of(o),
        Err(p) => {
            return (
                Ok(Verdict::Bad(vec![format!("tick:panic-in-diff_state:{}", p.chars().take(60).collect::<String>())], false)),
                Some(post),
                false,
            )
        }
    };
    let changing = !emitted.ops().is_empty();
    let (v, _) = apply_and_judge(u, a, real_a, &post, &root_post, &emitted, "tick");
    let v = match v {
        Verdict::Typed(name, e) => Verdict::Bad(
            vec![format!(
                "tick:replay-fails:{name}:{}",
                typed_error_class(u, a, &post, &e)
            )],
            false,
        ),
        other => other,
    };
    (Ok(v), Some(post), changing)
}

type Gens = Vec<(String, Vec<String>, u8)>;

fn run_family(r: &Report, fam: &Family, viol: &mut BTreeMap<String, (u64, Value)>, gens: &mut Gens) -> bool {
    let t0 = r.elapsed_s();
    let uni = fam.uni;
    let parts: Vec<Option<TickAcc>> = fam
        .states
        .par_iter()
        .map(|&si| {
            if r.over_budget() {
                return None;
            }
            let a = &uni.states[si];
            let real_a = uni.u.build(a);
            let mut acc = TickAcc::default();
            for (oi, set) in fam.sets.iter().enumerate() {
                let ops: Vec<WarpOp> = set.iter().map(|i| fam.alpha[*i].clone()).collect();
                let kinds = op_kind_bits(&ops);
                acc.attempted += 1;
                let (res, post, changing) = run_one(&uni.u, a, &real_a, ops);
                match res {
                    Err(variant) => {
                        *acc.rejected.entry(variant).or_insert(0) += 1;
                    }
                    Ok(v) => {
                        acc.committed += 1;
                        if changing {
                            acc.committed_changing += 1;
                        }
                        if let Some(p) = &post {
                            if !p.well_formed() {
                                // the tick left an ill-formed state (e.g. a dangling edge): outside
                                // the property's "well-formed states"; outcome recorded, not judged
                                acc.post_outside_universe += 1;
                                let k = match &v {
                                    Verdict::Exact => "replay-exact",
                                    Verdict::Bad(s, _) if s.iter().any(|x| x.contains("tick:replay-fails")) => "replay-typed-error",
                                    _ => "replay-differs",
                                };
                                *acc.illformed.entry(k).or_insert(0) += 1;
                                continue;
                            }
                        }
                        let vk = match &v {
                            Verdict::Exact => {
                                acc.replay_exact += 1;
                                "exact".to_string()
                            }
                            Verdict::Typed(..) => "typed".to_string(),
                            Verdict::Bad(sigs, _) => {
                                for s in sigs {
                                    acc.bad.push((s.clone(), kinds, si as u32, oi as u32));
                                }
                                sigs.join("|")
                            }
                        };
                        if changing {
                            let flags = post.as_ref().map_or(0, |p| pair_flags(a, p));
                            acc.classes.insert(Report::key(
                                format!("tick|{}|{kinds:x}|{flags:x}|{vk}", uni.name).as_bytes(),
                            ));
                        }
                    }
                }
            }
            Some(acc)
        })
        .collect();
    let mut tot = TickAcc::default();
    let mut complete = true;
    for p in parts {
        let Some(p) = p else {
            complete = false;
            continue;
        };
        tot.attempted += p.attempted;
        tot.committed += p.committed;
        tot.committed_changing += p.committed_changing;
        tot.replay_exact += p.replay_exact;
        tot.post_outside_universe += p.post_outside_universe;
        for (k, n) in p.rejected {
            *tot.rejected.entry(k).or_insert(0) += n;
        }
        for (k, n) in p.illformed {
            *tot.illformed.entry(k).or_insert(0) += n;
        }
        tot.bad.extend(p.bad);
        tot.classes.extend(p.classes);
    }
    if !complete {
        r.cap_hit(&format!("tick emulation family '{}' interrupted by the wall cap", fam.label));
    }
    // Fold failures onto minimal generators per symptom: a failure whose class parts (the
    // '&'-separated change classes) and live op kinds are supersets of an already seen, smaller
    // failure with the same head is counted under that one.
    let split = |sig: &str| -> (String, Vec<String>) {
        match sig.rfind(':') {
            Some(p) => (
                sig[..p].to_string(),
                sig[p + 1..].split('&').map(String::from).collect(),
            ),
            None => (sig.to_string(), Vec::new()),
        }
    };
    let sz = |si: u32| state_size(&uni.states[si as usize]);
    let mut occ: Vec<(String, Vec<String>, u8, u32, u32)> = tot
        .bad
        .iter()
        .map(|(sig, k, si, oi)| {
            let (h, p) = split(sig);
            (h, p, *k, *si, *oi)
        })
        .collect();
    occ.sort_by(|x, y| {
        (x.0.as_str(), x.1.len(), x.2.count_ones(), fam.sets[x.4 as usize].len(), &x.1, x.2, sz(x.3), x.3, x.4)
            .cmp(&(y.0.as_str(), y.1.len(), y.2.count_ones(), fam.sets[y.4 as usize].len(), &y.1, y.2, sz(y.3), y.3, y.4))
    });
    // (generators persist across families, smallest op sets are run first)
    for (head, parts, kinds, si, oi) in &occ {
        let g = match gens
            .iter()
            .find(|(h, p, k)| h == head && p.iter().all(|x| parts.contains(x)) && (k & kinds) == *k)
        {
            Some(g) => g.clone(),
            None => {
                gens.push((head.clone(), parts.clone(), *kinds));
                (head.clone(), parts.clone(), *kinds)
            }
        };
        let names: Vec<&str> = (0..8).filter(|i| g.2 & (1 << i) != 0).map(|i| OP_KINDS[i]).collect();
        let sig = format!("{}:{}:ops={}", g.0, g.1.join("&"), names.join("+"));
        match viol.get_mut(&sig) {
            Some(e) => e.0 += 1,
            None => {
                let d = tick_detail(uni, *si as usize, &fam.sets[*oi as usize].iter().map(|i| fam.alpha[*i].clone()).collect::<Vec<_>>());
                viol.insert(sig, (1, d));
            }
        }
    }
    // one real sample per family: the first op set of maximal size that commits on the first
    // pre-state with >= 1 edge and replays exactly
    if let Some(&si) = fam.states.iter().find(|i| !uni.states[**i].edges.is_empty()) {
        let a = &uni.states[si];
        let real_a = uni.u.build(a);
        for set in fam.sets.iter().rev() {
            let ops: Vec<WarpOp> = set.iter().map(|i| fam.alpha[*i].clone()).collect();
            if let (Ok(Verdict::Exact), Some(_), true) = run_one(&uni.u, a, &real_a, ops.clone()) {
                r.sample_force(json!({"emulated_tick": tick_detail(uni, si, &ops)}));
                break;
            }
        }
    }
    r.eval(tot.committed);
    r.nontrivial_many(tot.classes.iter().copied());
    r.counter("tick_emulation:op_sets_attempted", tot.attempted);
    r.counter("tick_emulation:ticks_committed", tot.committed);
    r.counter("tick_emulation:ticks_committed_changing_state", tot.committed_changing);
    r.counter("tick_emulation:replay_exact", tot.replay_exact);
    r.counter("tick_emulation:post_states_outside_the_well_formed_universe", tot.post_outside_universe);
    for (k, n) in &tot.rejected {
        r.outcome_n(&format!("tick_emulation:live_apply_rejected:{k}"), *n);
    }
    for (k, n) in &tot.illformed {
        r.outcome_n(&format!("tick_emulation:ill_formed_post_state_not_judged:{k}"), *n);
    }
    r.outcome_n("tick_emulation:replay_exactly_post_state", tot.replay_exact);
    r.note(
        &format!("tick_emulation:{}", fam.label),
        json!({"pre_states": fam.states.len(), "alphabet_ops": fam.alpha.len(), "op_sets": fam.sets.len(),
               "attempted": tot.attempted, "committed": tot.committed, "committed_changing_state": tot.committed_changing,
               "replay_exact": tot.replay_exact, "wall_s": ((r.elapsed_s() - t0) * 10.0).round() / 10.0}),
    );
    complete
}

fn short(u: &Universe, op: &WarpOp) -> String {
    let mut s = format!("{op:?}");
    for (i, w) in u.warps.iter().enumerate() {
        s = s.replace(&format!("{:?}", w.0), &format!("W{i}"));
    }
    for (i, n) in u.nodes.iter().enumerate() {
        s = s.replace(&format!("{:?}", n.0), &format!("n{i}"));
    }
    for (i, e) in u.edges.iter().enumerate() {
        s = s.replace(&format!("{:?}", e.0), &format!("e{i}"));
    }
    for (i, t) in u.types.iter().enumerate() {
        s = s.replace(&format!("{:?}", t.0), &format!("t{i}"));
    }
    s
}

fn tick_detail(uni: &Uni, si: usize, ops: &[WarpOp]) -> Value {
    let a = &uni.states[si];
    let real_a = uni.u.build(a);
    let live_patch = patch_of(ops.to_vec());
    let mut live = real_a.clone();
    let live_res = mc::catch(|| live_patch.apply_to_state(&mut live));
    let post = mc::catch(|| uni.u.read(&live)).ok().and_then(|x| x.ok());
    let emitted = patch_of(mc::catch(|| hooks::tick_patch::diff_state(&real_a, &live)).unwrap_or_default());
    let mut replay = real_a.clone();
    let rep = mc::catch(|| emitted.apply_to_state(&mut replay));
    let rk = uni.u.root_key(a);
    json!({
        "case": {"kind": "engine-tick", "universe": uni.name, "level": uni.level, "pre_index": si, "pre": a.to_json(),
                 "tick_ops_debug": live_patch.ops().iter().map(|o| format!("{o:?}")).collect::<Vec<_>>()},
        "tick_ops": live_patch.ops().iter().map(|o| short(&uni.u, o)).collect::<Vec<_>>(),
        "live_apply": format!("{live_res:?}"),
        "post": post.as_ref().map(|p| p.to_json()),
        "post_state_root": safe_root(&live, &rk).map(|x| mc::hex(&x)).unwrap_or_else(|p| format!("panics: {p}")),
        "emitted_patch_ops": emitted.ops().iter().map(|o| short(&uni.u, o)).collect::<Vec<_>>(),
        "replay_on_pre": format!("{rep:?}"),
        "replayed": mc::catch(|| uni.u.read(&replay)).ok().and_then(|x| x.ok()).map(|p| p.to_json()),
        "replayed_state_root": safe_root(&replay, &rk).map(|x| mc::hex(&x)).unwrap_or_else(|p| format!("panics: {p}")),
    })
}

pub fn run(r: &Report, viol: &mut BTreeMap<String, (u64, Value)>) {
    r.assume("tick emulation: an op set stands for the merged delta of one tick; it is applied and diffed with the engine's own two steps (WarpTickPatchV1::new(O).apply_to_state, then diff_state(before, after)); matching, scheduling, footprint enforcement and merge conflict detection are not modelled");
    let ua = Uni::a(0);
    let ub = Uni::b(0);
    let all_a: Vec<usize> = (0..ua.states.len()).collect();
    // sub-universe for op triples: states without n2 and without e1
    let small_a: Vec<usize> = (0..ua.states.len())
        .filter(|i| {
            let s = &ua.states[*i];
            !s.nodes.contains_key(&(0, 2)) && !s.edges.contains_key(&(0, 1))
        })
        .collect();
    let all_b: Vec<usize> = (0..ub.states.len()).collect();
    let full = alphabet_a_full(&ua.u);
    let red = alphabet_a_reduced(&ua.u);
    let alb = alphabet_b(&ub.u);
    let mut fams = vec![
        Family {
            label: "U_A0:all-states x full-alphabet(65) sets<=1".into(),
            uni: &ua,
            states: all_a.clone(),
            sets: op_sets(&full, 1),
            alpha: full.clone(),
        },
        Family {
            label: format!("U_A0:states-without-n2-e1({}) x reduced-alphabet(17) sets<=3", small_a.len()),
            uni: &ua,
            states: small_a.clone(),
            sets: op_sets(&red, 3),
            alpha: red.clone(),
        },
        Family {
            label: "U_B0:all-states x portal-alphabet(26) sets<=2".into(),
            uni: &ub,
            states: all_b.clone(),
            sets: op_sets(&alb, 2),
            alpha: alb.clone(),
        },
    ];
    if r.thorough() {
        fams.push(Family {
            label: "U_A0:all-states x full-alphabet(65) sets==2".into(),
            uni: &ua,
            states: all_a.clone(),
            sets: op_sets(&full, 2).into_iter().filter(|s| s.len() == 2).collect(),
            alpha: full.clone(),
        });
        fams.push(Family {
            label: "U_A0:all-states x reduced-alphabet(17) sets==3".into(),
            uni: &ua,
            states: all_a.clone(),
            sets: op_sets(&red, 3).into_iter().filter(|s| s.len() == 3).collect(),
            alpha: red.clone(),
        });
        fams.push(Family {
            label: "U_B0:all-states x portal-alphabet(26) sets==3".into(),
            uni: &ub,
            states: all_b.clone(),
            sets: op_sets(&alb, 3).into_iter().filter(|s| s.len() == 3).collect(),
            alpha: alb.clone(),
        });
    }
    let mut gens: Gens = Vec::new();
    for f in &fams {
        if r.over_budget_frac(0.9) {
            r.cap_hit(&format!("tick emulation family '{}' not run (time budget)", f.label));
            continue;
        }
        run_family(r, f, viol, &mut gens);
    }
    r.guard("tick_emulation:ticks_committed>0", r.counter_value("tick_emulation:ticks_committed_changing_state") > 0);
    r.guard("tick_emulation:replay_exact>0", r.counter_value("tick_emulation:replay_exact") > 0);
}

pub fn replay(r: &Report, case: &Value) {
    let name = case["universe"].as_str().unwrap_or("U_A");
    let level = case["level"].as_u64().unwrap_or(0) as u8;
    let Some(uni) = Uni::by_name(name, level) else {
        r.machinery_error("replay: unknown universe");
        return;
    };
    let si = case["pre_index"].as_u64().unwrap_or(0) as usize;
    if si >= uni.states.len() || uni.states[si].to_json() != case["pre"] {
        r.machinery_error("replay: pre_index no longer denotes the recorded state");
        return;
    }
    // the ops are recovered by matching their Debug rendering against the alphabets
    let want: Vec<String> = case["tick_ops_debug"]
        .as_array()
        .map(|a| a.iter().filter_map(|x| x.as_str().map(String::from)).collect())
        .unwrap_or_default();
    let mut pool = alphabet_a_full(&uni.u);
    pool.extend(alphabet_a_reduced(&uni.u));
    pool.extend(alphabet_b(&uni.u));
    let mut ops = Vec::new();
    for w in &want {
        match pool.iter().find(|o| &format!("{o:?}") == w) {
            Some(o) => ops.push(o.clone()),
            None => {
                r.machinery_error("replay: recorded op not found in the alphabets");
                return;
            }
        }
    }
    let d = tick_detail(&uni, si, &ops);
    println!("{}", serde_json::to_string_pretty(&d).unwrap_or_default());
    r.rule("replay of one recorded emulated tick");
    r.eval(1);
    r.nontrivial(b"replay");
    r.nontrivial(b"replay-2");
    r.sample(d.clone());
    let a = &uni.states[si];
    let real_a = uni.u.build(a);
    let kinds = op_kind_bits(&ops);
    if let (Ok(Verdict::Bad(sigs, _)), _, _) = run_one(&uni.u, a, &real_a, ops) {
        let names: Vec<&str> = (0..8).filter(|i| kinds & (1 << i) != 0).map(|i| OP_KINDS[i]).collect();
        for s in sigs {
            r.violation(&format!("{s}:ops={}", names.join("+")), d.clone());
        }
    }
}
