//! Part (a) on REAL engine ticks (added by the integrator once `harness/rules` existed):
//! every candidate set of size ≤2 (quick) / ≤3 (thorough) of every `rules::pool` scenario
//! (including the re-parent program and the descended-instance scenario) is committed on a fresh
//! real `Engine` for both scheduler kinds; the emitted `WarpTickPatchV1` applied to a clone of the
//! pre-tick state must return `Ok` and reproduce the post-tick state exactly (abstract content,
//! store coherence, state root == `Snapshot.state_root`).  A replay error is a violation here:
//! the tick committed.

use mc::{json, Report};
use rayon::prelude::*;
use rules::pool::scenarios;
use rules::tick::{run_tick, Cand};
use rules::universe;
use warp_core::SchedulerKind;

pub fn run(r: &Report) {
    let u = universe();
    let max_set = r.pick(2, 3);
    for scen in scenarios(1) {
        for kind in [SchedulerKind::Radix, SchedulerKind::Legacy] {
            let sets = mc::enumerate::subsets_range(scen.pool.len(), 1, max_set);
            sets.par_iter().for_each(|ixs| {
                let seq: Vec<Cand> = ixs.iter().map(|i| scen.pool[*i].0).collect();
                let case = json!({"scenario": scen.name, "kind": format!("{kind:?}"),
                    "sequence": seq.iter().map(|c| format!("{}@W{}.n{}", c.0, c.1, c.2)).collect::<Vec<_>>()});
                r.eval(1);
                let Ok(o) = run_tick(&scen.pre, &seq, kind, 1) else {
                    r.counter("engine_ticks_failed_to_commit", 1);
                    return;
                };
                r.counter("engine_ticks_committed", 1);
                let kinds: std::collections::BTreeSet<&'static str> =
                    o.patch.ops().iter().map(pairlib::op_kind).collect();
                let kinds_s = kinds.iter().copied().collect::<Vec<_>>().join("+");
                if !o.patch.ops().is_empty() {
                    r.nontrivial(format!("engine:{}:{kind:?}:{ixs:?}", scen.name).as_bytes());
                }
                let mut st = o.pre.clone();
                let res = mc::catch(|| o.patch.apply_to_state(&mut st));
                match res {
                    Err(p) => r.violation(
                        &format!("engine-tick:replay-panics:ops={kinds_s}"),
                        json!({"case": case, "panic": p}),
                    ),
                    Ok(Err(e)) => r.violation(
                        &format!("engine-tick:replay-fails:{}:ops={kinds_s}", pairlib::error_variant(&e)),
                        json!({"case": case, "error": format!("{e:?}")}),
                    ),
                    Ok(Ok(())) => {
                        let want = u.read(&o.post);
                        let got = pairlib::safe_coherent(u, &st);
                        let root = pairlib::safe_root(&st, &o.snapshot.root);
                        if want.is_err() || got.as_ref().ok() != want.as_ref().ok() {
                            r.violation(
                                &format!("engine-tick:replayed-state-differs-from-post-state:ops={kinds_s}"),
                                json!({"case": case, "want": format!("{want:?}"), "got": format!("{got:?}")}),
                            );
                        } else if root.as_ref().ok() != Some(&o.snapshot.state_root) {
                            r.violation(
                                &format!("engine-tick:replayed-root-differs-from-snapshot-root:ops={kinds_s}"),
                                json!({"case": case}),
                            );
                        } else {
                            r.counter("engine_ticks_replayed_exactly", 1);
                            r.outcome_n(&format!("engine-tick-exact:ops={kinds_s}"), 1);
                        }
                    }
                }
            });
        }
    }
    r.guard(
        "engine_ticks_with_reparent_replayed",
        r.counter_value("engine_ticks_replayed_exactly") > 0,
    );
}
