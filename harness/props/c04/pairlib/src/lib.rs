//! Shared by the C04 and C06 checks: universes, per-state precomputation, classification of what
//! changed between two abstract states, and the `diff_state → WarpTickPatchV1 → apply_to_state`
//! evaluation of one ordered pair against the `RefState` oracle.
//!
//! Everything here is deterministic; parallel sweeps collect per-`a` accumulators and merge them
//! in index order.

use std::collections::{BTreeMap, BTreeSet};

use rayon::prelude::*;
use serde_json::{json, Value};
use warp_core::verif_hooks as hooks;
use warp_core::{
    NodeKey, TickCommitStatus, TickPatchError, WarpOp, WarpState, WarpTickPatchV1,
    POLICY_ID_NO_POLICY_V0,
};
use world::{RefAtt, RefSlot, RefState, Spec, Universe, E, N, W};

// ---------------------------------------------------------------------------------------------
// Universes
// ---------------------------------------------------------------------------------------------

/// One enumerated universe: id tables + every well-formed abstract state (sorted).
pub struct Uni {
    pub name: String,
    pub level: u8,
    pub u: Universe,
    pub states: Vec<RefState>,
    pub raw: u64,
}

impl Uni {
    pub fn from_spec(name: &str, level: u8, u: Universe, spec: &Spec) -> Uni {
        let (states, raw) = spec.enumerate();
        Uni {
            name: name.to_string(),
            level,
            u,
            states,
            raw,
        }
    }
    pub fn a(level: u8) -> Uni {
        Uni::from_spec("U_A", level, Universe::default(), &world::spec_u_a(level))
    }
    pub fn b(level: u8) -> Uni {
        Uni::from_spec("U_B", level, Universe::default(), &world::spec_u_b(level))
    }
    pub fn by_name(name: &str, level: u8) -> Option<Uni> {
        match name {
            "U_A" => Some(Uni::a(level)),
            "U_B" => Some(Uni::b(level)),
            _ => None,
        }
    }
}

/// Real-side precomputation for one abstract state.
pub struct Pre {
    /// Canonical (ascending) insertion order.
    pub real: WarpState,
    /// Descending insertion order — only kept when the resulting store is *physically* different
    /// from `real` (its `Debug` rendering differs; all containers are ordered maps or `Vec`s, so
    /// equal renderings mean equal memory contents and the deterministic code under test cannot
    /// behave differently).
    pub real_rev: Option<WarpState>,
    pub root_key: NodeKey,
    /// `snapshot::state_root` of `real`.
    pub root: [u8; 32],
}

pub fn precompute(uni: &Uni) -> Vec<Pre> {
    uni.states
        .par_iter()
        .map(|s| {
            let real = uni.u.build(s);
            let rev = uni.u.build_ordered(s, true);
            let real_rev = if format!("{real:?}") == format!("{rev:?}") {
                None
            } else {
                Some(rev)
            };
            let root_key = uni.u.root_key(s);
            let root = hooks::snapshot::state_root(&real, &root_key);
            Pre {
                real,
                real_rev,
                root_key,
                root,
            }
        })
        .collect()
}

// ---------------------------------------------------------------------------------------------
// Slot vectors (Hamming distance between abstract states)
// ---------------------------------------------------------------------------------------------

/// Every abstract state as a vector of interned per-slot values; slot = one instance / node /
/// edge / attachment key that occurs anywhere in the universe.  Distance = number of slots whose
/// value differs (absent counts as a value).
pub struct SlotVecs {
    pub slots: usize,
    pub vecs: Vec<Vec<u8>>,
}

pub fn slot_vectors(states: &[RefState]) -> SlotVecs {
    #[derive(Clone, PartialEq, Eq, PartialOrd, Ord)]
    enum Key {
        I(W),
        N(W, N),
        E(W, E),
        A(RefSlot),
    }
    let mut keys: BTreeSet<Key> = BTreeSet::new();
    for s in states {
        for w in s.instances.keys() {
            keys.insert(Key::I(*w));
        }
        for (w, n) in s.nodes.keys() {
            keys.insert(Key::N(*w, *n));
        }
        for (w, e) in s.edges.keys() {
            keys.insert(Key::E(*w, *e));
        }
        for a in s.atts.keys() {
            keys.insert(Key::A(*a));
        }
    }
    let keys: Vec<Key> = keys.into_iter().collect();
    let mut interners: Vec<BTreeMap<String, u8>> = vec![BTreeMap::new(); keys.len()];
    let mut vecs = Vec::with_capacity(states.len());
    for s in states {
        let mut v = Vec::with_capacity(keys.len());
        for (i, k) in keys.iter().enumerate() {
            let val = match k {
                Key::I(w) => format!("{:?}", s.instances.get(w)),
                Key::N(w, n) => format!("{:?}", s.nodes.get(&(*w, *n))),
                Key::E(w, e) => format!("{:?}", s.edges.get(&(*w, *e))),
                Key::A(a) => format!("{:?}", s.atts.get(a)),
            };
            let next = interners[i].len() as u8;
            let id = *interners[i].entry(val).or_insert(next);
            v.push(id);
        }
        vecs.push(v);
    }
    SlotVecs {
        slots: keys.len(),
        vecs,
    }
}

#[inline]
pub fn distance(a: &[u8], b: &[u8]) -> u32 {
    let mut d = 0;
    for i in 0..a.len() {
        d += (a[i] != b[i]) as u32;
    }
    d
}

// ---------------------------------------------------------------------------------------------
// What changed between two abstract states
// ---------------------------------------------------------------------------------------------

/// Pair-level change tags (bit positions); names in [`FLAG_NAMES`].
pub mod flag {
    pub const EDGE_ADD: u32 = 1 << 0;
    pub const EDGE_DELETE: u32 = 1 << 1;
    pub const EDGE_REPARENT: u32 = 1 << 2;
    pub const EDGE_RETARGET: u32 = 1 << 3;
    pub const EDGE_RETYPE: u32 = 1 << 4;
    pub const EDGE_REPARENT_ATT_KEPT: u32 = 1 << 5;
    pub const NODE_ADD: u32 = 1 << 6;
    pub const NODE_DELETE: u32 = 1 << 7;
    pub const NODE_DELETE_INCIDENT: u32 = 1 << 8;
    pub const NODE_RETYPE: u32 = 1 << 9;
    pub const NODE_RETYPE_WITH_ATT: u32 = 1 << 10;
    pub const ATT_SET: u32 = 1 << 11;
    pub const ATT_CLEAR: u32 = 1 << 12;
    pub const ATT_CHANGE: u32 = 1 << 13;
    pub const PORTAL_OPEN: u32 = 1 << 14;
    pub const PORTAL_CLOSE: u32 = 1 << 15;
    pub const INSTANCE_CREATE: u32 = 1 << 16;
    pub const INSTANCE_DELETE: u32 = 1 << 17;
    pub const INSTANCE_REROOT: u32 = 1 << 18;
    pub const INSTANCE_REPARENT: u32 = 1 << 19;
    pub const EDGE_DELETE_WITH_ATT: u32 = 1 << 20;
    pub const NODE_DELETE_WITH_ATT: u32 = 1 << 21;
    pub const COUNT: usize = 22;
}

pub const FLAG_NAMES: [&str; flag::COUNT] = [
    "edge-add",
    "edge-delete",
    "edge-reparent",
    "edge-retarget",
    "edge-retype",
    "edge-reparent+attachment-kept",
    "node-add",
    "node-delete",
    "node-delete-with-incident-edges",
    "node-retype",
    "node-retype+attachment",
    "attachment-set",
    "attachment-clear",
    "attachment-change",
    "portal-open",
    "portal-close",
    "instance-create",
    "instance-delete",
    "instance-reroot",
    "instance-reparent",
    "edge-delete+attachment",
    "node-delete+attachment",
];

pub fn flag_names(bits: u32) -> Vec<&'static str> {
    (0..flag::COUNT)
        .filter(|i| bits & (1 << i) != 0)
        .map(|i| FLAG_NAMES[i])
        .collect()
}

fn node_has_incident(a: &RefState, w: W, n: N) -> bool {
    a.edges
        .iter()
        .any(|((ew, _), e)| *ew == w && (e.from == n || e.to == n))
}

/// All change tags of the ordered pair (a → b).
pub fn pair_flags(a: &RefState, b: &RefState) -> u32 {
    use flag::*;
    let mut f = 0u32;
    for (w, ia) in &a.instances {
        match b.instances.get(w) {
            None => f |= INSTANCE_DELETE,
            Some(ib) => {
                if ia.root != ib.root {
                    f |= INSTANCE_REROOT;
                }
                if ia.parent != ib.parent {
                    f |= INSTANCE_REPARENT;
                }
            }
        }
    }
    for w in b.instances.keys() {
        if !a.instances.contains_key(w) {
            f |= INSTANCE_CREATE;
        }
    }
    for ((w, n), ta) in &a.nodes {
        match b.nodes.get(&(*w, *n)) {
            None => {
                f |= NODE_DELETE;
                if node_has_incident(a, *w, *n) {
                    f |= NODE_DELETE_INCIDENT;
                }
                if a.atts.contains_key(&RefSlot::Node(*w, *n)) {
                    f |= NODE_DELETE_WITH_ATT;
                }
            }
            Some(tb) => {
                if ta != tb {
                    f |= NODE_RETYPE;
                    if a.atts.contains_key(&RefSlot::Node(*w, *n))
                        || b.atts.contains_key(&RefSlot::Node(*w, *n))
                    {
                        f |= NODE_RETYPE_WITH_ATT;
                    }
                }
            }
        }
    }
    for k in b.nodes.keys() {
        if !a.nodes.contains_key(k) {
            f |= NODE_ADD;
        }
    }
    for ((w, e), ea) in &a.edges {
        match b.edges.get(&(*w, *e)) {
            None => {
                f |= EDGE_DELETE;
                if a.atts.contains_key(&RefSlot::Edge(*w, *e)) {
                    f |= EDGE_DELETE_WITH_ATT;
                }
            }
            Some(eb) => {
                if ea.from != eb.from {
                    f |= EDGE_REPARENT;
                    let s = RefSlot::Edge(*w, *e);
                    if a.atts.get(&s).is_some() && a.atts.get(&s) == b.atts.get(&s) {
                        f |= EDGE_REPARENT_ATT_KEPT;
                    }
                }
                if ea.to != eb.to {
                    f |= EDGE_RETARGET;
                }
                if ea.ty != eb.ty {
                    f |= EDGE_RETYPE;
                }
            }
        }
    }
    for k in b.edges.keys() {
        if !a.edges.contains_key(k) {
            f |= EDGE_ADD;
        }
    }
    let mut slots: BTreeSet<RefSlot> = a.atts.keys().copied().collect();
    slots.extend(b.atts.keys().copied());
    for s in slots {
        let (va, vb) = (a.atts.get(&s), b.atts.get(&s));
        if va == vb {
            continue;
        }
        let a_desc = matches!(va, Some(RefAtt::Descend(_)));
        let b_desc = matches!(vb, Some(RefAtt::Descend(_)));
        if b_desc {
            f |= PORTAL_OPEN;
        }
        if a_desc {
            f |= PORTAL_CLOSE;
        }
        match (va, vb) {
            (None, Some(_)) => f |= ATT_SET,
            (Some(_), None) => f |= ATT_CLEAR,
            _ => f |= ATT_CHANGE,
        }
    }
    f
}

fn inst_ctx(a: &RefState, b: &RefState, w: W) -> &'static str {
    match (a.instances.get(&w), b.instances.get(&w)) {
        (None, Some(_)) => "[in-created-instance]",
        (Some(_), None) => "[in-deleted-instance]",
        (Some(x), Some(y)) if x != y => "[in-relinked-instance]",
        _ => "",
    }
}

pub fn inst_change(a: &RefState, b: &RefState, w: W) -> String {
    match (a.instances.get(&w), b.instances.get(&w)) {
        (None, None) => "instance-absent".into(),
        (None, Some(_)) => "instance-create".into(),
        (Some(_), None) => "instance-delete".into(),
        (Some(x), Some(y)) => {
            if x == y {
                "instance-kept".into()
            } else if x.parent != y.parent && x.root != y.root {
                "instance-reparent+reroot".into()
            } else if x.parent != y.parent {
                "instance-reparent".into()
            } else {
                "instance-reroot".into()
            }
        }
    }
}

pub fn node_change(a: &RefState, b: &RefState, w: W, n: N) -> String {
    let base = match (a.nodes.get(&(w, n)), b.nodes.get(&(w, n))) {
        (None, None) => "node-absent",
        (None, Some(_)) => "node-add",
        (Some(_), None) => {
            if node_has_incident(a, w, n) {
                "node-delete-with-incident-edges"
            } else {
                "node-delete"
            }
        }
        (Some(x), Some(y)) => {
            if x == y {
                "node-kept"
            } else {
                "node-retype"
            }
        }
    };
    base.to_string()
}

/// (primary, modifiers) — primary names the dominant field change (`from` > `to` > `ty`).
pub fn edge_change(a: &RefState, b: &RefState, w: W, e: E) -> (String, String) {
    match (a.edges.get(&(w, e)), b.edges.get(&(w, e))) {
        (None, None) => ("edge-absent".into(), String::new()),
        (None, Some(_)) => ("edge-add".into(), String::new()),
        (Some(_), None) => ("edge-delete".into(), String::new()),
        (Some(x), Some(y)) => {
            if x == y {
                return ("edge-kept".into(), String::new());
            }
            let mut parts = Vec::new();
            if x.from != y.from {
                parts.push("reparent");
            }
            if x.to != y.to {
                parts.push("retarget");
            }
            if x.ty != y.ty {
                parts.push("retype");
            }
            let primary = format!("edge-{}", parts[0]);
            let mods = if parts.len() > 1 {
                format!("[+{}]", parts[1..].join("+"))
            } else {
                String::new()
            };
            (primary, mods)
        }
    }
}

pub fn att_change(a: &RefState, b: &RefState, s: RefSlot) -> &'static str {
    use RefAtt::*;
    match (a.atts.get(&s), b.atts.get(&s)) {
        (None, None) => "no-attachment",
        (None, Some(Descend(_))) => "portal-open",
        (None, Some(Atom(..))) => "attachment-set",
        (Some(Descend(_)), None) => "portal-close",
        (Some(Atom(..)), None) => "attachment-cleared",
        (Some(x), Some(y)) if x == y => match x {
            Descend(_) => "portal-kept",
            Atom(..) => "attachment-kept",
        },
        (Some(Atom(..)), Some(Atom(..))) => "attachment-changed",
        (Some(Atom(..)), Some(Descend(_))) => "portal-open",
        (Some(Descend(_)), Some(Atom(..))) => "portal-close",
        (Some(Descend(_)), Some(Descend(_))) => "portal-retarget",
    }
}

/// Class of one attachment slot's change, e.g. `edge-reparent+attachment-kept` (the dominant edge
/// field change names the class; secondary field changes are in the case detail, not the class).
pub fn slot_change(a: &RefState, b: &RefState, s: RefSlot) -> String {
    match s {
        RefSlot::Node(w, n) => format!(
            "{}+{}{}",
            node_change(a, b, w, n),
            att_change(a, b, s),
            inst_ctx(a, b, w)
        ),
        RefSlot::Edge(w, e) => {
            let (p, _m) = edge_change(a, b, w, e);
            format!("{}+{}{}", p, att_change(a, b, s), inst_ctx(a, b, w))
        }
    }
}

/// Signatures `ok-but-<symptom>:<change class of the wrong element>` for every element in which
/// the replayed state `got` differs from the target `b`.
pub fn discrepancy_sigs(a: &RefState, b: &RefState, got: &RefState) -> Vec<String> {
    let mut out = BTreeSet::new();
    fn sym<T: PartialEq>(want: Option<&T>, got: Option<&T>, m: &str, s: &str, w: &str) -> Option<String> {
        match (want, got) {
            (x, y) if x == y => None,
            (Some(_), None) => Some(m.to_string()),
            (None, Some(_)) => Some(s.to_string()),
            _ => Some(w.to_string()),
        }
    }
    let ws: BTreeSet<W> = b.instances.keys().chain(got.instances.keys()).copied().collect();
    for w in ws {
        if let Some(s) = sym(
            b.instances.get(&w),
            got.instances.get(&w),
            "instance-missing",
            "instance-stale",
            "instance-record-wrong",
        ) {
            out.insert(format!("ok-but-{s}:{}", inst_change(a, b, w)));
        }
    }
    let ns: BTreeSet<(W, N)> = b.nodes.keys().chain(got.nodes.keys()).copied().collect();
    for (w, n) in ns {
        if let Some(s) = sym(
            b.nodes.get(&(w, n)),
            got.nodes.get(&(w, n)),
            "node-missing",
            "node-stale",
            "node-type-wrong",
        ) {
            out.insert(format!(
                "ok-but-{s}:{}{}",
                node_change(a, b, w, n),
                inst_ctx(a, b, w)
            ));
        }
    }
    let es: BTreeSet<(W, E)> = b.edges.keys().chain(got.edges.keys()).copied().collect();
    for (w, e) in es {
        if let Some(s) = sym(
            b.edges.get(&(w, e)),
            got.edges.get(&(w, e)),
            "edge-missing",
            "edge-stale",
            "edge-record-wrong",
        ) {
            let (p, m) = edge_change(a, b, w, e);
            out.insert(format!("ok-but-{s}:{p}{m}{}", inst_ctx(a, b, w)));
        }
    }
    let ss: BTreeSet<RefSlot> = b.atts.keys().chain(got.atts.keys()).copied().collect();
    for s in ss {
        let kind = match s {
            RefSlot::Node(..) => "node",
            RefSlot::Edge(..) => "edge",
        };
        if let Some(x) = sym(
            b.atts.get(&s),
            got.atts.get(&s),
            "attachment-lost",
            "attachment-stale",
            "attachment-wrong",
        ) {
            out.insert(format!("ok-but-{kind}-{x}:{}", slot_change(a, b, s)));
        }
    }
    out.into_iter().collect()
}

// ---------------------------------------------------------------------------------------------
// Evaluating one ordered pair on the real code
// ---------------------------------------------------------------------------------------------

pub fn error_variant(e: &TickPatchError) -> &'static str {
    match e {
        TickPatchError::MissingWarp(_) => "MissingWarp",
        TickPatchError::MissingNode(_) => "MissingNode",
        TickPatchError::MissingEdge(_) => "MissingEdge",
        TickPatchError::NodeNotIsolated(_) => "NodeNotIsolated",
        TickPatchError::InvalidAttachmentKey(_) => "InvalidAttachmentKey",
        TickPatchError::PortalInitRequired => "PortalInitRequired",
        TickPatchError::PortalInvariantViolation => "PortalInvariantViolation",
        TickPatchError::DigestMismatch => "DigestMismatch",
    }
}

/// Class of a typed replay error in terms of what changed (a → b) at the element the error names:
/// e.g. `node-delete-with-incident-edges+incident-edge-retarget` for `NodeNotIsolated(n1)`,
/// `edge-reparent+portal-kept` for a `PortalInvariantViolation`.
pub fn typed_error_class(u: &Universe, a: &RefState, b: &RefState, e: &TickPatchError) -> String {
    let wix = |w: &warp_core::WarpId| u.warps.iter().position(|x| x == w).map(|i| i as u8);
    let nix = |n: &warp_core::NodeId| u.nodes.iter().position(|x| x == n).map(|i| i as u8);
    let eix = |x: &warp_core::EdgeId| u.edges.iter().position(|y| y == x).map(|i| i as u8);
    match e {
        TickPatchError::NodeNotIsolated(k) => match (wix(&k.warp_id), nix(&k.local_id)) {
            (Some(w), Some(n)) => {
                let mut parts: BTreeSet<String> = BTreeSet::new();
                for ((ew, ee), rec) in &a.edges {
                    if *ew == w && (rec.from == n || rec.to == n) {
                        parts.insert(format!("incident-{}", edge_change(a, b, *ew, *ee).0));
                    }
                }
                let mut s = node_change(a, b, w, n).replace("-with-incident-edges", "");
                for p in parts {
                    s.push('+');
                    s.push_str(&p);
                }
                s
            }
            _ => "unknown-node".into(),
        },
        TickPatchError::MissingNode(k) => match (wix(&k.warp_id), nix(&k.local_id)) {
            (Some(w), Some(n)) => format!("{}{}", node_change(a, b, w, n), inst_ctx(a, b, w)),
            _ => "unknown-node".into(),
        },
        TickPatchError::MissingEdge(k) => match (wix(&k.warp_id), eix(&k.local_id)) {
            (Some(w), Some(x)) => format!("{}{}", edge_change(a, b, w, x).0, inst_ctx(a, b, w)),
            _ => "unknown-edge".into(),
        },
        TickPatchError::MissingWarp(w) => match wix(w) {
            Some(w) => inst_change(a, b, w),
            None => "unknown-warp".into(),
        },
        TickPatchError::PortalInvariantViolation => {
            // portal slots that changed; those whose *owner* changed are the primary suspects
            let mut changed: BTreeSet<String> = BTreeSet::new();
            let mut primary: BTreeSet<String> = BTreeSet::new();
            let slots: BTreeSet<RefSlot> = a.atts.keys().chain(b.atts.keys()).copied().collect();
            for s in slots {
                if matches!(a.atts.get(&s), Some(RefAtt::Descend(_)))
                    || matches!(b.atts.get(&s), Some(RefAtt::Descend(_)))
                {
                    let c = slot_change(a, b, s);
                    if c.starts_with("node-kept+portal-kept") || c.starts_with("edge-kept+portal-kept") {
                        continue;
                    }
                    if !(c.starts_with("node-kept") || c.starts_with("edge-kept")) {
                        primary.insert(c.clone());
                    }
                    changed.insert(c);
                }
            }
            let pick = if primary.is_empty() { changed } else { primary };
            if pick.is_empty() {
                "no-portal-slot-changed".into()
            } else {
                pick.into_iter().collect::<Vec<_>>().join("&")
            }
        }
        _ => String::new(),
    }
}

pub fn op_kind(op: &WarpOp) -> &'static str {
    match op {
        WarpOp::OpenPortal { .. } => "OpenPortal",
        WarpOp::UpsertWarpInstance { .. } => "UpsertWarpInstance",
        WarpOp::DeleteWarpInstance { .. } => "DeleteWarpInstance",
        WarpOp::UpsertNode { .. } => "UpsertNode",
        WarpOp::DeleteNode { .. } => "DeleteNode",
        WarpOp::UpsertEdge { .. } => "UpsertEdge",
        WarpOp::DeleteEdge { .. } => "DeleteEdge",
        WarpOp::SetAttachment { .. } => "SetAttachment",
    }
}

fn op_kind_ix(op: &WarpOp) -> usize {
    match op {
        WarpOp::OpenPortal { .. } => 0,
        WarpOp::UpsertWarpInstance { .. } => 1,
        WarpOp::DeleteWarpInstance { .. } => 2,
        WarpOp::UpsertNode { .. } => 3,
        WarpOp::DeleteNode { .. } => 4,
        WarpOp::UpsertEdge { .. } => 5,
        WarpOp::DeleteEdge { .. } => 6,
        WarpOp::SetAttachment { .. } => 7,
    }
}

pub const OP_KINDS: [&str; 8] = [
    "OpenPortal",
    "UpsertWarpInstance",
    "DeleteWarpInstance",
    "UpsertNode",
    "DeleteNode",
    "UpsertEdge",
    "DeleteEdge",
    "SetAttachment",
];

/// Which op kinds occur in `ops` (bit per kind).
pub fn op_kind_bits(ops: &[WarpOp]) -> u8 {
    let mut b = 0u8;
    for o in ops {
        b |= 1 << op_kind_ix(o);
    }
    b
}

pub enum Verdict {
    /// `Ok(())`, the store is coherent, equals `b` and has `b`'s state root.
    Exact,
    /// `Err(typed)`: variant name and the error itself.
    Typed(&'static str, TickPatchError),
    /// Violation signatures (already prefixed with the phase); the flag says whether the state
    /// root of the replayed state nevertheless equals the target's root.
    Bad(Vec<String>, bool),
}

pub struct Eval {
    pub verdict: Verdict,
    /// The patch (canonical ops inside); `None` only when `diff_state` itself panicked.
    pub patch: Option<WarpTickPatchV1>,
    /// The state after `apply_to_state` when it returned `Ok`.
    pub result: Option<WarpState>,
}

impl Eval {
    pub fn ops(&self) -> &[WarpOp] {
        self.patch.as_ref().map_or(&[], |p| p.ops())
    }
}

fn sanitize(msg: &str) -> String {
    // keep panic/incoherence messages stable and short: drop hex/id payloads
    let mut s: String = msg
        .chars()
        .map(|c| if c.is_ascii_graphic() || c == ' ' { c } else { ' ' })
        .collect();
    if let Some(p) = s.find("NodeId(").or_else(|| s.find("EdgeId(")).or_else(|| s.find("WarpId(")) {
        s.truncate(p);
    }
    s.truncate(90);
    s.trim().to_string()
}

/// `diff_state(real_a, real_b)` → `WarpTickPatchV1::new` → `apply_to_state(clone(real_a))`, judged
/// against the abstract target `b` / `root_b`.
pub fn eval_pair(
    u: &Universe,
    a: &RefState,
    real_a: &WarpState,
    b: &RefState,
    real_b: &WarpState,
    root_b: &[u8; 32],
) -> Eval {
    let ops = match mc::catch(|| hooks::tick_patch::diff_state(real_a, real_b)) {
        Ok(o) => o,
        Err(p) => {
            return Eval {
                verdict: Verdict::Bad(
                    vec![format!("diff-apply:panic-in-diff_state:{}", sanitize(&p))],
                    false,
                ),
                patch: None,
                result: None,
            }
        }
    };
    let patch = WarpTickPatchV1::new(
        POLICY_ID_NO_POLICY_V0,
        [0u8; 32],
        TickCommitStatus::Committed,
        vec![],
        vec![],
        ops,
    );
    let (verdict, result) = apply_and_judge(u, a, real_a, b, root_b, &patch, "diff-apply");
    Eval {
        verdict,
        patch: Some(patch),
        result,
    }
}

/// `snapshot::state_root` under `catch_unwind` (its debug assertions fire on states with dangling
/// portals; a panic there must become a verdict, not a harness crash).
pub fn safe_root(st: &WarpState, k: &NodeKey) -> Result<[u8; 32], String> {
    mc::catch(|| hooks::snapshot::state_root(st, k))
}

/// `Universe::coherent` under `catch_unwind` (index desyncs trip debug assertions in graph.rs).
pub fn safe_coherent(u: &Universe, st: &WarpState) -> Result<RefState, String> {
    match mc::catch(|| u.coherent(st)) {
        Ok(r) => r,
        Err(p) => Err(format!("panic: {p}")),
    }
}

/// Apply `patch` to a clone of `real_a` and judge the outcome against the abstract target `b`.
/// `phase` prefixes the violation signatures.
pub fn apply_and_judge(
    u: &Universe,
    a: &RefState,
    real_a: &WarpState,
    b: &RefState,
    root_b: &[u8; 32],
    patch: &WarpTickPatchV1,
    phase: &str,
) -> (Verdict, Option<WarpState>) {
    let mut st = real_a.clone();
    let res = mc::catch(|| patch.apply_to_state(&mut st));
    match res {
        Err(p) => (
            Verdict::Bad(
                vec![format!("{phase}:panic-in-apply:{}", sanitize(&p))],
                false,
            ),
            None,
        ),
        Ok(Err(e)) => (Verdict::Typed(error_variant(&e), e), None),
        Ok(Ok(())) => {
            let verdict = match safe_coherent(u, &st) {
                Err(msg) => {
                    let mut sigs = vec![format!(
                        "{phase}:ok-but-incoherent-store:{}",
                        sanitize(&msg)
                    )];
                    if let Ok(Ok(got)) = mc::catch(|| u.read(&st)) {
                        for s in discrepancy_sigs(a, b, &got) {
                            sigs.push(format!("{phase}:{s}"));
                        }
                    }
                    Verdict::Bad(sigs, false)
                }
                Ok(got) => match safe_root(&st, &u.root_key(b)) {
                    Err(p) => {
                        // the snapshot hasher itself rejects the replayed state (debug assertion)
                        let mut sigs = vec![format!(
                            "{phase}:ok-but-state-root-panics:{}",
                            sanitize(&p)
                        )];
                        for s in discrepancy_sigs(a, b, &got) {
                            sigs.push(format!("{phase}:{s}"));
                        }
                        Verdict::Bad(sigs, false)
                    }
                    Ok(root) => {
                        if &got != b {
                            Verdict::Bad(
                                discrepancy_sigs(a, b, &got)
                                    .into_iter()
                                    .map(|s| format!("{phase}:{s}"))
                                    .collect(),
                                &root == root_b,
                            )
                        } else if &root != root_b {
                            Verdict::Bad(
                                vec![format!("{phase}:ok-same-content-but-state-root-differs")],
                                false,
                            )
                        } else {
                            Verdict::Exact
                        }
                    }
                },
            };
            (verdict, Some(st))
        }
    }
}

// ---------------------------------------------------------------------------------------------
// Deterministic accumulation
// ---------------------------------------------------------------------------------------------

/// Identifies one evaluated case; ordering = "smaller is a better representative".
#[derive(Clone, Copy, Debug, PartialEq, Eq, PartialOrd, Ord)]
pub struct CaseId {
    /// `true` sorts last: prefer representatives in which the state root differs as well.
    pub root_equal: bool,
    pub distance: u32,
    pub size: u32,
    pub a: u32,
    pub b: u32,
    pub reverse_a: bool,
}

pub fn state_size(s: &RefState) -> u32 {
    (s.instances.len() + s.nodes.len() + s.edges.len() + s.atts.len()) as u32
}

/// Histogram with a minimal representative per key.
#[derive(Default, Clone)]
pub struct Hist {
    pub m: BTreeMap<String, (u64, CaseId)>,
}

impl Hist {
    pub fn add(&mut self, k: &str, c: CaseId) {
        match self.m.get_mut(k) {
            Some(e) => {
                e.0 += 1;
                if c < e.1 {
                    e.1 = c;
                }
            }
            None => {
                self.m.insert(k.to_string(), (1, c));
            }
        }
    }
    pub fn merge(&mut self, o: &Hist) {
        for (k, (n, c)) in &o.m {
            match self.m.get_mut(k) {
                Some(e) => {
                    e.0 += n;
                    if *c < e.1 {
                        e.1 = *c;
                    }
                }
                None => {
                    self.m.insert(k.clone(), (*n, *c));
                }
            }
        }
    }
}

/// JSON for one case (what `--replay` needs).
pub fn case_json(uni: &Uni, c: &CaseId) -> Value {
    let a = &uni.states[c.a as usize];
    let b = &uni.states[c.b as usize];
    json!({
        "universe": uni.name,
        "level": uni.level,
        "a_index": c.a,
        "b_index": c.b,
        "reverse_a": c.reverse_a,
        "a": a.to_json(),
        "b": b.to_json(),
        "changed": flag_names(pair_flags(a, b)),
        "slot_distance": c.distance,
    })
}

pub fn ops_json(ops: &[WarpOp]) -> Value {
    Value::Array(ops.iter().map(|o| json!(op_kind(o))).collect())
}
