//! C01 — a tick's outcome depends on the candidate set, never on arrival order.
//!
//! Exhaustive over: scenarios (pre-state + matching candidate pool) × scheduler kind ×
//! every candidate set of size ≤ k × every enqueue sequence of length ≤ |set|+extra that covers
//! the set (all permutations and all duplication patterns).  Every sequence is committed on a
//! fresh real `Engine`.
//!
//! Oracles: (1) metamorphic — all sequences of one set give a byte-identical outcome fingerprint
//! (commit id, state root, patch digest + ops + slots, plan/decision/rewrites digests, receipt
//! entries with dispositions and blockers, post-state); (2) reference — `ref_tick` orders the set
//! by scope-hash bytes, admits greedily with the independent conflict predicate over honest
//! footprint items, interprets every accepted program against the *pre*-state and unions the
//! effects; receipt order, dispositions, `blocked_by` and the post-state must agree.
//! (3) large batches: the same cores embedded in 1023/1024/1025/1100 independent fillers,
//! enqueued in a declared finite family of orders, cross the scheduler's small-batch threshold.

use std::collections::{BTreeMap, BTreeSet};

use mc::{json, Level, Report};
use rayon::prelude::*;
use rules::pool::{scenarios, Scenario};
use rules::tick::{outcome_fingerprint, run_tick, Cand, TickOutcome};
use rules::{ref_apply, ref_conflict, ref_effects, rule_id, universe, Program, Scope};
use warp_core::{scope_hash, SchedulerKind, TickReceiptDisposition};
use world::RefState;

struct RefTick {
    /// candidate indices (into the set) in canonical order
    order: Vec<usize>,
    accepted: Vec<bool>,
    blocked_by: Vec<Vec<u32>>,
    post: Result<RefState, String>,
}

fn cand_key(c: &Cand) -> [u8; 32] {
    let u = universe();
    scope_hash(&rule_id(c.0), &u.node_key(c.1, c.2))
}

fn ref_tick(pre: &RefState, set: &[(Cand, Program)]) -> RefTick {
    let mut order: Vec<usize> = (0..set.len()).collect();
    order.sort_by_key(|i| cand_key(&set[*i].0));
    let mut accepted = Vec::new();
    let mut blocked_by: Vec<Vec<u32>> = Vec::new();
    let mut acc_items: Vec<(usize, Vec<rules::FpItem>, u8, u8)> = Vec::new(); // (entry idx, items, scope, instance)
    // attachment slots a candidate declares written, resolved to (instance, owner)
    let writes = |items: &[rules::FpItem], w: u8, scope: u8| -> Vec<world::RefSlot> {
        items
            .iter()
            .filter_map(|it| match *it {
                rules::FpItem::AWrite(rules::RefSlotOrScope::Scope) => Some(world::RefSlot::Node(w, scope)),
                rules::FpItem::AWrite(rules::RefSlotOrScope::Node(n)) => Some(world::RefSlot::Node(w, n)),
                rules::FpItem::AWrite(rules::RefSlotOrScope::Edge(e)) => Some(world::RefSlot::Edge(w, e)),
                _ => None,
            })
            .collect()
    };
    // a rewrite inside a descended instance READS every portal slot of its descent chain (the
    // engine adds them): it conflicts with any candidate that writes one of those slots
    let chain_conflict = |reader_w: u8, writer_items: &[rules::FpItem], writer_w: u8, writer_scope: u8| -> bool {
        let chain = rules::tick::descent_slots(pre, reader_w);
        writes(writer_items, writer_w, writer_scope).iter().any(|s| chain.contains(s))
    };
    let mut ops = Vec::new();
    for (entry, &i) in order.iter().enumerate() {
        let (c, p) = &set[i];
        let items = p.honest_items(Scope { w: c.1 });
        let blockers: Vec<u32> = acc_items
            .iter()
            // conflicts exist only within one instance (footprints are instance-scoped)
            .filter(|(_, it, sc, w)| {
                (*w == c.1 && ref_conflict(&items, c.2, it, *sc))
                    || chain_conflict(c.1, it, *w, *sc)
                    || chain_conflict(*w, &items, c.1, c.2)
            })
            .map(|(e, _, _, _)| *e as u32)
            .collect();
        if blockers.is_empty() {
            accepted.push(true);
            if let Some(e) = ref_effects(p, pre, c.1) {
                ops.extend(e);
            }
            acc_items.push((entry, items, c.2, c.1));
        } else {
            accepted.push(false);
        }
        blocked_by.push(blockers);
    }
    RefTick {
        order,
        accepted,
        blocked_by,
        post: ref_apply(pre, &ops),
    }
}

fn kind_name(k: SchedulerKind) -> &'static str {
    match k {
        SchedulerKind::Radix => "radix",
        SchedulerKind::Legacy => "legacy",
    }
}

fn seq_json(seq: &[Cand]) -> serde_json::Value {
    json!(seq
        .iter()
        .map(|c| format!("{}@W{}.n{}", c.0, c.1, c.2))
        .collect::<Vec<_>>())
}

fn check_against_reference(
    r: &Report,
    scen: &Scenario,
    kind: SchedulerKind,
    set: &[(Cand, Program)],
    rt: &RefTick,
    o: &TickOutcome,
    seq: &[Cand],
) {
    let u = universe();
    let sig_base = format!("{}:{}", scen.name, kind_name(kind));
    let entries = o.receipt.entries();
    let detail = || {
        json!({"scenario": scen.name, "kind": kind_name(kind), "sequence": seq_json(seq),
            "set": set.iter().map(|(c,p)| json!({"cand": format!("{}@W{}.n{}", c.0,c.1,c.2), "program": format!("{:?}", p.steps)})).collect::<Vec<_>>()})
    };
    if entries.len() != set.len() {
        r.violation(
            &format!("receipt-entry-count:{sig_base}"),
            json!({"case": detail(), "entries": entries.len(), "set": set.len()}),
        );
        return;
    }
    for (e, &i) in rt.order.iter().enumerate() {
        let c = &set[i].0;
        let want_scope = u.node_key(c.1, c.2);
        if entries[e].scope != want_scope || entries[e].rule_id != rule_id(c.0) {
            r.violation(
                &format!("receipt-order-not-ascending-scope-hash:{sig_base}"),
                json!({"case": detail(), "entry": e}),
            );
            return;
        }
        let acc = matches!(entries[e].disposition, TickReceiptDisposition::Applied);
        if acc != rt.accepted[e] {
            r.violation(
                &format!(
                    "admission-differs-from-greedy-reference:{sig_base}:{}",
                    if acc { "accepted-conflicting" } else { "rejected-independent" }
                ),
                json!({"case": detail(), "entry": e, "real_accepted": acc}),
            );
            return;
        }
        if o.receipt.blocked_by(e) != rt.blocked_by[e].as_slice() {
            r.violation(
                &format!("blocked-by-differs-from-reference:{sig_base}"),
                json!({"case": detail(), "entry": e, "real": o.receipt.blocked_by(e), "ref": rt.blocked_by[e]}),
            );
            return;
        }
    }
    match (&rt.post, u.coherent(&o.post)) {
        (Ok(want), Ok(got)) => {
            if *want != got {
                r.violation(
                    &format!("post-state-differs-from-reference:{sig_base}"),
                    json!({"case": detail(), "want": want.to_json(), "got": got.to_json()}),
                );
            } else {
                // state root must be the root of the post state
                let root = u.state_root(&o.post, want);
                if root != o.snapshot.state_root {
                    r.violation(
                        &format!("snapshot-state-root-is-not-root-of-post-state:{sig_base}"),
                        json!({"case": detail()}),
                    );
                }
            }
        }
        (Err(e), _) => {
            r.counter("sets_outside_reference_domain", 1);
            let _ = e;
        }
        (_, Err(e)) => r.violation(
            &format!("post-state-incoherent:{sig_base}"),
            json!({"case": detail(), "error": e}),
        ),
    }
}

fn explore_scenario(r: &Report, scen: &Scenario, kind: SchedulerKind, max_set: usize, extra: usize, workers: usize) {
    let sets = mc::enumerate::subsets_range(scen.pool.len(), 1, max_set);
    sets.par_iter().for_each(|ixs| {
        if r.over_budget_frac(0.8) {
            r.cap_hit("candidate-set enumeration stopped by wall cap");
            return;
        }
        let set: Vec<(Cand, Program)> = ixs.iter().map(|i| scen.pool[*i].clone()).collect();
        let rt = ref_tick(&scen.pre, &set);
        let n_conf = rt.accepted.iter().filter(|a| !**a).count();
        let mut first: Option<(Vec<u8>, Vec<Cand>)> = None;
        let mut n_seq = 0u64;
        // (i) every covering sequence of length <= |set|+extra; (ii) "the whole set arrives twice":
        // every permutation followed by every permutation (length 2|set|), which contains the
        // interleaved re-enqueue patterns (X re-enqueued while not last, then the former last one)
        // that single-duplicate sequences cannot form.
        let mut all_seqs: Vec<Vec<usize>> = Vec::new();
        for len in set.len()..=set.len() + extra {
            all_seqs.extend(mc::enumerate::covering_sequences(set.len(), len));
        }
        if set.len() >= 2 {
            let perms = mc::enumerate::all_permutations(set.len());
            let mut n2 = 0u64;
            for p1 in &perms {
                for p2 in &perms {
                    // sets of 4: the same order again and the reversed order only (576 pairs per set
                    // would triple the thorough run without a new re-enqueue pattern)
                    if set.len() > 3 && p2 != p1 && !p2.iter().eq(p1.iter().rev()) {
                        continue;
                    }
                    let mut s2 = p1.clone();
                    s2.extend_from_slice(p2);
                    all_seqs.push(s2);
                    n2 += 1;
                }
            }
            r.counter("double_arrival_sequences", n2);
        }
        {
            for s in all_seqs {
                let seq: Vec<Cand> = s.iter().map(|i| set[*i].0).collect();
                n_seq += 1;
                match run_tick(&scen.pre, &seq, kind, workers) {
                    Ok(o) => {
                        let fp = outcome_fingerprint(&o);
                        match &first {
                            None => {
                                check_against_reference(r, scen, kind, &set, &rt, &o, &seq);
                                first = Some((fp, seq.clone()));
                            }
                            Some((fp0, seq0)) => {
                                if *fp0 != fp {
                                    let what = first_diff_line(fp0, &fp);
                                    r.violation(
                                        &format!(
                                            "outcome-depends-on-enqueue-order:{}:{}:{}",
                                            scen.name,
                                            kind_name(kind),
                                            what
                                        ),
                                        json!({"case": {"scenario": scen.name, "kind": kind_name(kind),
                                            "sequence_a": seq_json(seq0), "sequence_b": seq_json(&seq)},
                                            "first_difference": what}),
                                    );
                                }
                            }
                        }
                    }
                    Err((f, _)) => {
                        r.violation(
                            &format!("honest-tick-failed:{}:{}:{:?}", scen.name, kind_name(kind), fail_class(&f)),
                            json!({"case": {"scenario": scen.name, "kind": kind_name(kind), "sequence": seq_json(&seq)}, "failure": format!("{f:?}")}),
                        );
                    }
                }
            }
        }
        r.eval(n_seq);
        r.counter("candidate_sets", 1);
        if n_conf > 0 {
            r.counter("sets_with_conflict", 1);
            r.nontrivial(
                format!("{}:{}:{:?}", scen.name, kind_name(kind), ixs).as_bytes(),
            );
        }
        if ixs.len() == max_set && n_conf > 0 {
            r.sample(json!({"scenario": scen.name, "kind": kind_name(kind),
                "set": set.iter().map(|(c,_)| format!("{}@W{}.n{}", c.0,c.1,c.2)).collect::<Vec<_>>(),
                "canonical_order": rt.order, "accepted": rt.accepted, "blocked_by": rt.blocked_by,
                "sequences_committed": n_seq}));
        }
        r.outcome_n(&format!("rejections_per_set={n_conf}"), 1);
    });
}

fn fail_class(f: &rules::tick::TickFailure) -> String {
    match f {
        rules::tick::TickFailure::EngineError(e) => format!("EngineError({})", e.split('(').next().unwrap_or("")),
        rules::tick::TickFailure::Violation { kind, .. } => format!("Violation({})", kind.split('(').next().unwrap_or("")),
        rules::tick::TickFailure::Panic(_) => "Panic".into(),
        rules::tick::TickFailure::Setup(_) => "Setup".into(),
    }
}

fn first_diff_line(a: &[u8], b: &[u8]) -> String {
    let sa = String::from_utf8_lossy(a);
    let sb = String::from_utf8_lossy(b);
    for (la, lb) in sa.lines().zip(sb.lines()) {
        if la != lb {
            return la.split(|c| c == '=' || c == ' ' || c == ':').next().unwrap_or("?").to_string();
        }
    }
    "length".into()
}

// ---------------------------------------------------------------------------------------------
// Large batches: fillers outside the universe, compared by hashes only.
// ---------------------------------------------------------------------------------------------

mod large {
    use super::*;
    use warp_core::{
        make_node_id, EngineBuilder, NodeId, NodeRecord, Snapshot, TickReceipt, WarpTickPatchV1,
    };

    pub struct Out {
        pub fp: Vec<u8>,
        pub core_dispositions: Vec<(NodeId, bool)>,
    }

    fn filler_id(i: usize) -> NodeId {
        make_node_id(&format!("verif/filler{i}"))
    }

    /// Commit `order` (indices: 0..core.len() = core candidates, core.len().. = fillers).
    pub fn commit(
        scen: &Scenario,
        core: &[(Cand, Program)],
        fillers: usize,
        order: &[usize],
        kind: SchedulerKind,
    ) -> Result<Out, String> {
        let u = universe();
        let mut state = u.build(&scen.pre);
        let w0 = u.warp(0);
        let empty = Program::new(vec![]);
        {
            let store = state.store_mut(&w0).ok_or("no root store")?;
            for i in 0..fillers {
                store.insert_node(filler_id(i), NodeRecord { ty: u.ty(2) });
                store.set_node_attachment(filler_id(i), Some(rules::carrier_value(&empty)));
            }
        }
        let mut e = EngineBuilder::from_state(state, u.root_key(&scen.pre))
            .scheduler(kind)
            .workers(1)
            .build()
            .map_err(|e| format!("{e:?}"))?;
        for rule in rules::all_rules() {
            e.register_rule(rule).map_err(|e| format!("{e:?}"))?;
        }
        let tx = e.begin();
        for &i in order {
            if i < core.len() {
                let c = core[i].0;
                let stack = rules::tick::descent_stack(&scen.pre, c.1);
                e.apply_in_warp(tx, u.warp(c.1), c.0, &u.node(c.2), &stack)
                    .map_err(|e| format!("{e:?}"))?;
            } else {
                e.apply(tx, rules::RULE_A, &filler_id(i - core.len()))
                    .map_err(|e| format!("{e:?}"))?;
            }
        }
        let (sn, rc, pt): (Snapshot, TickReceipt, WarpTickPatchV1) =
            mc::catch(|| e.commit_with_receipt(tx))
                .map_err(|p| format!("panic: {p}"))?
                .map_err(|e| format!("{e:?}"))?;
        let mut s = format!(
            "hash={} root={} patch={} plan={} decision={} rewrites={} entries={}\n",
            mc::hex(&sn.hash),
            mc::hex(&sn.state_root),
            mc::hex(&pt.digest()),
            mc::hex(&sn.plan_digest),
            mc::hex(&sn.decision_digest),
            mc::hex(&sn.rewrites_digest),
            rc.entries().len()
        );
        let mut prev: Option<[u8; 32]> = None;
        let mut ascending = true;
        let core_nodes: BTreeSet<NodeId> = core.iter().map(|(c, _)| u.node(c.2)).collect();
        let mut core_disp = Vec::new();
        for en in rc.entries() {
            if let Some(p) = prev {
                if p >= en.scope_hash {
                    ascending = false;
                }
            }
            prev = Some(en.scope_hash);
            if core_nodes.contains(&en.scope.local_id) {
                core_disp.push((
                    en.scope.local_id,
                    matches!(en.disposition, TickReceiptDisposition::Applied),
                ));
            }
        }
        s.push_str(&format!("ascending={ascending}\n"));
        for w in 0..3u8 {
            if let Some(st) = e.state().store(&u.warp(w)) {
                s.push_str(&format!("store{w}={}\n", mc::hex(&st.canonical_state_hash())));
            }
        }
        if !ascending {
            return Err("receipt entries not in strictly ascending scope-hash order".into());
        }
        Ok(Out {
            fp: s.into_bytes(),
            core_dispositions: core_disp,
        })
    }

    /// The declared finite family of enqueue orders for `n` = core + fillers items.
    pub fn order_family(core: usize, fillers: usize) -> Vec<(String, Vec<usize>)> {
        let n = core + fillers;
        let ids: Vec<usize> = (0..n).collect();
        let mut fam: Vec<(String, Vec<usize>)> = Vec::new();
        fam.push(("core-first".into(), ids.clone()));
        let mut rev = ids.clone();
        rev.reverse();
        fam.push(("reversed".into(), rev));
        let mut core_last: Vec<usize> = (core..n).collect();
        core_last.extend(0..core);
        fam.push(("core-last".into(), core_last));
        let mut mid: Vec<usize> = (core..core + fillers / 2).collect();
        mid.extend(0..core);
        mid.extend(core + fillers / 2..n);
        fam.push(("core-middle".into(), mid));
        for k in 1..8 {
            let rot = (n * k) / 8;
            let mut v = ids.clone();
            v.rotate_left(rot);
            fam.push((format!("rot{k}/8"), v));
        }
        // interleaved: even positions ascending, odd descending
        let mut il = Vec::new();
        let (mut lo, mut hi) = (0usize, n);
        while lo < hi {
            il.push(lo);
            lo += 1;
            if lo < hi {
                hi -= 1;
                il.push(hi);
            }
        }
        fam.push(("interleaved".into(), il));
        // duplicates: whole batch twice (second pass reversed)
        let mut dup = ids.clone();
        let mut r2 = ids;
        r2.reverse();
        dup.extend(r2);
        fam.push(("twice".into(), dup));
        fam
    }
}

fn large_batches(r: &Report) {
    let scen = &scenarios(0)[0];
    // cores: a conflicting pair + an independent one, and a 3-way conflict chain
    let cores: Vec<Vec<usize>> = vec![vec![0, 1, 2], vec![0, 1, 5]];
    let sizes: Vec<usize> = if r.quick() {
        vec![1020, 1021, 1022, 1100]
    } else {
        vec![1020, 1021, 1022, 1023, 1024, 1100, 2047, 5000]
    };
    let kinds = [SchedulerKind::Radix, SchedulerKind::Legacy];
    let mut jobs: Vec<(usize, usize, SchedulerKind)> = Vec::new();
    for ci in 0..cores.len() {
        for f in &sizes {
            for k in kinds {
                jobs.push((ci, *f, k));
            }
        }
    }
    jobs.par_iter().for_each(|(ci, fillers, kind)| {
        if r.over_budget() {
            r.cap_hit("large-batch family stopped by wall cap");
            return;
        }
        let core: Vec<(Cand, Program)> = cores[*ci]
            .iter()
            .filter_map(|i| scen.pool.get(*i).cloned())
            .collect();
        let total = core.len() + fillers;
        // the reference for the core alone
        let rt = ref_tick(&scen.pre, &core);
        let want: BTreeMap<[u8; 32], bool> = rt
            .order
            .iter()
            .enumerate()
            .map(|(e, i)| (universe().node(core[*i].0 .2).0, rt.accepted[e]))
            .collect();
        let mut first: Option<(String, Vec<u8>)> = None;
        for (name, order) in large::order_family(core.len(), *fillers) {
            r.eval(1);
            match large::commit(scen, &core, *fillers, &order, *kind) {
                Ok(o) => {
                    // NOTE: two core candidates may share a scope node (two rules); keyed by node,
                    // dispositions are compared as multisets per node.
                    let mut got: BTreeMap<[u8; 32], Vec<bool>> = BTreeMap::new();
                    for (n, a) in &o.core_dispositions {
                        got.entry(n.0).or_default().push(*a);
                    }
                    for (n, a) in &want {
                        if let Some(v) = got.get(n) {
                            if v.len() == 1 && v[0] != *a {
                                r.violation(
                                    &format!("large-batch-core-admission-differs:{}:n={total}", kind_name(*kind)),
                                    json!({"case": {"core": cores[*ci], "fillers": fillers, "order": name}}),
                                );
                            }
                        }
                    }
                    match &first {
                        None => first = Some((name, o.fp)),
                        Some((n0, fp0)) => {
                            if *fp0 != o.fp {
                                r.violation(
                                    &format!(
                                        "large-batch-outcome-depends-on-order:{}:n={total}:{}",
                                        kind_name(*kind),
                                        first_diff_line(fp0, &o.fp)
                                    ),
                                    json!({"case": {"core": cores[*ci], "fillers": fillers, "order_a": n0, "order_b": name}}),
                                );
                            }
                        }
                    }
                }
                Err(e) => r.violation(
                    &format!("large-batch-tick-failed:{}:n={total}", kind_name(*kind)),
                    json!({"case": {"core": cores[*ci], "fillers": fillers, "order": name}, "error": e}),
                ),
            }
        }
        r.counter("large_batches", 1);
        r.nontrivial(format!("large:{ci}:{fillers}:{}", kind_name(*kind)).as_bytes());
        if total <= 1024 {
            r.counter("large_batches_at_or_below_threshold", 1);
        } else {
            r.counter("large_batches_above_threshold", 1);
        }
    });
    r.sample_force(json!({"large_batch_family": large::order_family(3, 5).iter().map(|(n, o)| json!({"name": n, "order_for_3_core_5_fillers": o})).collect::<Vec<_>>(),
        "filler_counts": sizes}));
}

/// Re-run the sequences named in a replay file without the explorer and print what differs.
fn replay(r: &Report, path: &std::path::Path) {
    let txt = std::fs::read_to_string(path).unwrap_or_default();
    let v: serde_json::Value = serde_json::from_str(&txt).unwrap_or_default();
    let case = &v["detail"]["case"];
    let scen_name = case["scenario"].as_str().unwrap_or("");
    let kind = if case["kind"].as_str() == Some("legacy") {
        SchedulerKind::Legacy
    } else {
        SchedulerKind::Radix
    };
    let Some(scen) = scenarios(1).into_iter().find(|s| s.name == scen_name) else {
        r.machinery_error("replay: unknown scenario (large-batch cases are replayed by re-running the tier)");
        return;
    };
    let parse = |x: &serde_json::Value| -> Vec<Cand> {
        x.as_array()
            .map(|a| {
                a.iter()
                    .filter_map(|c| {
                        let c = c.as_str()?;
                        scen.pool
                            .iter()
                            .map(|(k, _)| *k)
                            .find(|k| format!("{}@W{}.n{}", k.0, k.1, k.2) == c)
                    })
                    .collect()
            })
            .unwrap_or_default()
    };
    let mut fps = Vec::new();
    for key in ["sequence", "sequence_a", "sequence_b"] {
        let seq = parse(&case[key]);
        if seq.is_empty() {
            continue;
        }
        r.eval(1);
        match run_tick(&scen.pre, &seq, kind, 1) {
            Ok(o) => {
                let set: Vec<(Cand, Program)> = {
                    let mut seen = BTreeSet::new();
                    seq.iter()
                        .filter(|c| seen.insert(**c))
                        .filter_map(|c| scen.pool.iter().find(|(k, _)| k == c).cloned())
                        .collect()
                };
                let rt = ref_tick(&scen.pre, &set);
                check_against_reference(r, &scen, kind, &set, &rt, &o, &seq);
                println!("replay {key}: committed; fingerprint {}", mc::hex(&mc::h(&outcome_fingerprint(&o))));
                fps.push((key, outcome_fingerprint(&o), seq));
            }
            Err((f, _)) => {
                println!("replay {key}: tick failed: {f:?}");
                r.violation(&format!("honest-tick-failed:{}:{}:{:?}", scen.name, kind_name(kind), fail_class(&f)), json!({"case": case}));
            }
        }
    }
    if fps.len() == 2 && fps[0].1 != fps[1].1 {
        let what = first_diff_line(&fps[0].1, &fps[1].1);
        r.violation(
            &format!("outcome-depends-on-enqueue-order:{}:{}:{}", scen.name, kind_name(kind), what),
            json!({"case": case}),
        );
    }
    r.nontrivial(b"replay-a");
    r.nontrivial(b"replay-b");
    r.sample(case.clone());
}

fn main() {
    mc::quiet_panics();
    let r = Report::new("C01", Level::Exploration);
    let build = Report::build_tag();
    r.rule("cases = (scenario, scheduler kind, candidate set, covering enqueue sequence) each committed on a fresh real Engine; \
            distinct_nontrivial = distinct (scenario, kind, candidate set) whose reference admission rejects >=1 candidate, plus distinct large-batch configurations");
    r.assume("rule programs have honest footprints derived from the program (rules crate); the reference interpreter and conflict predicate are written from the property statement");
    r.assume("universe: 3 pre-states (chain, diamond, two-instance portal child), 12 micro-programs, 2 rule ids; not all graphs/programs");
    r.note("build", json!(build));

    if let Some(path) = r.replay.clone() {
        replay(&r, &path);
        r.finish();
    }
    let level = if r.quick() { 0 } else { 1 };
    let max_set = r.pick(3, 4);
    let extra = r.pick(1, 2);
    let scens = scenarios(level);
    for scen in &scens {
        r.note(
            &format!("pool_{}", scen.name),
            json!(scen.pool.iter().map(|(c, p)| format!("{}@W{}.n{}: {:?}", c.0, c.1, c.2, p.steps)).collect::<Vec<_>>()),
        );
        for kind in [SchedulerKind::Radix, SchedulerKind::Legacy] {
            explore_scenario(&r, scen, kind, max_set, extra, 1);
        }
    }
    large_batches(&r);

    r.guard("some_sets_have_conflicts", r.counter_value("sets_with_conflict") > 0);
    r.guard("saw_sets_with_0_1_2_rejections", r.outcome_count("rejections_per_set=0") > 0
        && r.outcome_count("rejections_per_set=1") > 0
        && r.outcome_count("rejections_per_set=2") > 0);
    r.guard("large_batches_both_sides_of_threshold",
        r.counter_value("large_batches_at_or_below_threshold") > 0 && r.counter_value("large_batches_above_threshold") > 0);
    r.guard("no_set_outside_reference_domain", r.counter_value("sets_outside_reference_domain") == 0);

    if build == "main" && r.thorough() {
        r.run_extra_build("prod", &[]);
        r.run_extra_build("dv", &[]);
    }
    r.finish();
}
