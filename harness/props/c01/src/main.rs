fn main() {
    use rules::fixture::*;
    use rules::*;
    let mut rt = Rt::new(2, 2);
    let p0 = Program::new(vec![Step::SetNodeAtt { n: 1, v: 2 }]);
    let p1 = Program::new(vec![Step::UpsertNode { n: 3, ty: 1 }, Step::UpsertEdge { e: 1, from: 1, to: 3, ty: 0 }]);
    println!("{:?}", rt.runtime.ingest(intent_default(wl(1), &p0)));
    println!("{:?}", rt.runtime.ingest(intent_default(wl(2), &p1)));
    println!("{:?}", rt.runtime.ingest(intent_exact(rt.heads[1], prog_kind(), &p1)));
    let recs = rt.super_tick(warp_core::SchedulerKind::Radix);
    println!("{recs:?}");
    for w in [1u8, 2] {
        let f = rt.runtime.worldlines().get(&wl(w)).unwrap();
        println!("wl{w} tick={:?} root={}", f.frontier_tick(), mc::hex(&f.state().state_root()));
        let st = f.state().warp_state().store(&universe().warp(0)).unwrap();
        println!("  n1 att={:?} n3={:?} e1={}", st.node_attachment(&universe().node(1)).is_some(), st.node(&universe().node(3)).is_some(), st.has_edge(&universe().edge(1)));
    }
    let recs = rt.super_tick(warp_core::SchedulerKind::Radix);
    println!("second pass {recs:?}");
}
