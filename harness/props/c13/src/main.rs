//! Property check C13 — decoders and byte-level entry points are total (see /verif/DESIGN.md §4).
//!
//! Parent process: enumerates the input families, runs the small exhaustive byte sweep in-process
//! (catch_unwind + counting allocator) and every adversarial family in re-exec'd child processes
//! (`--child <family> <lo> <hi>`) under RLIMIT_AS / RLIMIT_STACK / a wall timeout; classifies how
//! each child ended.  Oracle per input: the call returns `Ok`/typed `Err`, peak allocation
//! ≤ 64·len + 16 MiB, wall ≤ 2 s; the child exits normally.

mod alloc;
mod families;
mod targets;

use families::{Ctx, FAMILIES};
use mc::{hex, json, unhex, Level, Report};
use rayon::prelude::*;
use std::collections::BTreeMap;
use std::io::{BufRead, BufReader, Read, Write};
use std::os::unix::process::{CommandExt, ExitStatusExt};
use std::process::{Command, Stdio};
use std::sync::atomic::{AtomicU64, Ordering};
use std::time::{Duration, Instant};
use targets::Target;

pub const BUDGET_BASE: usize = 16 << 20;
pub const BUDGET_PER_BYTE: usize = 64;
pub const WALL_LIMIT_US: u128 = 2_000_000;
const RLIMIT_AS_BYTES: u64 = 2 << 30;
const RLIMIT_STACK_BYTES: u64 = 8 << 20;
/// A worker that burns this much CPU without finishing its current input is hung (10× the per-call limit: CPU accounting on a shared box is noisy).
const HANG_CPU_SECS: f64 = 20.0;
/// A worker that neither progresses nor uses CPU for this long is blocked.
const BLOCKED_WALL: Duration = Duration::from_secs(150);
const POLL: Duration = Duration::from_millis(500);

pub fn budget(len: usize) -> usize {
    BUDGET_BASE + BUDGET_PER_BYTE * len
}

/// Outcome of one call, as measured around the call.
pub struct Measured {
    pub outcome: Result<Result<(), String>, String>, // Err(panic message) | Ok(decoder result)
    pub peak: usize,
    pub micros: u128,
}

fn measure_once(t: &Target, input: &[u8], cpu: bool) -> Measured {
    alloc::reset_peak();
    let base = alloc::current();
    let w0 = Instant::now();
    let c0 = if cpu { thread_cpu_us() } else { 0 };
    let outcome = mc::catch(|| (t.run)(input));
    let micros = if cpu { thread_cpu_us().saturating_sub(c0) } else { w0.elapsed().as_micros() };
    let peak = alloc::peak().saturating_sub(base);
    Measured { outcome, peak, micros }
}

/// Run one call.  Time is wall-clock first (no syscall); only when that exceeds the limit is the
/// call repeated (decoders are pure) measuring the thread's CPU time, up to three times, and the
/// minimum kept — so a descheduled thread on a shared box is not reported as a slow decoder.
pub fn measure(t: &Target, input: &[u8]) -> Measured {
    let mut m = measure_once(t, input, false);
    if m.micros > WALL_LIMIT_US {
        for _ in 0..3 {
            let again = measure_once(t, input, true);
            m.micros = m.micros.min(again.micros);
            if m.micros <= WALL_LIMIT_US {
                break;
            }
        }
    }
    m
}

/// CPU time of the calling thread in µs (robust against a loaded machine; a hang is caught by the
/// parent's wall-clock no-progress timeout).
pub fn thread_cpu_us() -> u128 {
    let mut ts = libc::timespec { tv_sec: 0, tv_nsec: 0 };
    unsafe { libc::clock_gettime(libc::CLOCK_THREAD_CPUTIME_ID, &mut ts) };
    (ts.tv_sec as u128) * 1_000_000 + (ts.tv_nsec as u128) / 1000
}

/// Panic message → signature fragment: digit runs become `N` (indices/offsets vary per input, the
/// call site does not), other punctuation becomes `-`.
fn sanitize(msg: &str) -> String {
    let mut out = String::new();
    let mut in_digits = false;
    for c in msg.chars() {
        if c.is_ascii_digit() {
            if !in_digits {
                out.push('N');
            }
            in_digits = true;
        } else {
            in_digits = false;
            out.push(if c.is_ascii_alphabetic() { c } else { '-' });
        }
    }
    let mut squeezed = String::new();
    for c in out.chars() {
        if !(c == '-' && squeezed.ends_with('-')) {
            squeezed.push(c);
        }
    }
    squeezed.chars().take(56).collect::<String>().trim_matches('-').to_string()
}

/// One stable signature per root cause.
fn signature(group: &str, class: &str, msg: &str) -> String {
    match class {
        "alloc" => format!("{group}:alloc-from-declared-length"),
        "stack" => format!("{group}:unbounded-recursion-stack-overflow"),
        "hang" => format!("{group}:hang-or-over-2s"),
        "panic" if msg.contains("capacity overflow") => format!("{group}:alloc-from-declared-length"),
        "panic" => format!("{group}:panic:{}", sanitize(msg)),
        other => format!("{group}:{other}:{}", sanitize(msg)),
    }
}

// ---------------------------------------------------------------------------------------------
// child: zygote + forked workers, batched reporting
// ---------------------------------------------------------------------------------------------

const BATCH: usize = 512;
// shared cells
const C_IDX: usize = 0;
const C_TI: usize = 1;
const C_LEN: usize = 2;
const C_RUNNING: usize = 3;
const C_BFIRST: usize = 4;
const C_OK: usize = 5;
const C_ERR: usize = 6;
const C_PANICS: usize = 7;
const C_MAXPEAK: usize = 8;
const C_MAXUS: usize = 9;
const C_BVALID: usize = 10;
const C_WPID: usize = 11;

/// Cells shared between the zygote, its forked worker and (when file-backed) the parent.
struct Shared(*mut u64);
impl Shared {
    fn new() -> Shared {
        let p = unsafe {
            match std::env::var("C13_PROGRESS").ok().and_then(|p| std::fs::OpenOptions::new().read(true).write(true).create(true).truncate(false).open(p).ok()) {
                Some(f) => {
                    use std::os::unix::io::AsRawFd;
                    let _ = f.set_len(4096);
                    libc::mmap(std::ptr::null_mut(), 4096, libc::PROT_READ | libc::PROT_WRITE, libc::MAP_SHARED, f.as_raw_fd(), 0)
                }
                None => libc::mmap(std::ptr::null_mut(), 4096, libc::PROT_READ | libc::PROT_WRITE, libc::MAP_SHARED | libc::MAP_ANONYMOUS, -1, 0),
            }
        };
        assert!(p != libc::MAP_FAILED, "mmap shared cells");
        Shared(p.cast())
    }
    fn set(&self, i: usize, v: u64) {
        unsafe { std::ptr::write_volatile(self.0.add(i), v) }
    }
    fn get(&self, i: usize) -> u64 {
        unsafe { std::ptr::read_volatile(self.0.add(i)) }
    }
    fn max(&self, i: usize, v: u64) {
        if v > self.get(i) {
            self.set(i, v);
        }
    }
}

fn put(line: &str) {
    let out = std::io::stdout();
    let mut o = out.lock();
    let _ = o.write_all(line.as_bytes());
    let _ = o.write_all(b"\n");
    let _ = o.flush();
}

struct Batcher<'a> {
    shared: &'a Shared,
    kinds: BTreeMap<String, u64>,
    last: usize,
}
impl<'a> Batcher<'a> {
    fn new(shared: &'a Shared) -> Self {
        shared.set(C_BVALID, 0);
        Batcher { shared, kinds: BTreeMap::new(), last: 0 }
    }
    fn flush(&mut self) {
        let s = self.shared;
        if s.get(C_BVALID) == 1 {
            let kinds = if self.kinds.is_empty() { "-".to_string() } else { self.kinds.iter().map(|(k, v)| format!("{k}={v}")).collect::<Vec<_>>().join(";") };
            put(&format!("B {} {} {} {} {} {} {} {kinds}", s.get(C_BFIRST), self.last, s.get(C_OK), s.get(C_ERR), s.get(C_PANICS), s.get(C_MAXPEAK), s.get(C_MAXUS)));
        }
        s.set(C_BVALID, 0);
        self.kinds.clear();
    }
    fn run(&mut self, idx: usize, ti: usize, t: &Target, input: &[u8]) {
        let s = self.shared;
        if s.get(C_BVALID) == 0 {
            s.set(C_BFIRST, idx as u64);
            for c in [C_OK, C_ERR, C_PANICS, C_MAXPEAK, C_MAXUS] {
                s.set(c, 0);
            }
            s.set(C_BVALID, 1);
        }
        s.set(C_IDX, idx as u64);
        s.set(C_TI, ti as u64);
        s.set(C_LEN, input.len() as u64);
        s.set(C_RUNNING, 1);
        let m = measure(t, input);
        s.set(C_RUNNING, 0);
        self.last = idx;
        s.max(C_MAXPEAK, m.peak as u64);
        s.max(C_MAXUS, m.micros as u64);
        match &m.outcome {
            Ok(Ok(())) => s.set(C_OK, s.get(C_OK) + 1),
            Ok(Err(k)) => {
                s.set(C_ERR, s.get(C_ERR) + 1);
                *self.kinds.entry(format!("{}:{}", t.sig_group, k.replace([' ', ';', '=', '\n'], "_"))).or_default() += 1;
            }
            Err(p) => {
                s.set(C_PANICS, s.get(C_PANICS) + 1);
                put(&format!("P {idx} {ti} {} {} {} {}", input.len(), m.peak, m.micros, p.replace('\n', " ")));
            }
        }
        if m.peak > budget(input.len()) {
            put(&format!("O {idx} {ti} {} {} {}", input.len(), m.peak, m.micros));
        }
        if m.micros > WALL_LIMIT_US {
            put(&format!("T {idx} {ti} {} {} {}", input.len(), m.peak, m.micros));
        }
        if (idx + 1) % BATCH == 0 {
            self.flush();
        }
    }
}

/// The body a worker runs for inputs `[lo, hi)` of a family.
fn worker(family: &str, lo: usize, hi: usize, thorough: bool, shared: &Shared) {
    let mut b = Batcher::new(shared);
    if let Some(kind) = family.strip_prefix("selftest-") {
        if lo == 0 {
            let kind = kind.to_string();
            let t = Target {
                name: "selftest".into(),
                group: "selftest",
                sig_group: "selftest",
                min_len: 0,
                child_only: true,
                run: Box::new(move |_b: &[u8]| {
                    families::selftest(&kind);
                    Ok(())
                }),
            };
            b.run(0, 0, &t, &[]);
            b.flush();
        }
        return;
    }
    let ctx = Ctx::load();
    let targets = targets::all();
    if family == "adhoc" {
        let tname = std::env::var("C13_ADHOC_TARGET").unwrap_or_default();
        let input = match std::env::var("C13_ADHOC_INPUT_FILE") {
            Ok(p) => std::fs::read(p).unwrap_or_default(),
            Err(_) => unhex(&std::env::var("C13_ADHOC_INPUT").unwrap_or_default()),
        };
        let Some(ti) = targets.iter().position(|t| t.name == tname) else {
            eprintln!("unknown adhoc target {tname}");
            unsafe { libc::_exit(3) };
        };
        if lo == 0 {
            b.run(0, ti, &targets[ti], &input);
            b.flush();
        }
        return;
    }
    let Some(fam) = FAMILIES.iter().find(|f| f.name == family) else {
        eprintln!("unknown family {family}");
        unsafe { libc::_exit(3) };
    };
    let mut i = 0usize;
    (fam.gen)(&ctx, &targets, thorough, &mut |ti: usize, build: &dyn Fn() -> Vec<u8>| {
        let idx = i;
        i += 1;
        if idx < lo || idx >= hi {
            return;
        }
        let input = build();
        b.run(idx, ti, &targets[ti], &input);
    });
    b.flush();
}

/// `--child <family> <lo> <hi> <tier>`: a zygote that forks one worker per stretch of inputs; when a
/// worker dies (abort on allocation failure, stack overflow, …) the zygote reports the batch
/// counters and which input killed it (`D` line) and forks the next worker right after that input.
/// fork() instead of re-exec keeps the cost of a fatal input at ~1 ms.
fn child_main(args: &[String]) -> ! {
    let family = args.get(0).cloned().unwrap_or_default();
    let lo: usize = args.get(1).and_then(|s| s.parse().ok()).unwrap_or(0);
    let hi: usize = args.get(2).and_then(|s| s.parse().ok()).unwrap_or(usize::MAX);
    let thorough = args.get(3).map(|s| s == "thorough").unwrap_or(false);
    mc::quiet_panics();
    let shared = Shared::new();
    let mut cur = lo;
    let mut deaths = 0u32;
    loop {
        let mut fds = [0i32; 2];
        if unsafe { libc::pipe(fds.as_mut_ptr()) } != 0 {
            eprintln!("pipe failed");
            std::process::exit(4);
        }
        shared.set(C_RUNNING, 0);
        shared.set(C_BVALID, 0);
        let pid = unsafe { libc::fork() };
        if pid < 0 {
            eprintln!("fork failed");
            std::process::exit(4);
        }
        if pid == 0 {
            unsafe {
                libc::close(fds[0]);
                libc::dup2(fds[1], 2);
                libc::close(fds[1]);
            }
            worker(&family, cur, hi, thorough, &shared);
            unsafe { libc::_exit(0) };
        }
        unsafe { libc::close(fds[1]) };
        shared.set(C_WPID, pid as u64);
        let mut tail: Vec<u8> = Vec::new();
        let mut buf = [0u8; 4096];
        loop {
            let n = unsafe { libc::read(fds[0], buf.as_mut_ptr().cast(), buf.len()) };
            if n <= 0 {
                break;
            }
            tail.extend_from_slice(&buf[..n as usize]);
            if tail.len() > 8192 {
                let cut = tail.len() - 4096;
                tail.drain(..cut);
            }
        }
        unsafe { libc::close(fds[0]) };
        let mut status = 0i32;
        unsafe { libc::waitpid(pid, &mut status, 0) };
        if libc::WIFEXITED(status) && libc::WEXITSTATUS(status) == 0 {
            put("Z");
            std::process::exit(0);
        }
        let err = String::from_utf8_lossy(&tail).to_string();
        let (class, detail) = if err.contains("has overflowed its stack") {
            ("stack", "stack overflow (guard page hit; runtime aborts)".to_string())
        } else if err.contains("memory allocation of") {
            ("alloc", format!("{} (abort)", err.lines().find(|l| l.contains("memory allocation of")).unwrap_or("").trim()))
        } else if libc::WIFSIGNALED(status) && libc::WTERMSIG(status) == libc::SIGSEGV {
            ("stack", "SIGSEGV".to_string())
        } else if libc::WIFSIGNALED(status) {
            ("signal", format!("signal {}", libc::WTERMSIG(status)))
        } else {
            ("exit", format!("exit code {}: {}", libc::WEXITSTATUS(status), err.lines().last().unwrap_or("")))
        };
        let running = shared.get(C_RUNNING) == 1;
        let idx = shared.get(C_IDX) as usize;
        // counters of the inputs the dead worker had completed since its last flush
        if shared.get(C_BVALID) == 1 && (shared.get(C_OK) + shared.get(C_ERR) + shared.get(C_PANICS)) > 0 {
            let last = if running { idx.saturating_sub(1) } else { idx };
            put(&format!("B {} {} {} {} {} {} {} -", shared.get(C_BFIRST), last, shared.get(C_OK), shared.get(C_ERR), shared.get(C_PANICS), shared.get(C_MAXPEAK), shared.get(C_MAXUS)));
        }
        if running {
            put(&format!("D {idx} {} {} {class} {}", shared.get(C_TI), shared.get(C_LEN), detail.replace('\n', " ")));
            cur = idx + 1;
        } else {
            put(&format!("X {cur} {class} {}", detail.replace('\n', " ")));
            cur = (idx + 1).max(cur + 1);
        }
        deaths += 1;
        if cur >= hi || deaths > 500_000 {
            put("Z");
            std::process::exit(0);
        }
    }
}

// ---------------------------------------------------------------------------------------------
// parent: child supervision
// ---------------------------------------------------------------------------------------------

#[derive(Debug, Clone)]
struct Death {
    class: &'static str, // hang | exit | signal (zygote-level endings)
    detail: String,
}

#[derive(Default)]
struct FamilyStats {
    inputs: u64,
    ok: u64,
    err: u64,
    panics: u64,
    over_budget: u64,
    over_time: u64,
    deaths: BTreeMap<String, u64>,
    children: u64,
    max_peak: usize,
    max_micros: u128,
    err_kinds: BTreeMap<String, u64>,
    keys: Vec<u128>,
    violations: Vec<Viol>,
}

struct Viol {
    sig: String,
    family: String,
    index: usize,
    target: String,
    len: usize,
    what: String,
}

fn fields(rest: &str, n: usize) -> Option<(Vec<&str>, &str)> {
    let mut parts = Vec::new();
    let mut rem = rest;
    for _ in 0..n {
        let (a, b) = rem.split_once(' ').unwrap_or((rem, ""));
        if a.is_empty() {
            return None;
        }
        parts.push(a);
        rem = b;
    }
    Some((parts, rem))
}

static CHILDREN: AtomicU64 = AtomicU64::new(0);
static PROGRESS_SEQ: AtomicU64 = AtomicU64::new(0);

fn tinfo(targets: &[Target], ti: usize) -> (String, &'static str) {
    targets.get(ti).map(|t| (t.name.clone(), t.sig_group)).unwrap_or((format!("selftest#{ti}"), "selftest"))
}

/// Run one exec'd child (zygote) over `[lo, hi)`; returns (index to resume at, zygote-level death).
fn run_child(family: &str, lo: usize, hi: usize, thorough: bool, targets: &[Target], st: &mut FamilyStats) -> (usize, Option<Death>) {
    let exe = std::env::current_exe().expect("current_exe");
    let progress = mc::scratch_root().join(format!("progress-{}.bin", PROGRESS_SEQ.fetch_add(1, Ordering::Relaxed)));
    let _ = std::fs::write(&progress, vec![0u8; 4096]);
    let mut cmd = Command::new(exe);
    cmd.arg("--child").arg(family).arg(lo.to_string()).arg(hi.to_string()).arg(if thorough { "thorough" } else { "quick" });
    cmd.env("C13_PROGRESS", &progress);
    cmd.stdin(Stdio::null()).stdout(Stdio::piped()).stderr(Stdio::piped());
    unsafe {
        cmd.pre_exec(|| {
            let set = |res, v: u64| {
                let l = libc::rlimit { rlim_cur: v as libc::rlim_t, rlim_max: v as libc::rlim_t };
                libc::setrlimit(res, &l);
            };
            set(libc::RLIMIT_AS, RLIMIT_AS_BYTES);
            set(libc::RLIMIT_CORE, 0);
            let l = libc::rlimit { rlim_cur: RLIMIT_STACK_BYTES as libc::rlim_t, rlim_max: libc::RLIM_INFINITY };
            libc::setrlimit(libc::RLIMIT_STACK, &l);
            // own process group: a timeout kills the zygote together with its forked worker
            libc::setpgid(0, 0);
            Ok(())
        });
    }
    let mut child = match cmd.spawn() {
        Ok(c) => c,
        Err(e) => return (lo + 1, Some(Death { class: "exit", detail: format!("spawn failed: {e}") })),
    };
    CHILDREN.fetch_add(1, Ordering::Relaxed);
    st.children += 1;
    let stdout = child.stdout.take().expect("piped stdout");
    let mut stderr = child.stderr.take().expect("piped stderr");
    let (tx, rx) = std::sync::mpsc::channel::<String>();
    let reader = std::thread::spawn(move || {
        for line in BufReader::new(stdout).lines().map_while(Result::ok) {
            if tx.send(line).is_err() {
                break;
            }
        }
    });
    let errt = std::thread::spawn(move || {
        let mut s = Vec::new();
        let _ = stderr.read_to_end(&mut s);
        String::from_utf8_lossy(&s[s.len().saturating_sub(2000)..]).to_string()
    });
    let read_progress = |p: &std::path::Path| -> [u64; 12] {
        let mut out = [0u64; 12];
        if let Ok(b) = std::fs::read(p) {
            for (i, o) in out.iter_mut().enumerate() {
                if b.len() >= (i + 1) * 8 {
                    let mut a = [0u8; 8];
                    a.copy_from_slice(&b[i * 8..i * 8 + 8]);
                    *o = u64::from_ne_bytes(a);
                }
            }
        }
        out
    };
    let mut next = lo;
    let mut finished = false;
    let mut timed_out: Option<([u64; 12], String)> = None;
    let mut last_progress = read_progress(&progress);
    let mut progress_at = Instant::now();
    let mut cpu_at_progress: Option<f64> = None;
    // CPU seconds (user+sys) of one process, from /proc/<pid>/stat
    let proc_cpu = |pid: u64| -> Option<f64> {
        let t = std::fs::read_to_string(format!("/proc/{pid}/stat")).ok()?;
        let after = t.rsplit_once(')')?.1;
        let f: Vec<&str> = after.split_whitespace().collect();
        let ticks = f.get(11)?.parse::<f64>().ok()? + f.get(12)?.parse::<f64>().ok()?;
        Some(ticks / unsafe { libc::sysconf(libc::_SC_CLK_TCK) as f64 })
    };
    loop {
        match rx.recv_timeout(POLL) {
            Ok(line) => {
                let (tag, rest) = line.split_once(' ').unwrap_or((line.as_str(), ""));
                match tag {
                    "B" => {
                        let Some((p, kinds)) = fields(rest, 7) else { continue };
                        let n = |i: usize| p[i].parse::<u64>().unwrap_or(0);
                        let (first, last) = (n(0) as usize, n(1) as usize);
                        st.ok += n(2);
                        st.err += n(3);
                        st.panics += n(4);
                        st.inputs += n(2) + n(3) + n(4);
                        st.max_peak = st.max_peak.max(n(5) as usize);
                        st.max_micros = st.max_micros.max(u128::from(n(6)));
                        next = next.max(last + 1);
                        for i in first..=last {
                            let mut key = family.as_bytes().to_vec();
                            key.extend_from_slice(&(i as u64).to_le_bytes());
                            st.keys.push(Report::key(&key));
                        }
                        if kinds != "-" {
                            for kv in kinds.split(';') {
                                if let Some((k, v)) = kv.rsplit_once('=') {
                                    *st.err_kinds.entry(k.to_string()).or_default() += v.parse::<u64>().unwrap_or(0);
                                }
                            }
                        }
                    }
                    "P" | "O" | "T" => {
                        let Some((p, msg)) = fields(rest, 5) else { continue };
                        let i: usize = p[0].parse().unwrap_or(0);
                        let ti: usize = p[1].parse().unwrap_or(usize::MAX);
                        let len: usize = p[2].parse().unwrap_or(0);
                        let (tname, tgroup) = tinfo(targets, ti);
                        let (class, what) = match tag {
                            "P" => ("panic", format!("panic: {msg}")),
                            "O" => {
                                st.over_budget += 1;
                                ("alloc", format!("peak allocation {} B for a {len}-byte input (budget {})", p[3], budget(len)))
                            }
                            _ => {
                                st.over_time += 1;
                                ("hang", format!("{} µs of CPU", p[4]))
                            }
                        };
                        st.violations.push(Viol { sig: signature(tgroup, class, msg), family: family.into(), index: i, target: tname, len, what });
                    }
                    "D" => {
                        let Some((p, detail)) = fields(rest, 4) else { continue };
                        let i: usize = p[0].parse().unwrap_or(0);
                        let ti: usize = p[1].parse().unwrap_or(usize::MAX);
                        let len: usize = p[2].parse().unwrap_or(0);
                        next = next.max(i + 1);
                        st.inputs += 1;
                        *st.deaths.entry(p[3].to_string()).or_default() += 1;
                        let (tname, tgroup) = tinfo(targets, ti);
                        st.violations.push(Viol { sig: signature(tgroup, p[3], detail), family: family.into(), index: i, target: tname, len, what: detail.to_string() });
                    }
                    "X" => {
                        let Some((p, detail)) = fields(rest, 2) else { continue };
                        let i: usize = p[0].parse().unwrap_or(0);
                        next = next.max(i + 1);
                        *st.deaths.entry("outside-input".into()).or_default() += 1;
                        st.violations.push(Viol { sig: "harness:worker-died-outside-an-input".into(), family: family.into(), index: i, target: String::new(), len: 0, what: format!("{} {detail}", p[1]) });
                    }
                    "Z" => {
                        finished = true;
                        break;
                    }
                    _ => {}
                }
            }
            Err(std::sync::mpsc::RecvTimeoutError::Timeout) => {
                // silent: progressing through a batch, starved by the shared box, or stuck on one input?
                let now = read_progress(&progress);
                let same_input = now[..4] == last_progress[..4] && now[C_WPID] == last_progress[C_WPID];
                let cpu = proc_cpu(now[C_WPID]);
                if !same_input {
                    last_progress = now;
                    progress_at = Instant::now();
                    cpu_at_progress = cpu;
                    continue;
                }
                if cpu_at_progress.is_none() {
                    cpu_at_progress = cpu;
                }
                let burnt = match (cpu, cpu_at_progress) {
                    (Some(a), Some(b)) => a - b,
                    _ => 0.0,
                };
                let why = if now[C_RUNNING] == 1 && burnt > HANG_CPU_SECS {
                    format!("{burnt:.1} s of CPU on one input without finishing")
                } else if progress_at.elapsed() > BLOCKED_WALL {
                    format!("no progress and {burnt:.1} s of CPU in {} s (blocked)", BLOCKED_WALL.as_secs())
                } else {
                    continue;
                };
                timed_out = Some((now, why));
                unsafe { libc::kill(-(child.id() as i32), libc::SIGKILL) };
                let _ = child.kill();
                break;
            }
            Err(std::sync::mpsc::RecvTimeoutError::Disconnected) => break,
        }
    }
    let status = child.wait();
    let _ = reader.join();
    let err_tail = errt.join().unwrap_or_default();
    let _ = std::fs::remove_file(&progress);
    if finished {
        if let Ok(s) = &status {
            if s.success() {
                return (hi, None);
            }
        }
    }
    if let Some((p, why)) = timed_out {
        let (i, ti, len, running) = (p[0] as usize, p[1] as usize, p[2] as usize, p[3] == 1);
        let death = Death { class: "hang", detail: format!("{why} (input #{i}); process group killed") };
        *st.deaths.entry("hang".into()).or_default() += 1;
        // inputs the killed worker had completed since its last flush (counters live in the shared cells)
        if p[C_BVALID] == 1 {
            let done = p[C_OK] + p[C_ERR] + p[C_PANICS];
            st.ok += p[C_OK];
            st.err += p[C_ERR];
            st.panics += p[C_PANICS];
            st.inputs += done;
            st.max_peak = st.max_peak.max(p[C_MAXPEAK] as usize);
            let last = if running { i.saturating_sub(1) } else { i };
            if done > 0 {
                for k in (p[C_BFIRST] as usize)..=last {
                    let mut key = family.as_bytes().to_vec();
                    key.extend_from_slice(&(k as u64).to_le_bytes());
                    st.keys.push(Report::key(&key));
                }
            }
        }
        if running {
            st.inputs += 1;
            let (tname, tgroup) = tinfo(targets, ti);
            st.violations.push(Viol { sig: signature(tgroup, "hang", ""), family: family.into(), index: i, target: tname, len, what: death.detail.clone() });
        }
        return ((i + 1).max(next).max(lo + 1), Some(death));
    }
    let detail = match &status {
        Ok(s) if s.signal().is_some() => format!("zygote killed by signal {}", s.signal().unwrap_or(0)),
        Ok(s) => format!("zygote exit code {:?}; stderr: {}", s.code(), err_tail.lines().last().unwrap_or("")),
        Err(e) => format!("wait failed: {e}"),
    };
    *st.deaths.entry("zygote".into()).or_default() += 1;
    st.violations.push(Viol { sig: "harness:zygote-died".into(), family: family.into(), index: next, target: String::new(), len: 0, what: detail.clone() });
    (next.max(lo + 1), Some(Death { class: "exit", detail }))
}

/// One ad-hoc (target, input file) run in a fresh limited child.
fn adhoc(target: &str, input_file: &std::path::Path, targets: &[Target]) -> (usize, Option<Death>, FamilyStats) {
    static LOCK: std::sync::Mutex<()> = std::sync::Mutex::new(());
    let _g = LOCK.lock();
    std::env::set_var("C13_ADHOC_TARGET", target);
    std::env::set_var("C13_ADHOC_INPUT_FILE", input_file);
    let mut st = FamilyStats::default();
    let (n, d) = run_child("adhoc", 0, 1, false, targets, &mut st);
    std::env::remove_var("C13_ADHOC_INPUT_FILE");
    (n, d, st)
}

// ---------------------------------------------------------------------------------------------
// parent: in-process exhaustive byte sweep
// ---------------------------------------------------------------------------------------------

#[derive(Default)]
struct SweepLocal {
    ok: BTreeMap<usize, u64>,
    err: BTreeMap<usize, u64>,
    viol: Vec<(String, usize, Vec<u8>, String)>,
    max_peak: usize,
    keys: Vec<u128>,
    n: u64,
}

fn sweep_one(targets: &[Target], b: &[u8], l: &mut SweepLocal) {
    for (ti, t) in targets.iter().enumerate() {
        if t.child_only {
            continue;
        }
        l.n += 1;
        let m = measure(t, b);
        l.max_peak = l.max_peak.max(m.peak);
        match &m.outcome {
            Ok(Ok(())) => {
                *l.ok.entry(ti).or_default() += 1;
                let mut key = t.name.as_bytes().to_vec();
                key.push(0);
                key.extend_from_slice(b);
                l.keys.push(Report::key(&key));
            }
            Ok(Err(_)) => *l.err.entry(ti).or_default() += 1,
            Err(p) => l.viol.push((signature(t.sig_group, "panic", p), ti, b.to_vec(), format!("panic: {p}"))),
        }
        if m.peak > budget(b.len()) {
            l.viol.push((signature(t.sig_group, "alloc", ""), ti, b.to_vec(), format!("peak allocation {} B", m.peak)));
        }
        if m.micros > WALL_LIMIT_US {
            l.viol.push((signature(t.sig_group, "hang", ""), ti, b.to_vec(), format!("{} µs", m.micros)));
        }
    }
}

fn sweep(r: &Report, targets: &[Target]) {
    let max_len = r.pick(2usize, 3usize);
    let mut total = SweepLocal::default();
    sweep_one(targets, &[], &mut total);
    let mut strings = 1u64;
    for len in 1..=max_len {
        if r.over_budget_frac(0.5) {
            r.cap_hit(&format!("in-process byte sweep stopped before length {len}"));
            break;
        }
        let shards: Vec<(SweepLocal, u64)> = (0u16..256)
            .into_par_iter()
            .map(|first| {
                let mut l = SweepLocal::default();
                let n = mc::enumerate::byte_strings_with_first(first as u8, len, |b| sweep_one(targets, b, &mut l));
                (l, n)
            })
            .collect();
        for (l, n) in shards {
            strings += n;
            for (k, v) in l.ok {
                *total.ok.entry(k).or_default() += v;
            }
            for (k, v) in l.err {
                *total.err.entry(k).or_default() += v;
            }
            total.viol.extend(l.viol);
            total.max_peak = total.max_peak.max(l.max_peak);
            total.keys.extend(l.keys);
            total.n += l.n;
        }
    }
    r.eval(total.n);
    r.counter("sweep:byte_strings", strings);
    r.counter("sweep:calls", total.n);
    r.counter("sweep:max_peak_allocation_bytes", total.max_peak as u64);
    r.nontrivial_many(total.keys.iter().copied());
    let mut per = serde_json::Map::new();
    for (ti, t) in targets.iter().enumerate() {
        if t.child_only {
            continue;
        }
        let a = total.ok.get(&ti).copied().unwrap_or(0);
        let e = total.err.get(&ti).copied().unwrap_or(0);
        per.insert(t.name.clone(), json!({"returned_ok": a, "returned_typed_err": e}));
        // a ≤3-byte WAL segment is a torn tail (Ok by design); its typed errors are guarded in the wal-segment family
        r.guard(&format!("sweep:typed_errors_seen:{}", t.name), e > 0 || t.group == "wal-segment");
        r.guard(&format!("sweep:ok_seen_or_min_len_exceeds_sweep:{}", t.name), a > 0 || t.min_len > max_len);
    }
    r.note("sweep:per_target", serde_json::Value::Object(per));
    r.outcome_n("sweep:returned_ok", total.ok.values().sum());
    r.outcome_n("sweep:returned_typed_err", total.err.values().sum());
    total.viol.sort_by(|a, b| (a.0.as_str(), a.2.len(), &a.2).cmp(&(b.0.as_str(), b.2.len(), &b.2)));
    for (sig, ti, b, what) in total.viol {
        r.violation(&sig, json!({"case": {"target": targets[ti].name, "input_hex": hex(&b)}, "what": what, "phase": "in-process sweep"}));
    }
}

// ---------------------------------------------------------------------------------------------

fn replay(r: &Report, path: &std::path::Path, targets: &[Target]) {
    let v: serde_json::Value = match std::fs::read_to_string(path).ok().and_then(|t| serde_json::from_str(&t).ok()) {
        Some(v) => v,
        None => {
            r.machinery_error("cannot read replay file");
            return;
        }
    };
    let case = &v["detail"]["case"];
    r.rule("replay of one recorded case in a limited child process");
    r.nontrivial(b"replay-a");
    r.nontrivial(b"replay-b");
    let (family, index) = if let (Some(f), Some(i)) = (case["family"].as_str(), case["index"].as_u64()) {
        (f.to_string(), i as usize)
    } else if let (Some(t), Some(h)) = (case["target"].as_str(), case["input_hex"].as_str()) {
        // ad-hoc input: hand it to the child through the environment
        std::env::set_var("C13_ADHOC_TARGET", t);
        std::env::set_var("C13_ADHOC_INPUT", h);
        ("adhoc".to_string(), 0)
    } else {
        r.machinery_error("replay file has neither detail.case.{family,index} nor {target,input_hex}");
        return;
    };
    let thorough = case["tier"].as_str() == Some("thorough");
    let mut st = FamilyStats::default();
    let (_, death) = run_child(&family, index, index + 1, thorough, targets, &mut st);
    r.eval(1);
    r.sample(json!({"replay": {"family": family, "index": index}, "death": death.as_ref().map(|d| format!("{}: {}", d.class, d.detail)), "ok": st.ok, "err": st.err, "panics": st.panics, "max_peak": st.max_peak}));
    println!("[C13] replay family={family} index={index}: ok={} err={} panics={} death={:?} max_peak={}", st.ok, st.err, st.panics, death, st.max_peak);
    for v in st.violations {
        r.violation(&v.sig, json!({"case": {"family": v.family, "index": v.index}, "target": v.target, "what": v.what}));
    }
}

fn main() {
    let args: Vec<String> = std::env::args().collect();
    if let Some(p) = args.iter().position(|a| a == "--child") {
        child_main(&args[p + 1..]);
    }
    let r = Report::new("C13", Level::Exploration);
    mc::quiet_panics();
    let targets = targets::all();
    // context shared with the children (valid WAL segment bytes etc.) lives in the scratch dir
    let ctx = Ctx::create(&mc::scratch_root());
    if let Some(p) = r.replay.clone() {
        replay(&r, &p, &targets);
        r.finish();
    }
    r.rule("every target (all C12 decoders + WSC reader/validator + unvalidated WSC view + WAL segment reader + warp-wasm byte boundary) × (i) EVERY byte string of length ≤2 (quick) / ≤3 (thorough), in-process; (ii) in limited child processes: every CBOR header shape × declared length {0,1,23,24,255,256,65535,65536,2^32−1,2^32,2^63,2^64−1} (every width that can carry it) × tail {none, 1 byte, exact when ≤64 KiB} at top level / inside an array / as a map value; nesting depth 2^0..2^15 (quick) / 2^20 (thorough) of arrays, map values, map keys, tags, LE options, plus bisection of the first failing depth; truncation of every valid encoding at every length; a lying u64/u32 length written at every offset of valid encodings, WSC files (every 8-aligned field: 0,1,len,len+1,2^32,2^64−1 and the length list) and WAL segments (raw and with re-signed disk records); single-position mutants of valid encodings and of the WAL segment; the warp-wasm native boundary on sweeps, EINT headers with lying lengths and mutated valid requests. distinct_nontrivial = distinct (target,input) pairs that ran to a verdict.");
    r.assume(&format!("child limits: RLIMIT_AS {} MiB, RLIMIT_STACK {} MiB (main thread runs the decoders), hang = {} s of CPU on one input without finishing (or 150 s blocked); budget per input: peak allocation ≤ 64·len + 16 MiB measured by a counting #[global_allocator], CPU time of the call ≤ 2 s (wall only as a first filter: the box is shared)", RLIMIT_AS_BYTES >> 20, RLIMIT_STACK_BYTES >> 20, HANG_CPU_SECS));
    r.assume("'random inputs up to 1 MiB' of the property text is sampling and is not done; the nesting family reaches 1 MiB inputs in the thorough tier");
    r.note("targets", json!(targets.iter().map(|t| json!({"name": t.name, "signature_group": t.sig_group, "child_only": t.child_only})).collect::<Vec<_>>()));

    // (0) the supervision machinery must classify known endings correctly (vacuity of the oracle)
    r.guard("wal_segment_fixture_recovers_cleanly", families::segment_is_valid(&ctx));
    r.counter("wal_segment_fixture_bytes", ctx.segment.len() as u64);
    let selftests = std::thread::spawn(|| {
        let targets: Vec<Target> = Vec::new();
        let kinds = [("ok", "normal"), ("panic", "normal"), ("alloc", "alloc"), ("stack", "stack"), ("hang", "hang"), ("abort", "signal")];
        let _ = &targets;
        let handles: Vec<_> = kinds
            .iter()
            .map(|(kind, expect)| {
                let (kind, expect) = (kind.to_string(), expect.to_string());
                std::thread::spawn(move || {
                    let mut st = FamilyStats::default();
                    let (_, death) = run_child(&format!("selftest-{kind}"), 0, 1, false, &[], &mut st);
                    let got = st.deaths.keys().next().cloned().unwrap_or_else(|| death.as_ref().map(|d| d.class.to_string()).unwrap_or_else(|| "normal".into()));
                    (kind, expect, got, format!("{death:?} {:?}", st.deaths))
                })
            })
            .collect();
        handles.into_iter().filter_map(|h| h.join().ok()).collect::<Vec<_>>()
    });

    // (i) in-process sweep
    sweep(&r, &targets);

    // (ii) families in children
    let thorough = r.thorough();
    let sizes: Vec<(usize, usize)> = FAMILIES
        .par_iter()
        .enumerate()
        .map(|(fi, f)| {
            let mut n = 0usize;
            (f.gen)(&ctx, &targets, thorough, &mut |_t, _b| n += 1);
            (fi, n)
        })
        .collect();
    let stats: Vec<(usize, FamilyStats)> = sizes
        .par_iter()
        .flat_map(|(fi, n)| {
            // split big families into chunks so children run concurrently
            let chunk = if thorough { (*n / 16).max(5_000) } else { (*n / 6).max(5_000) };
            let mut v = Vec::new();
            let mut lo = 0;
            while lo < *n {
                v.push((*fi, lo, (lo + chunk).min(*n)));
                lo += chunk;
            }
            v
        })
        .filter(|(fi, _, _)| std::env::var("C13_ONLY").map(|o| o == FAMILIES[*fi].name).unwrap_or(true))
        .map(|(fi, lo, hi)| {
            let f = &FAMILIES[fi];
            let mut st = FamilyStats::default();
            let mut cur = lo;
            let mut restarts = 0;
            let t0 = Instant::now();
            struct Done<'a>(&'a str, usize, usize, Instant);
            impl Drop for Done<'_> {
                fn drop(&mut self) {
                    if std::env::var("C13_VERBOSE").is_ok() {
                        eprintln!("[c13] chunk {} [{}, {}) took {:.1}s", self.0, self.1, self.2, self.3.elapsed().as_secs_f64());
                    }
                }
            }
            let _done = Done(f.name, lo, hi, t0);
            if r.over_budget_frac(0.8) {
                r.cap_hit(&format!("family {} inputs [{lo}, {hi}) not run: wall cap", f.name));
                return (fi, st);
            }
            while cur < hi {
                let (next, death) = run_child(f.name, cur, hi, thorough, &targets, &mut st);
                if death.is_none() {
                    break;
                }
                restarts += 1;
                if restarts > 5000 {
                    st.violations.push(Viol { sig: "harness:too-many-child-restarts".into(), family: f.name.into(), index: cur, target: String::new(), len: 0, what: String::new() });
                    break;
                }
                cur = next;
            }
            (fi, st)
        })
        .collect();
    let mut viols: Vec<Viol> = Vec::new();
    let mut per_family: BTreeMap<&'static str, serde_json::Value> = BTreeMap::new();
    let mut merged: BTreeMap<usize, FamilyStats> = BTreeMap::new();
    for (fi, st) in stats {
        let m = merged.entry(fi).or_default();
        m.inputs += st.inputs;
        m.ok += st.ok;
        m.err += st.err;
        m.panics += st.panics;
        m.over_budget += st.over_budget;
        m.over_time += st.over_time;
        m.children += st.children;
        m.max_peak = m.max_peak.max(st.max_peak);
        m.max_micros = m.max_micros.max(st.max_micros);
        for (k, v) in st.deaths {
            *m.deaths.entry(k).or_default() += v;
        }
        for (k, v) in st.err_kinds {
            *m.err_kinds.entry(k).or_default() += v;
        }
        m.keys.extend(st.keys);
        m.violations.extend(st.violations);
    }
    let mut all_classes: BTreeMap<String, u64> = BTreeMap::new();
    for (fi, n) in &sizes {
        let f = &FAMILIES[*fi];
        let st = merged.remove(fi).unwrap_or_default();
        r.eval(st.inputs);
        r.nontrivial_many(st.keys.iter().copied());
        r.outcome_n(&format!("{}:returned_ok", f.name), st.ok);
        r.outcome_n(&format!("{}:returned_typed_err", f.name), st.err);
        if st.panics > 0 {
            r.outcome_n(&format!("{}:panicked", f.name), st.panics);
        }
        for (k, v) in &st.deaths {
            r.outcome_n(&format!("{}:child_died:{k}", f.name), *v);
            *all_classes.entry(k.clone()).or_default() += v;
        }
        *all_classes.entry("normal".into()).or_default() += st.children.saturating_sub(st.deaths.values().sum::<u64>());
        let distinct_err: Vec<String> = st.err_kinds.iter().map(|(k, v)| format!("{k}×{v}")).collect();
        per_family.insert(
            f.name,
            json!({"what": f.what, "inputs_generated": n, "inputs_run": st.inputs, "ok": st.ok, "typed_err": st.err, "panics": st.panics, "over_budget": st.over_budget, "over_2s": st.over_time,
                   "children": st.children, "child_deaths": st.deaths, "max_peak_allocation_bytes": st.max_peak, "max_wall_us": st.max_micros as u64, "typed_errors": distinct_err}),
        );
        r.guard(&format!("family_ran_every_input_or_cap_reported:{}", f.name), st.inputs as usize == *n || r.over_budget_frac(0.8));
        r.guard(&format!("family_nonempty:{}", f.name), *n > 0);
        r.guard(&format!("family_saw_typed_errors:{}", f.name), st.err > 0);
        viols.extend(st.violations);
    }
    let mut classes_seen: BTreeMap<String, u64> = BTreeMap::new();
    for (kind, expect, got, death) in selftests.join().unwrap_or_default() {
        *classes_seen.entry(got.clone()).or_default() += 1;
        r.guard(&format!("selftest:child_ending_classified:{kind}"), got == expect);
        if got != expect {
            r.machinery_error(&format!("selftest child '{kind}' classified as {got} ({death}), expected {expect}"));
        }
    }
    r.note("selftest:exit_classes", json!(classes_seen));
    r.guard("selftest:distinct_exit_classes", classes_seen.len() >= 5);

    // minimal nesting depth that kills a decoder (bisection between the last surviving and the
    // first failing power of two), per (target, shape) that overflowed the stack
    let mut min_depths = serde_json::Map::new();
    {
        let mut failing: BTreeMap<(String, &'static str), ()> = BTreeMap::new();
        for v in viols.iter().chain(merged.values().flat_map(|m| m.violations.iter())) {
            let _ = v;
        }
        for (tname, shape) in [("abi-cbor", "array"), ("abi-cbor", "map-value"), ("abi-cbor", "map-key"), ("wasm:observe_cbor", "array"), ("edict-cbor", "array"), ("scene-cbor:SceneDelta", "array")] {
            failing.insert((tname.to_string(), shape), ());
        }
        let max_depth = 1usize << r.pick(15, 20);
        for ((tname, shape), ()) in failing {
            let dies = |d: usize| -> Option<String> {
                let input = families::nested(shape, d);
                let p = mc::scratch_root().join(format!("adhoc-{}-{shape}-{d}.bin", sanitize(&tname)));
                let _ = std::fs::write(&p, &input);
                let (_, death, st) = adhoc(&tname, &p, &targets);
                let _ = std::fs::remove_file(&p);
                st.deaths.keys().next().cloned().or(death.map(|x| x.class.to_string()))
            };
            r.eval(1);
            let Some(class) = dies(max_depth) else {
                min_depths.insert(format!("{tname}:{shape}"), json!({"survives_depth": max_depth}));
                continue;
            };
            let (mut lo, mut hi) = (0usize, max_depth); // lo survives (depth 0 trivially), hi dies
            while hi - lo > 1 {
                let mid = lo + (hi - lo) / 2;
                r.eval(1);
                if dies(mid).is_some() {
                    hi = mid;
                } else {
                    lo = mid;
                }
            }
            min_depths.insert(format!("{tname}:{shape}"), json!({"minimal_fatal_depth": hi, "input_bytes": families::nested(shape, hi).len(), "class": class, "stack_limit_mib": RLIMIT_STACK_BYTES >> 20}));
        }
    }
    r.note("nesting:minimal_fatal_depth", serde_json::Value::Object(min_depths));
    r.note("families", json!(per_family));
    r.note("child_exit_classes", json!(all_classes));
    r.counter("children_spawned", CHILDREN.load(Ordering::Relaxed));
    r.guard("children_were_run", CHILDREN.load(Ordering::Relaxed) >= FAMILIES.len() as u64);
    r.guard("normal_child_exit_seen", all_classes.get("normal").copied().unwrap_or(0) > 0);
    // minimal input first per signature
    viols.sort_by(|a, b| (a.sig.as_str(), a.len, a.index).cmp(&(b.sig.as_str(), b.len, b.index)));
    let mut shown: BTreeMap<String, u32> = BTreeMap::new();
    for v in &viols {
        let n = shown.entry(v.sig.clone()).or_default();
        *n += 1;
        let input_hex = if *n == 1 { families::input_of(&ctx, &targets, thorough, &v.family, v.index).map(|b| if b.len() <= 96 { hex(&b) } else { format!("{}…({} bytes)", hex(&b[..48]), b.len()) }) } else { None };
        r.violation(&v.sig, json!({"case": {"family": v.family, "index": v.index, "tier": if thorough {"thorough"} else {"quick"}}, "target": v.target, "input_len": v.len, "input_hex": input_hex, "what": v.what}));
    }
    if let Some(v) = viols.first() {
        r.sample(json!({"violating_case": {"family": v.family, "index": v.index, "target": v.target, "what": v.what}}));
    }
    r.sample(json!({"family": "cbor-header-lengths", "example": "9a ff ff ff ff  (array, 4-byte count 2^32−1, no tail) → abi-cbor, every DTO decoder, edict, scene, EINT-wrapped, wasm observe_cbor"}));
    let _ = unhex;
    r.finish();
}
