//! Targets = every decoder of the shared codec table + byte-level entry points that are not codecs.

use codecs::Codec;
use warp_core::causal_wal::{recover_wal_segment_bytes, RecoveryAccessMode, WalSegmentId};
use warp_core::wsc::WscFile;

pub struct Target {
    pub name: String,
    /// Group of the codec table (family selection).
    pub group: &'static str,
    /// Prefix of violation signatures: names the component that owns the root cause (every decoder
    /// layered on `canonical::decode_value` reports as `abi-cbor`).
    pub sig_group: &'static str,
    pub min_len: usize,
    /// Must not run on rayon threads of the parent (thread-local kernel / heavy).
    pub child_only: bool,
    pub run: Box<dyn Fn(&[u8]) -> Result<(), String> + Send + Sync>,
}

fn sig_group(c: &Codec) -> &'static str {
    match c.group {
        "abi-cbor" | "abi-dto" => "abi-cbor",
        "intent-envelope" if c.name.starts_with("control-intent") => "abi-cbor",
        g => g,
    }
}

fn wasm_ready() {
    use std::cell::Cell;
    thread_local! { static INIT: Cell<bool> = const { Cell::new(false) }; }
    INIT.with(|i| {
        if !i.get() {
            i.set(true);
            if let Err(e) = warp_wasm::init_embedded() {
                eprintln!("init_embedded failed: {} {}", e.code, e.message);
            }
        }
    });
}

/// The host boundary always returns an encoded envelope; `Ok` = `{ok:true,…}`, `Err` = `{ok:false,code}`.
fn envelope_result(bytes: Vec<u8>) -> Result<(), String> {
    if bytes.is_empty() {
        return Err("EmptyEnvelope".into());
    }
    match echo_wasm_abi::decode_cbor::<echo_wasm_abi::kernel_port::ErrEnvelope>(&bytes) {
        Ok(e) => Err(format!("AbiError{}", e.code)),
        Err(_) => Ok(()),
    }
}

pub fn all() -> Vec<Target> {
    let mut v: Vec<Target> = Vec::new();
    for c in codecs::table() {
        let sg = sig_group(&c);
        let Codec { name, group, min_len, decode_only, .. } = c;
        v.push(Target { name, group, sig_group: sg, min_len, child_only: false, run: decode_only });
    }
    v.push(Target {
        name: "wsc:view-without-validate".into(),
        group: "wsc",
        sig_group: "wsc-view-unvalidated",
        min_len: 312,
        child_only: false,
        run: Box::new(|b: &[u8]| {
            let f = WscFile::from_bytes(b.to_vec()).map_err(|e| codecs::err_kind(&e))?;
            for i in 0..f.warp_count().min(64) {
                let w = f.warp_view(i).map_err(|e| codecs::err_kind(&e))?;
                let mut acc = 0usize;
                for n in 0..w.nodes().len().min(4096) {
                    acc += w.out_edges_for_node(n).len();
                    for a in w.node_attachments(n) {
                        acc += w.blob_for_attachment(a).map_or(0, <[u8]>::len);
                    }
                }
                for e in 0..w.edges().len().min(4096) {
                    for a in w.edge_attachments(e) {
                        acc += w.blob_for_attachment(a).map_or(0, <[u8]>::len);
                    }
                }
                std::hint::black_box(acc);
            }
            Ok(())
        }),
    });
    for (name, mode) in [("wal-segment:recover-readonly", RecoveryAccessMode::ReadOnly), ("wal-segment:recover-writable", RecoveryAccessMode::Writable)] {
        v.push(Target {
            name: name.into(),
            group: "wal-segment",
            sig_group: "wal-segment",
            min_len: 0,
            child_only: false,
            run: Box::new(move |b: &[u8]| recover_wal_segment_bytes(WalSegmentId::from_raw(1), b, mode).map(|_| ()).map_err(|e| codecs::err_kind(&e))),
        });
    }
    v.push(Target {
        name: "wasm:dispatch_intent_cbor".into(),
        group: "wasm",
        sig_group: "abi-cbor",
        min_len: 12,
        child_only: true,
        run: Box::new(|b: &[u8]| {
            wasm_ready();
            envelope_result(warp_wasm::dispatch_intent_cbor(b))
        }),
    });
    v.push(Target {
        name: "wasm:observe_cbor".into(),
        group: "wasm",
        sig_group: "abi-cbor",
        min_len: 100,
        child_only: true,
        run: Box::new(|b: &[u8]| {
            wasm_ready();
            envelope_result(warp_wasm::observe_cbor(b))
        }),
    });
    v.push(Target {
        name: "wasm:dispatch_control_intent_trusted_cbor".into(),
        group: "wasm",
        sig_group: "abi-cbor",
        min_len: 23,
        child_only: true,
        run: Box::new(|b: &[u8]| {
            wasm_ready();
            envelope_result(warp_wasm::dispatch_control_intent_trusted_cbor(b))
        }),
    });
    v
}
