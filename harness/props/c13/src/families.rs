//! Deterministic adversarial input families.  A family is a pure generator: parent and children
//! enumerate the same sequence, the child runs the slice `[lo, hi)` it was given.

use crate::targets::Target;
use codecs::mutate::{for_each_mutant, for_each_truncation};
use std::collections::BTreeMap;
use std::path::{Path, PathBuf};
use warp_core::causal_wal::{
    build_submission_acceptance_transaction, recover_wal_segment_bytes, AffectedFrontier, AffectedFrontierKind, FilesystemWalStore, Lsn, WalStorePort,
    PayloadCodecId, PayloadSchemaId, RecoveryAccessMode, SubmissionAcceptanceRecord, WalAppendAuthority, WalDurabilityMode, WalSegmentId,
    WalTransactionBuilder, WalTransactionId, WalTransactionKind, WriterEpochId, WriterEpochRequest,
};

/// `emit(target index, lazy builder)`: the builder is only invoked for inputs that are actually run.
pub type Emit<'a> = &'a mut dyn FnMut(usize, &dyn Fn() -> Vec<u8>);

pub struct Family {
    pub name: &'static str,
    pub what: &'static str,
    pub gen: fn(&Ctx, &[Target], bool, Emit),
}

/// Declared lengths of DESIGN C13.
pub const LENGTHS: [u64; 12] = [0, 1, 23, 24, 255, 256, 65535, 65536, (1 << 32) - 1, 1 << 32, 1 << 63, u64::MAX];

pub struct Ctx {
    pub segment: Vec<u8>,
}

fn dg(s: &str) -> [u8; 32] {
    blake3::hash(s.as_bytes()).into()
}

fn build_segment(dir: &Path) -> Result<Vec<u8>, String> {
    let root = dir.join("c13-wal");
    let _ = std::fs::remove_dir_all(&root);
    std::fs::create_dir_all(&root).map_err(|e| e.to_string())?;
    let epoch = WriterEpochId::from_hash(dg("c13:epoch"));
    let mut store = FilesystemWalStore::open(&root, WalSegmentId::from_raw(1)).map_err(|e| format!("{e:?}"))?;
    store
        .acquire_writer_epoch(WriterEpochRequest {
            epoch_id: epoch,
            storage_fencing_token: dg("c13:fence"),
            process_identity: dg("c13:process"),
            host_identity: dg("c13:host"),
            started_at_lsn: Lsn::from_raw(0),
            previous_epoch_id: None,
            previous_epoch_final_commit_digest: None,
            lease_or_lock_evidence: dg("c13:lock"),
        })
        .map_err(|e| format!("{e:?}"))?;
    let mut lsn = 0u64;
    for label in ["a", "b"] {
        let builder = WalTransactionBuilder::new(
            epoch,
            WalSegmentId::from_raw(1),
            WalTransactionId::from_hash(dg(&format!("c13:tx:{label}"))),
            WalTransactionKind::SubmissionIntake,
            WalAppendAuthority::SubmissionIntake,
            Lsn::from_raw(lsn),
            dg("c13:previous-frame"),
            dg("c13:previous-commit"),
            WalDurabilityMode::StrictFilesystem,
            PayloadCodecId::from_hash(dg("c13:codec")),
            PayloadSchemaId::from_hash(dg("c13:schema")),
            1,
            1,
            dg("c13:domain"),
        );
        let tx = build_submission_acceptance_transaction(
            builder,
            SubmissionAcceptanceRecord {
                submission_id: dg(&format!("c13:submission:{label}")),
                canonical_envelope_digest: dg(&format!("c13:envelope:{label}")),
                idempotency_key_digest: None,
                acceptance_evidence_digest: dg(&format!("c13:acceptance:{label}")),
            },
            vec![AffectedFrontier { kind: AffectedFrontierKind::SubmissionQueue, before_digest: dg("before"), after_digest: dg("after") }],
        )
        .map_err(|e| format!("{e:?}"))?;
        lsn += tx.frames.len() as u64;
        if store.append_transaction(tx).is_err() {
            break; // a second transaction is a bonus; one committed transaction is enough
        }
    }
    let path = store.segment_path();
    drop(store);
    std::fs::read(path).map_err(|e| e.to_string())
}

impl Ctx {
    /// Parent: build the shared context under the scratch dir and export its location.
    pub fn create(scratch: &Path) -> Ctx {
        let segment = build_segment(scratch).unwrap_or_default();
        let p: PathBuf = scratch.join("c13-segment.bin");
        let _ = std::fs::write(&p, &segment);
        std::env::set_var("C13_CTX_SEGMENT", &p);
        Ctx { segment }
    }
    pub fn load() -> Ctx {
        let segment = std::env::var("C13_CTX_SEGMENT").ok().and_then(|p| std::fs::read(p).ok()).unwrap_or_default();
        Ctx { segment }
    }
}

fn by_name(targets: &[Target]) -> BTreeMap<&str, usize> {
    targets.iter().enumerate().map(|(i, t)| (t.name.as_str(), i)).collect()
}

/// Valid encodings per codec of the table, largest first (`k` per codec; all when `k == 0`).
fn encodings(thorough: bool, k: usize) -> Vec<(String, &'static str, Vec<Vec<u8>>)> {
    let mut out = Vec::new();
    for c in codecs::table() {
        let mut encs: Vec<Vec<u8>> = (c.samples)(thorough).into_iter().filter(|s| s.in_domain).filter_map(|s| s.bytes.ok()).collect();
        if c.name == "ingress-retention" {
            encs.extend(codecs::legacy_encodings().into_iter().map(|(_, _, b, _)| b));
        }
        encs.sort_by(|a, b| b.len().cmp(&a.len()).then(a.cmp(b)));
        encs.dedup();
        encs.retain(|e| e.len() <= 8192);
        if k > 0 && encs.len() > k {
            // keep the largest k-1 and the smallest
            let last = encs[encs.len() - 1].clone();
            encs.truncate(k - 1);
            encs.push(last);
        }
        out.push((c.name.clone(), c.group, encs));
    }
    out
}

fn eint(op: u32, payload: &[u8]) -> Vec<u8> {
    let mut v = b"EINT".to_vec();
    v.extend_from_slice(&op.to_le_bytes());
    v.extend_from_slice(&(payload.len() as u32).to_le_bytes());
    v.extend_from_slice(payload);
    v
}

fn cbor_head(major: u8, info: u8, arg: u64) -> Vec<u8> {
    let mut v = vec![(major << 5) | info];
    match info {
        24 => v.push(arg as u8),
        25 => v.extend_from_slice(&(arg as u16).to_be_bytes()),
        26 => v.extend_from_slice(&(arg as u32).to_be_bytes()),
        27 => v.extend_from_slice(&arg.to_be_bytes()),
        _ => {}
    }
    v
}

fn canonical_uint(n: u64) -> Vec<u8> {
    match n {
        0..=23 => cbor_head(0, n as u8, 0),
        24..=0xff => cbor_head(0, 24, n),
        0x100..=0xffff => cbor_head(0, 25, n),
        0x1_0000..=0xffff_ffff => cbor_head(0, 26, n),
        _ => cbor_head(0, 27, n),
    }
}

/// CBOR-consuming targets: (index, wrapper) — wrapper turns a CBOR item into the target's input.
fn cbor_targets(targets: &[Target], thorough: bool) -> Vec<(usize, fn(&[u8]) -> Vec<u8>)> {
    let plain: fn(&[u8]) -> Vec<u8> = |b| b.to_vec();
    let ctrl: fn(&[u8]) -> Vec<u8> = |b| eint(echo_wasm_abi::CONTROL_INTENT_V1_OP_ID, b);
    let app: fn(&[u8]) -> Vec<u8> = |b| eint(1, b);
    let mut v = Vec::new();
    let quick_dtos = ["abi-dto:AbiError", "abi-dto:ControlIntentV1", "abi-dto:ObservationRequest", "abi-dto:legacy.WarpGraph"];
    for (i, t) in targets.iter().enumerate() {
        match t.group {
            "abi-cbor" | "edict-cbor" | "scene-cbor" => v.push((i, plain)),
            "abi-dto" if thorough || quick_dtos.contains(&t.name.as_str()) => v.push((i, plain)),
            "intent-envelope" if t.name.starts_with("control-intent") => v.push((i, ctrl)),
            "wasm" => match t.name.as_str() {
                "wasm:observe_cbor" => v.push((i, plain)),
                "wasm:dispatch_control_intent_trusted_cbor" => v.push((i, ctrl)),
                _ => v.push((i, app)),
            },
            _ => {}
        }
    }
    v
}

struct HeadItem {
    head: Vec<u8>,
    major: u8,
    l: u64,
    tail: u8, // 0 none, 1 one byte, 2 exact
}

fn build_item(it: &HeadItem) -> Vec<u8> {
    let mut v = it.head.clone();
    match it.tail {
        1 => v.push(0x00),
        2 => match it.major {
            2 | 3 => v.extend(std::iter::repeat(b'a').take(it.l as usize)),
            4 => v.extend(std::iter::repeat(0x00).take(it.l as usize)),
            5 => {
                for k in 0..it.l {
                    v.extend(canonical_uint(k));
                    v.push(0x00);
                }
            }
            6 => v.push(0x00),
            _ => {}
        },
        _ => {}
    }
    v
}

fn build_form(it: &HeadItem, ctx: u8) -> Vec<u8> {
    let body = build_item(it);
    let mut v = Vec::with_capacity(body.len() + 3);
    match ctx {
        1 => v.push(0x81),
        2 => v.extend_from_slice(&[0xa1, 0x00]),
        3 => v.push(0xa1),
        _ => {}
    }
    v.extend_from_slice(&body);
    if ctx == 3 {
        v.push(0x00);
    }
    v
}

fn gen_cbor_header_lengths(_ctx: &Ctx, targets: &[Target], thorough: bool, emit: Emit) {
    let tg = cbor_targets(targets, thorough);
    let mut items: Vec<HeadItem> = Vec::new();
    for major in 0u8..8 {
        let mut heads: Vec<(Vec<u8>, u64)> = Vec::new();
        for &l in &LENGTHS {
            if l <= 23 {
                heads.push((cbor_head(major, l as u8, 0), l));
            }
            for (info, max) in [(24u8, 0xffu64), (25, 0xffff), (26, 0xffff_ffff), (27, u64::MAX)] {
                if l <= max {
                    heads.push((cbor_head(major, info, l), l));
                }
            }
        }
        for info in [28u8, 29, 30, 31] {
            heads.push((cbor_head(major, info, 0), 0));
        }
        for (h, l) in heads {
            items.push(HeadItem { head: h.clone(), major, l, tail: 0 });
            items.push(HeadItem { head: h.clone(), major, l, tail: 1 });
            // exact tail when it fits in 64 Ki elements and differs from "none"
            if l <= 65536 && l > 0 && matches!(major, 2..=6) {
                items.push(HeadItem { head: h, major, l, tail: 2 });
            }
        }
    }
    // target-major order: a forked worker stays on one decoder for a long stretch (the fatal inputs
    // of the allocation defect cluster per decoder, and only the wasm stretch initialises a kernel)
    for (ti, wrap) in &tg {
        for it in &items {
            for ctx in 0u8..4 {
                emit(*ti, &|| wrap(&build_form(it, ctx)));
            }
        }
    }
}

pub fn nested(shape: &str, depth: usize) -> Vec<u8> {
    let mut v = Vec::with_capacity(depth * 2 + 1);
    match shape {
        "array" => {
            v.resize(depth, 0x81);
            v.push(0x00);
        }
        "map-value" => {
            for _ in 0..depth {
                v.push(0xa1);
                v.push(0x00);
            }
            v.push(0x00);
        }
        "map-key" => {
            v.resize(depth, 0xa1);
            v.push(0x00);
            v.extend(std::iter::repeat(0x00).take(depth));
        }
        "tag" => {
            v.resize(depth, 0xc0);
            v.push(0x00);
        }
        // LE codec: Some(Some(…Some(x)))
        "le-option" => {
            v.resize(depth, 0x01);
            v.push(0x00);
        }
        _ => {}
    }
    v
}

pub const SHAPES: [&str; 5] = ["array", "map-value", "map-key", "tag", "le-option"];

fn gen_nesting(_ctx: &Ctx, targets: &[Target], thorough: bool, emit: Emit) {
    let max_pow = if thorough { 20 } else { 15 };
    let tg = cbor_targets(targets, thorough);
    let names = by_name(targets);
    for shape in SHAPES {
        if shape == "le-option" {
            for n in ["le-codec:option-u8", "le-codec:record", "le-codec:list-bool"] {
                if let Some(&ti) = names.get(n) {
                    for p in 0..=max_pow {
                        emit(ti, &|| nested(shape, 1usize << p));
                    }
                }
            }
        } else {
            for (ti, wrap) in &tg {
                for p in 0..=max_pow {
                    emit(*ti, &|| wrap(&nested(shape, 1usize << p)));
                }
            }
        }
    }
}

/// Nested AND wide: `depth` containers nested through the first element / first value / first key,
/// EACH declaring `count` entries, followed by enough filler (`00` = the integer 0) that every
/// declared count passes a "declared <= remaining bytes" check.  A decoder that pre-allocates per
/// container from the declared count, without a cumulative budget, requests depth x count slots for
/// an input of about count bytes — allocation out of proportion although every single header is
/// individually plausible.
pub fn nested_wide(shape: &str, depth: usize, count: u64) -> Vec<u8> {
    let mut v = Vec::new();
    let head = |major: u8, out: &mut Vec<u8>| {
        let (info, _) = match count {
            0..=23 => (count as u8, 0),
            24..=0xff => (24, 1),
            0x100..=0xffff => (25, 2),
            _ => (26, 4),
        };
        out.extend_from_slice(&cbor_head(major, info, count));
    };
    match shape {
        "array" => {
            for _ in 0..depth {
                head(4, &mut v);
            }
        }
        "map-value" => {
            for _ in 0..depth {
                head(5, &mut v);
                v.push(0x00);
            }
        }
        "map-key" => {
            for _ in 0..depth {
                head(5, &mut v);
            }
        }
        _ => {}
    }
    let filler = (count as usize).saturating_mul(2) + depth + 8;
    v.extend(std::iter::repeat(0x00).take(filler));
    v
}

fn gen_nested_wide(_ctx: &Ctx, targets: &[Target], thorough: bool, emit: Emit) {
    let tg = cbor_targets(targets, thorough);
    let depths: &[usize] = if thorough { &[1, 2, 3, 4, 8, 16, 32, 64, 100, 127, 128, 129, 256] } else { &[2, 8, 64, 127, 128] };
    let counts: &[u64] = if thorough { &[23, 24, 255, 256, 1000, 4096, 32000, 65535, 65536, 250_000] } else { &[24, 4096, 32000, 65535] };
    for shape in ["array", "map-value", "map-key"] {
        for (ti, wrap) in &tg {
            for &d in depths {
                for &c in counts {
                    emit(*ti, &|| wrap(&nested_wide(shape, d, c)));
                }
            }
        }
    }
}

fn gen_truncations(_ctx: &Ctx, targets: &[Target], thorough: bool, emit: Emit) {
    let names = by_name(targets);
    for (name, _g, encs) in encodings(thorough, if thorough { 0 } else { 24 }) {
        let Some(&ti) = names.get(name.as_str()) else { continue };
        for e in &encs {
            for_each_truncation(e, |_l, b| emit(ti, &|| b.to_vec()));
        }
    }
}

fn lie_at_every_offset(e: &[u8], big_endian_too: bool, mut f: impl FnMut(&[u8])) {
    let mut buf = e.to_vec();
    for p in 0..e.len() {
        for &l in &LENGTHS {
            if p + 8 <= e.len() {
                buf.copy_from_slice(e);
                buf[p..p + 8].copy_from_slice(&l.to_le_bytes());
                if buf != e {
                    f(&buf);
                }
                if big_endian_too {
                    buf.copy_from_slice(e);
                    buf[p..p + 8].copy_from_slice(&l.to_be_bytes());
                    if buf != e {
                        f(&buf);
                    }
                }
            }
            if l <= u64::from(u32::MAX) && p + 4 <= e.len() {
                buf.copy_from_slice(e);
                buf[p..p + 4].copy_from_slice(&(l as u32).to_le_bytes());
                if buf != e {
                    f(&buf);
                }
                if big_endian_too {
                    buf.copy_from_slice(e);
                    buf[p..p + 4].copy_from_slice(&(l as u32).to_be_bytes());
                    if buf != e {
                        f(&buf);
                    }
                }
            }
        }
    }
}

fn gen_lying_lengths(_ctx: &Ctx, targets: &[Target], thorough: bool, emit: Emit) {
    let names = by_name(targets);
    for (name, group, mut encs) in encodings(thorough, if thorough { 6 } else { 2 }) {
        let Some(&ti) = names.get(name.as_str()) else { continue };
        let cbor = matches!(group, "abi-cbor" | "abi-dto" | "edict-cbor" | "scene-cbor");
        if !thorough {
            // quick: CBOR codecs get their lying lengths from the header-shape family; binary
            // codecs use the largest encoding (it carries every length/count field) only
            if cbor {
                continue;
            }
            encs.truncate(1);
        }
        for e in &encs {
            if e.len() > 4096 {
                continue;
            }
            lie_at_every_offset(e, cbor || group == "intent-envelope", |b| emit(ti, &|| b.to_vec()));
        }
    }
}

/// Structure-aware length lies for CBOR codecs: at every offset whose byte has major type 2..5
/// (byte string, text, array, map — whether or not it really is a header; over-approximation is
/// harmless for a totality oracle) the header **and its argument** are replaced by a header of the
/// same major type carrying every declared length of [`LENGTHS`] at every width that can hold it,
/// the rest of the valid encoding kept as the tail.  This is how a lying element count reaches a
/// field deep inside an otherwise well-formed message (e.g. the second array of a scene record),
/// which neither the top-level header-shape family nor fixed-width overwrites can produce.
fn gen_cbor_header_rewrite(_ctx: &Ctx, targets: &[Target], thorough: bool, emit: Emit) {
    let names = by_name(targets);
    for (name, group, mut encs) in encodings(thorough, if thorough { 0 } else { 4 }) {
        let Some(&ti) = names.get(name.as_str()) else { continue };
        if !matches!(group, "abi-cbor" | "abi-dto" | "edict-cbor" | "scene-cbor") {
            continue;
        }
        encs.retain(|e| e.len() <= if thorough { 2048 } else { 512 });
        for e in &encs {
            for p in 0..e.len() {
                let major = e[p] >> 5;
                if !(2..=5).contains(&major) {
                    continue;
                }
                let old_arg = match e[p] & 0x1f {
                    24 => 1,
                    25 => 2,
                    26 => 4,
                    27 => 8,
                    _ => 0,
                };
                let rest_from = (p + 1 + old_arg).min(e.len());
                for &l in &LENGTHS {
                    for (info, max) in [(24u8, 0xffu64), (25, 0xffff), (26, 0xffff_ffff), (27, u64::MAX)] {
                        if l > max {
                            continue;
                        }
                        emit(ti, &|| {
                            let mut b = e[..p].to_vec();
                            b.extend_from_slice(&cbor_head(major, info, l));
                            b.extend_from_slice(&e[rest_from..]);
                            b
                        });
                    }
                    if l <= 23 {
                        emit(ti, &|| {
                            let mut b = e[..p].to_vec();
                            b.push((major << 5) | l as u8);
                            b.extend_from_slice(&e[rest_from..]);
                            b
                        });
                    }
                }
            }
        }
    }
}

fn gen_mutations(_ctx: &Ctx, targets: &[Target], thorough: bool, emit: Emit) {
    let names = by_name(targets);
    for (name, _group, mut encs) in encodings(thorough, if thorough { 0 } else { 3 }) {
        let Some(&ti) = names.get(name.as_str()) else { continue };
        if !thorough {
            // quick: the smallest encoding and the largest one not above 320 bytes (C12 (c) already
            // judges every mutant of every encoding in-process, minus the ones it must skip)
            let small = encs.last().cloned();
            let mid = encs.iter().find(|e| e.len() <= 320).cloned();
            encs = small.into_iter().chain(mid).collect();
            encs.dedup();
        }
        for e in &encs {
            for_each_mutant(e, 8192, |_k, _p, b| emit(ti, &|| b.to_vec()));
        }
    }
}

fn gen_wsc_lying_fields(_ctx: &Ctx, targets: &[Target], thorough: bool, emit: Emit) {
    let names = by_name(targets);
    let tis: Vec<usize> = ["wsc-one-warp", "wsc:view-without-validate"].iter().filter_map(|n| names.get(n).copied()).collect();
    let files: Vec<Vec<u8>> = codecs::rt::wsc_samples(thorough).iter().filter_map(|s| codecs::rt::wsc_encode(&s.value).ok()).collect();
    for f in &files {
        let len = f.len() as u64;
        let mut vals: Vec<u64> = vec![0, 1, len, len + 1, len - 1, len / 2, 1 << 32, u64::MAX, u64::MAX - 7, 1 << 63, 8, 64, 128, 184];
        vals.extend_from_slice(&LENGTHS);
        vals.sort();
        vals.dedup();
        let mut buf = f.clone();
        let mut p = 0;
        while p + 8 <= f.len() {
            for &v in &vals {
                buf.copy_from_slice(f);
                buf[p..p + 8].copy_from_slice(&v.to_le_bytes());
                if buf != *f {
                    for &ti in &tis {
                        emit(ti, &|| buf.clone());
                    }
                }
            }
            p += 8;
        }
        for_each_truncation(f, |_l, b| {
            for &ti in &tis {
                emit(ti, &|| b.to_vec());
            }
        });
    }
}

const WAL_SEGMENT_RECORD_MAGIC: &[u8; 8] = b"ECWALR1!";
const WAL_DISK_RECORD_DOMAIN: &[u8] = b"echo:causal_wal:disk_record:v1\0";

/// (payload start, payload end) of every disk record of a well-formed segment.
fn segment_records(seg: &[u8]) -> Vec<(usize, usize, u8)> {
    let mut out = Vec::new();
    let mut off = 0usize;
    while off + 17 <= seg.len() && &seg[off..off + 8] == WAL_SEGMENT_RECORD_MAGIC {
        let kind = seg[off + 8];
        let mut l = [0u8; 8];
        l.copy_from_slice(&seg[off + 9..off + 17]);
        let plen = u64::from_le_bytes(l) as usize;
        let ps = off + 17;
        let pe = ps + plen;
        if pe + 32 > seg.len() {
            break;
        }
        out.push((ps, pe, kind));
        off = pe + 32;
    }
    out
}

fn resign(seg: &mut [u8], ps: usize, pe: usize, kind: u8) {
    let mut h = blake3::Hasher::new();
    h.update(WAL_DISK_RECORD_DOMAIN);
    h.update(&[kind]);
    h.update(&((pe - ps) as u64).to_le_bytes());
    h.update(&seg[ps..pe]);
    let d: [u8; 32] = h.finalize().into();
    seg[pe..pe + 32].copy_from_slice(&d);
}

fn gen_wal_segment(ctx: &Ctx, targets: &[Target], thorough: bool, emit: Emit) {
    let names = by_name(targets);
    let tis: Vec<usize> = ["wal-segment:recover-readonly", "wal-segment:recover-writable"].iter().filter_map(|n| names.get(n).copied()).collect();
    let seg = &ctx.segment;
    let mut both = |b: &[u8]| {
        for &ti in &tis {
            emit(ti, &|| b.to_vec());
        }
    };
    both(seg);
    for_each_truncation(seg, |_l, b| both(b));
    for_each_mutant(seg, usize::MAX, |_k, _p, b| both(b));
    let mut stride_lie = |b: &[u8]| both(b);
    // lying u64 at every offset of the raw segment (length fields of the disk framing)
    let mut buf = seg.clone();
    for p in 0..seg.len().saturating_sub(8) {
        if !thorough && p % 4 != 1 && !segment_records(seg).iter().any(|(ps, _, _)| p + 8 == *ps) {
            continue; // quick: every disk-record length field + every 4th other offset
        }
        for &l in &LENGTHS {
            buf.copy_from_slice(seg);
            buf[p..p + 8].copy_from_slice(&l.to_le_bytes());
            stride_lie(&buf);
        }
    }
    // re-signed records: mutated payload bytes reach decode_frame / decode_commit
    for (ps, pe, kind) in segment_records(seg) {
        for p in ps..pe {
            for v in [0x00u8, 0xff, seg[p] ^ 1, seg[p].wrapping_add(1)] {
                if v == seg[p] {
                    continue;
                }
                buf.copy_from_slice(seg);
                buf[p] = v;
                resign(&mut buf, ps, pe, kind);
                both(&buf);
            }
            if p + 8 <= pe && (thorough || p % 2 == 0) {
                for &l in &LENGTHS {
                    buf.copy_from_slice(seg);
                    buf[p..p + 8].copy_from_slice(&l.to_le_bytes());
                    resign(&mut buf, ps, pe, kind);
                    both(&buf);
                }
            }
        }
        // payload truncated / extended with a re-signed, consistent disk frame
        for cut in [1usize, 2, 8, 32] {
            if pe - ps > cut {
                let mut b2 = seg[..ps - 8].to_vec();
                b2.extend_from_slice(&((pe - ps - cut) as u64).to_le_bytes());
                b2.extend_from_slice(&seg[ps..pe - cut]);
                b2.extend_from_slice(&[0u8; 32]);
                let nps = ps;
                let npe = pe - cut;
                resign(&mut b2, nps, npe, kind);
                b2.extend_from_slice(&seg[pe + 32..]);
                both(&b2);
            }
        }
    }
}

fn gen_wasm_boundary(_ctx: &Ctx, targets: &[Target], thorough: bool, emit: Emit) {
    let names = by_name(targets);
    let wasm: Vec<usize> = targets.iter().enumerate().filter(|(_, t)| t.group == "wasm").map(|(i, _)| i).collect();
    // every byte string of length ≤ 2 into every entry point
    for &ti in &wasm {
        emit(ti, &Vec::new);
    }
    for len in 1..=2usize {
        for first in 0u16..256 {
            mc::enumerate::byte_strings_with_first(first as u8, len, |b| {
                for &ti in &wasm {
                    emit(ti, &|| b.to_vec());
                }
            });
        }
    }
    // EINT headers with lying declared lengths
    let ops = [0u32, 1, echo_wasm_abi::CONTROL_INTENT_V1_OP_ID, echo_wasm_abi::IMPORT_SUFFIX_INTENT_V1_OP_ID, u32::MAX];
    for magic in [b"EINT", b"EINU", b"eint"] {
        for op in ops {
            for &l in &LENGTHS {
                if l > u64::from(u32::MAX) {
                    continue;
                }
                let mut h = magic.to_vec();
                h.extend_from_slice(&op.to_le_bytes());
                h.extend_from_slice(&(l as u32).to_le_bytes());
                let mut forms = vec![h.clone()];
                let mut one = h.clone();
                one.push(0xa0);
                forms.push(one);
                if l <= 65536 {
                    let mut ex = h.clone();
                    ex.extend(std::iter::repeat(0xa0).take(l as usize));
                    forms.push(ex);
                }
                for f in forms {
                    for &ti in &wasm {
                        emit(ti, &|| f.clone());
                    }
                }
            }
        }
    }
    // mutated valid requests
    let table = codecs::table();
    let pick = |name: &str| -> Vec<Vec<u8>> {
        table.iter().find(|c| c.name == name).map(|c| (c.samples)(thorough).into_iter().filter_map(|s| s.bytes.ok()).collect()).unwrap_or_default()
    };
    let pairs: [(&str, &str); 3] = [
        ("abi-dto:ObservationRequest", "wasm:observe_cbor"),
        ("control-intent-envelope-v1", "wasm:dispatch_control_intent_trusted_cbor"),
        ("intent-envelope-v1", "wasm:dispatch_intent_cbor"),
    ];
    for (codec, target) in pairs {
        let Some(&ti) = names.get(target) else { continue };
        let mut encs = pick(codec);
        encs.retain(|e| e.len() <= 512);
        if !thorough {
            encs.truncate(6);
        }
        for e in &encs {
            emit(ti, &|| e.clone());
            for_each_mutant(e, 8192, |_k, _p, b| emit(ti, &|| b.to_vec()));
            for_each_truncation(e, |_l, b| emit(ti, &|| b.to_vec()));
        }
    }
}

pub static FAMILIES: [Family; 10] = [
    Family { name: "cbor-header-lengths", what: "every CBOR header shape × declared length × tail {none,1,exact} × {top, in array, map value, map key} → every CBOR-consuming target", gen: gen_cbor_header_lengths },
    Family { name: "nesting", what: "nesting depth 2^0..2^15 (quick) / 2^20 (thorough) of arrays, map values, map keys, tags; LE option tags", gen: gen_nesting },
    Family { name: "nested-wide", what: "depth {2..128} containers nested through first element / value / key, EACH declaring a large count {24..65535}, followed by filler so every declared count fits the remaining bytes → every CBOR-consuming target (cumulative pre-allocation)", gen: gen_nested_wide },
    Family { name: "truncations", what: "every valid encoding of every codec truncated at every length", gen: gen_truncations },
    Family { name: "lying-lengths", what: "u64/u32 (LE; BE too for CBOR codecs) declared-length values written at every offset of valid encodings", gen: gen_lying_lengths },
    Family { name: "cbor-header-rewrite", what: "in every valid encoding of every CBOR codec (ABI value + DTOs, Edict, scene): at every offset of major type 2..5 the header+argument replaced by the same major with every declared length × every width that can carry it, tail kept", gen: gen_cbor_header_rewrite },
    Family { name: "mutations", what: "single-position mutants (8 bit flips, ±1, 00/FF, delete, duplicate) of valid encodings (C12 (c) inputs, nothing skipped)", gen: gen_mutations },
    Family { name: "wsc-lying-fields", what: "every 8-aligned u64 of three WSC files set to 0,1,len−1,len,len+1,len/2,2^32,2^63,2^64−8,2^64−1,… + every truncation → validate path and unvalidated view accessors", gen: gen_wsc_lying_fields },
    Family { name: "wal-segment", what: "recover_wal_segment_bytes (read-only and writable) on a committed segment: every truncation, every single-position mutant, lying u64 lengths, and payload edits with re-signed disk records", gen: gen_wal_segment },
    Family { name: "wasm-boundary", what: "warp-wasm native boundary (init_embedded kernel): every byte string ≤2 bytes, EINT headers with lying lengths, mutated/truncated valid requests → dispatch_intent_cbor, observe_cbor, dispatch_control_intent_trusted_cbor", gen: gen_wasm_boundary },
];

/// Regenerate one input of a family (for violation details / replay).
pub fn input_of(ctx: &Ctx, targets: &[Target], thorough: bool, family: &str, index: usize) -> Option<Vec<u8>> {
    let f = FAMILIES.iter().find(|f| f.name == family)?;
    let mut i = 0usize;
    let mut out = None;
    (f.gen)(ctx, targets, thorough, &mut |_t, b| {
        if i == index {
            out = Some(b());
        }
        i += 1;
    });
    out
}

/// Known endings, to prove the parent's classification (harness self-test, no subject code).
pub fn selftest(kind: &str) {
    match kind {
        "ok" => {}
        "panic" => {
            let _ = mc::catch(|| panic!("selftest panic"));
        }
        "alloc" => {
            let v: Vec<u8> = Vec::with_capacity(1usize << 42);
            std::hint::black_box(&v);
        }
        "stack" => {
            #[allow(unconditional_recursion)]
            fn rec(n: u64, sink: &mut [u8; 256]) -> u64 {
                let mut local = [0u8; 256];
                local[(n % 256) as usize] = sink[(n % 251) as usize].wrapping_add(1);
                std::hint::black_box(&mut local);
                rec(n + 1, &mut local) + u64::from(local[7])
            }
            let mut s = [0u8; 256];
            std::hint::black_box(rec(0, &mut s));
        }
        "hang" => {
            // CPU-bound non-termination
            let mut x = 1u64;
            loop {
                x = x.wrapping_mul(6364136223846793005).wrapping_add(1442695040888963407);
                if std::hint::black_box(x) == 0 {
                    break;
                }
            }
        }
        "abort" => std::process::abort(),
        _ => {}
    }
}

/// Sanity of the shared context (the segment must recover cleanly, else the WAL family is vacuous).
pub fn segment_is_valid(ctx: &Ctx) -> bool {
    !ctx.segment.is_empty() && recover_wal_segment_bytes(WalSegmentId::from_raw(1), &ctx.segment, RecoveryAccessMode::ReadOnly).is_ok()
}
