//! Counting global allocator: per-thread live bytes and per-thread peak (decoders are
//! single-threaded per call, so a thread's peak is the call's peak).

use std::alloc::{GlobalAlloc, Layout, System};
use std::cell::Cell;

thread_local! {
    static CUR: Cell<usize> = const { Cell::new(0) };
    static PEAK: Cell<usize> = const { Cell::new(0) };
}

pub struct Counting;

#[inline]
fn add(n: usize) {
    let _ = CUR.try_with(|c| {
        let v = c.get().wrapping_add(n);
        c.set(v);
        let _ = PEAK.try_with(|p| {
            if v > p.get() && v < (usize::MAX >> 1) {
                p.set(v);
            }
        });
    });
}
#[inline]
fn sub(n: usize) {
    let _ = CUR.try_with(|c| c.set(c.get().wrapping_sub(n)));
}

unsafe impl GlobalAlloc for Counting {
    unsafe fn alloc(&self, l: Layout) -> *mut u8 {
        let p = System.alloc(l);
        if !p.is_null() {
            add(l.size());
        }
        p
    }
    unsafe fn alloc_zeroed(&self, l: Layout) -> *mut u8 {
        let p = System.alloc_zeroed(l);
        if !p.is_null() {
            add(l.size());
        }
        p
    }
    unsafe fn dealloc(&self, p: *mut u8, l: Layout) {
        System.dealloc(p, l);
        sub(l.size());
    }
    unsafe fn realloc(&self, p: *mut u8, l: Layout, new: usize) -> *mut u8 {
        let q = System.realloc(p, l, new);
        if !q.is_null() {
            if new >= l.size() {
                add(new - l.size());
            } else {
                sub(l.size() - new);
            }
        }
        q
    }
}

#[global_allocator]
static GLOBAL: Counting = Counting;

/// Live bytes allocated by this thread (wrapping: frees of foreign blocks may push it "negative").
pub fn current() -> usize {
    CUR.with(|c| c.get())
}
/// Start a measurement: peak := current.
pub fn reset_peak() {
    let c = current();
    PEAK.with(|p| p.set(if c < (usize::MAX >> 1) { c } else { 0 }));
}
pub fn peak() -> usize {
    PEAK.with(|p| p.get())
}
