//! C02 — parallel execution is invisible: every worker schedule commits the same tick.
//!
//! The real `execute_work_queue` (reached through `Engine::commit_with_receipt` under
//! `EngineBuilder::workers(n)`) runs under the controlled claim counter of
//! `warp_core::verif_hooks::rt`: every worker parks before each `fetch_add`; when all live workers
//! are parked the explorer decides which one claims next.  One worker runs between two decisions,
//! so an execution is the sequence of decisions; `mc::sched::explore` enumerates ALL of them
//! (no bound needed: U units + W terminal claims).  The oracle compares every schedule's full
//! outcome fingerprint with the 1-worker run.  Vacuity: the set of observed unit→worker
//! assignments must be all W^U functions.
//!
//! The five `ParallelExecutionPolicy` executors are driven through `execute_parallel_with_policy`;
//! static / dedicated ones have no shared state (one run per worker count), the two dynamic ones
//! claim all 256 shard ids and are explored with iterative preemption bounding.

use std::collections::BTreeSet;
use std::num::NonZeroUsize;
use std::sync::{Arc, Mutex};

use mc::sched::{explore, Script};
use mc::{json, Level, Report};
use rules::pool::{scenarios, Scenario};
use rules::tick::{outcome_fingerprint, run_tick, Cand};
use rules::universe;
use warp_core::verif_hooks::rt;
use warp_core::{
    execute_parallel_with_policy, execute_serial, ExecItem, GraphView, OpOrigin,
    ParallelExecutionPolicy, SchedulerKind, TickDelta, WarpOp,
};

fn seq_json(seq: &[Cand]) -> serde_json::Value {
    json!(seq
        .iter()
        .map(|c| format!("{}@W{}.n{}", c.0, c.1, c.2))
        .collect::<Vec<_>>())
}

/// Run `f` with a controller expecting `workers` threads driven by `script`.
fn controlled<R>(workers: usize, script: Arc<Mutex<Script>>, f: impl FnOnce() -> R) -> (R, rt::RunLog) {
    let s2 = Arc::clone(&script);
    rt::install(
        workers,
        Box::new(move |enabled: &[usize], costly: bool| {
            let mut s = s2.lock().unwrap_or_else(|e| e.into_inner());
            s.choose(enabled.len(), costly)
        }),
    );
    let out = f();
    let log = rt::uninstall().unwrap_or_default();
    (out, log)
}

struct Workload {
    scen: Scenario,
    seq: Vec<Cand>,
    units: usize,
    base_fp: Vec<u8>,
}

/// Count work units with a 1-worker dry run under the controller (grants = U + 1).
fn make_workload(r: &Report, scen: &Scenario, seq: Vec<Cand>) -> Option<Workload> {
    let base = match run_tick(&scen.pre, &seq, SchedulerKind::Radix, 1) {
        Ok(o) => o,
        Err((f, _)) => {
            r.machinery_error(&format!("baseline tick failed: {f:?}"));
            return None;
        }
    };
    let script = Arc::new(Mutex::new(Script::new(vec![])));
    let (res, log) = controlled(1, script, || run_tick(&scen.pre, &seq, SchedulerKind::Radix, 1));
    if res.is_err() || log.error.is_some() {
        r.machinery_error(&format!("dry run failed: {:?}", log.error));
        return None;
    }
    let units = log.grants.len().saturating_sub(1);
    if log.grants.is_empty() {
        // no accepted rewrites => no threads
        return None;
    }
    Some(Workload {
        scen: scen.clone(),
        seq,
        units,
        base_fp: outcome_fingerprint(&base),
    })
}

fn explore_workload(r: &Report, w: &Workload, workers: usize) {
    let eff_workers = workers.min(w.units.max(1));
    let mut assignments: BTreeSet<Vec<usize>> = BTreeSet::new();
    let mut claimers: BTreeSet<usize> = BTreeSet::new();
    let mut replay_checked = false;
    let mut schedules = 0u64;
    let stats = explore(
        None,
        |script: &mut Script| {
            let shared = Arc::new(Mutex::new(std::mem::take(script)));
            let (res, log) = controlled(eff_workers, Arc::clone(&shared), || {
                run_tick(&w.scen.pre, &w.seq, SchedulerKind::Radix, workers)
            });
            *script = std::mem::take(&mut *shared.lock().unwrap_or_else(|e| e.into_inner()));
            schedules += 1;
            if let Some(e) = &log.error {
                script.error = Some(format!("controller: {e}"));
                return;
            }
            let assign: Vec<usize> = log.grants.iter().take(w.units).copied().collect();
            for a in &assign {
                claimers.insert(*a);
            }
            let case = json!({"scenario": w.scen.name, "sequence": seq_json(&w.seq), "workers": workers,
                "schedule": script.choices(), "unit_to_worker": assign});
            match res {
                Ok(o) => {
                    let fp = outcome_fingerprint(&o);
                    if fp != w.base_fp {
                        let what = first_diff(&w.base_fp, &fp);
                        r.violation(
                            &format!("schedule-changes-outcome:{}:U={}:W={}:{}", w.scen.name, w.units, workers, what),
                            json!({"case": case, "first_difference": what}),
                        );
                    }
                }
                Err((f, _)) => r.violation(
                    &format!("schedule-makes-tick-fail:{}:U={}:W={}", w.scen.name, w.units, workers),
                    json!({"case": case, "failure": format!("{f:?}")}),
                ),
            }
            assignments.insert(assign);
            // replay determinism: the first non-trivial schedule is executed twice
            if !replay_checked && script.choices().iter().any(|c| *c != 0) {
                replay_checked = true;
                let again = Arc::new(Mutex::new(Script::new(script.choices())));
                let (_res2, log2) = controlled(eff_workers, Arc::clone(&again), || {
                    run_tick(&w.scen.pre, &w.seq, SchedulerKind::Radix, workers)
                });
                if log2.grants != log.grants {
                    r.machinery_error(&format!(
                        "replaying schedule {:?} gave different grants {:?} vs {:?}",
                        script.choices(), log.grants, log2.grants
                    ));
                }
                r.counter("schedules_replayed_twice", 1);
            }
        },
        || r.over_budget_frac(0.7),
    );
    r.eval(stats.executions);
    r.counter("schedules", stats.executions);
    for e in &stats.errors {
        r.machinery_error(e);
    }
    if stats.capped {
        r.cap_hit(&format!("schedule exploration of {} U={} W={workers} stopped by wall cap", w.scen.name, w.units));
        return;
    }
    let expect = (eff_workers as u64).pow(w.units as u32);
    r.counter("assignments_observed", assignments.len() as u64);
    r.counter("assignments_expected", expect);
    if assignments.len() as u64 != expect {
        r.machinery_error(&format!(
            "vacuity: observed {} unit->worker assignments, expected {}^{}={} ({} U={})",
            assignments.len(), eff_workers, w.units, expect, w.scen.name, w.units
        ));
    }
    if eff_workers >= 2 && assignments.len() > 1 {
        r.nontrivial(format!("{}:{:?}:W{workers}", w.scen.name, w.seq).as_bytes());
    }
    r.outcome_n(&format!("U={} W={}", w.units, eff_workers), stats.executions);
    r.sample(json!({"scenario": w.scen.name, "sequence": seq_json(&w.seq), "units": w.units, "workers": workers,
        "schedules": stats.executions, "distinct_assignments": assignments.len(),
        "example_assignment": assignments.iter().last()}));
}

fn first_diff(a: &[u8], b: &[u8]) -> String {
    let sa = String::from_utf8_lossy(a);
    let sb = String::from_utf8_lossy(b);
    for (la, lb) in sa.lines().zip(sb.lines()) {
        if la != lb {
            return la.split(|c| c == '=' || c == ' ' || c == ':').next().unwrap_or("?").to_string();
        }
    }
    "length".into()
}

// ---------------------------------------------------------------------------------------------
// policy executors
// ---------------------------------------------------------------------------------------------

fn canonical(deltas: Vec<TickDelta>) -> Vec<WarpOp> {
    let mut ops: Vec<WarpOp> = deltas.into_iter().flat_map(TickDelta::into_ops_unsorted).collect();
    ops.sort_by_key(WarpOp::sort_key);
    ops.dedup();
    ops
}

/// Executor of the many-shards policy workload: one op that is unique to its scope (so a lost or
/// doubled item is visible after the canonical sort+dedup), no reads.
fn mark_executor(view: GraphView<'_>, scope: &warp_core::NodeId, delta: &mut TickDelta) {
    delta.push(WarpOp::SetAttachment {
        key: warp_core::AttachmentKey::node_alpha(warp_core::NodeKey { warp_id: view.warp_id(), local_id: *scope }),
        value: Some(warp_core::AttachmentValue::Atom(warp_core::AtomPayload::new(
            warp_core::make_type_id("verif/mark"),
            bytes::Bytes::copy_from_slice(&scope.0),
        ))),
    });
}

/// Static / dedicated policies on ticks that populate k of the 256 virtual shards, k on both sides
/// of every power of two up to 256 (one item per shard, plus a second item in every third shard),
/// for every worker count 1..=32 (quick: 9 worker counts, 6 shard counts); the two dynamic policies run the same ticks under the controller
/// with the default schedule (bound 0).  Results must equal the serial run.
fn policies_many_shards(r: &Report) {
    let u = universe();
    let scen = &scenarios(0)[0];
    let state = u.build(&scen.pre);
    let store = state.store(&u.warp(0)).expect("root store");
    let view = GraphView::new(store);
    let all = [
        ("STATIC_PER_WORKER", ParallelExecutionPolicy::STATIC_PER_WORKER),
        ("STATIC_PER_SHARD", ParallelExecutionPolicy::STATIC_PER_SHARD),
        ("DEDICATED_PER_SHARD", ParallelExecutionPolicy::DEDICATED_PER_SHARD),
        ("DYNAMIC_PER_WORKER", ParallelExecutionPolicy::DYNAMIC_PER_WORKER),
        ("DYNAMIC_PER_SHARD", ParallelExecutionPolicy::DYNAMIC_PER_SHARD),
    ];
    let ks: &[usize] = if r.quick() { &[1, 63, 64, 65, 128, 256] } else { &[1, 2, 3, 4, 5, 7, 8, 9, 15, 16, 17, 31, 32, 33, 63, 64, 65, 66, 100, 127, 128, 129, 200, 255, 256] };
    for &k in ks {
        // shard = low byte of the id: shard ids 255, 254, ... (descending, so high shards are populated first)
        let mut items: Vec<ExecItem> = Vec::new();
        for j in 0..k {
            let mut id = [0x5au8; 32];
            id[0] = (255 - j) as u8;
            items.push(ExecItem::new(mark_executor, warp_core::NodeId(id), OpOrigin { intent_id: 0, rule_id: 0, match_ix: items.len() as u32, op_ix: 0 }));
            if j % 3 == 0 {
                id[1] = 0xa5;
                items.push(ExecItem::new(mark_executor, warp_core::NodeId(id), OpOrigin { intent_id: 0, rule_id: 0, match_ix: items.len() as u32, op_ix: 0 }));
            }
        }
        let serial = canonical(vec![execute_serial(view, &items)]);
        if serial.len() != items.len() {
            r.machinery_error("many-shards workload: serial run does not emit one distinct op per item");
            return;
        }
        for (name, pol) in all {
            let dynamic = name.starts_with("DYNAMIC");
            for workers in 1..=32usize {
                if dynamic && ![1usize, 2, 3, 8, 32].contains(&workers) {
                    continue;
                }
                if r.quick() && ![1usize, 2, 3, 4, 7, 8, 16, 31, 32].contains(&workers) {
                    continue;
                }
                let d = execute_parallel_with_policy(view, &items, NonZeroUsize::new(workers).unwrap(), pol);
                r.eval(1);
                r.counter("many_shards_policy_runs", 1);
                if canonical(d) != serial {
                    r.violation(
                        &format!("policy-result-differs-from-serial:{name}:many-shards:populated={}", if k > 64 { ">64" } else { "<=64" }),
                        json!({"case": {"policy": name, "workers": workers, "populated_shards": k, "items": items.len()}}),
                    );
                }
            }
        }
        r.nontrivial(format!("many-shards:{k}").as_bytes());
    }
}

fn policies(r: &Report) {
    let u = universe();
    let scen = &scenarios(0)[0];
    let state = u.build(&scen.pre);
    let store = state.store(&u.warp(0)).expect("root store");
    // items: every pool candidate of rule A (executors only emit; conflicts are irrelevant here,
    // the merge comparison is on canonical op lists)
    let cands: Vec<Cand> = scen.pool.iter().map(|(c, _)| *c).filter(|c| c.0 == rules::RULE_A).collect();
    let items: Vec<ExecItem> = cands
        .iter()
        .enumerate()
        .map(|(i, c)| {
            ExecItem::new(
                rules::executor_fn(),
                u.node(c.2),
                OpOrigin { intent_id: 0, rule_id: 0, match_ix: i as u32, op_ix: 0 },
            )
        })
        .collect();
    let view = GraphView::new(store);
    let serial = {
        let d = execute_serial(view, &items);
        canonical(vec![d])
    };
    r.guard("policy_workload_emits_ops", serial.len() >= 3);
    let fixed = [
        ("STATIC_PER_WORKER", ParallelExecutionPolicy::STATIC_PER_WORKER),
        ("STATIC_PER_SHARD", ParallelExecutionPolicy::STATIC_PER_SHARD),
        ("DEDICATED_PER_SHARD", ParallelExecutionPolicy::DEDICATED_PER_SHARD),
    ];
    for (name, pol) in fixed {
        for workers in 1..=32usize {
            let d = execute_parallel_with_policy(view, &items, NonZeroUsize::new(workers).unwrap(), pol);
            r.eval(1);
            if canonical(d) != serial {
                r.violation(
                    &format!("policy-result-differs-from-serial:{name}:W={workers}"),
                    json!({"case": {"policy": name, "workers": workers}}),
                );
            }
        }
        r.counter("static_policy_runs", 32);
    }
    let dynamic = [
        ("DYNAMIC_PER_WORKER", ParallelExecutionPolicy::DYNAMIC_PER_WORKER),
        ("DYNAMIC_PER_SHARD", ParallelExecutionPolicy::DYNAMIC_PER_SHARD),
    ];
    let max_bound = r.pick(1usize, 2usize);
    for (name, pol) in dynamic {
        for workers in [2usize, 3] {
            for bound in 0..=max_bound {
                // quick: W=2 up to bound 1, W=3 bound 0; thorough: W=2 up to bound 2, W=3 up to bound 1
                if workers == 3 && bound + 1 > max_bound {
                    continue;
                }
                let mut distinct_partitions: BTreeSet<Vec<usize>> = BTreeSet::new();
                let stats = explore(
                    Some(bound),
                    |script: &mut Script| {
                        let shared = Arc::new(Mutex::new(std::mem::take(script)));
                        let (d, log) = controlled(workers, Arc::clone(&shared), || {
                            execute_parallel_with_policy(view, &items, NonZeroUsize::new(workers).unwrap(), pol)
                        });
                        *script = std::mem::take(&mut *shared.lock().unwrap_or_else(|e| e.into_inner()));
                        if let Some(e) = &log.error {
                            script.error = Some(format!("controller: {e}"));
                            return;
                        }
                        // which worker claimed each non-empty shard
                        let sizes: Vec<usize> = d.iter().map(TickDelta::len).collect();
                        distinct_partitions.insert(sizes);
                        if canonical(d) != serial {
                            r.violation(
                                &format!("policy-result-differs-from-serial:{name}:W={workers}"),
                                json!({"case": {"policy": name, "workers": workers, "preemption_bound": bound, "schedule": script.choices()}}),
                            );
                        }
                    },
                    || r.over_budget_frac(0.95),
                );
                r.eval(stats.executions);
                r.counter(&format!("dynamic_policy_schedules_bound{bound}"), stats.executions);
                for e in &stats.errors {
                    r.machinery_error(e);
                }
                if stats.capped {
                    r.cap_hit(&format!("{name} W={workers} preemption bound {bound} stopped by wall cap"));
                } else {
                    r.note(&format!("completed_bound_{name}_W{workers}"), json!(bound));
                }
                if distinct_partitions.len() > 1 {
                    r.nontrivial(format!("{name}:{workers}:{bound}").as_bytes());
                }
                r.outcome_n(&format!("{name} W={workers} bound={bound} distinct delta partitions={}", distinct_partitions.len()), 1);
            }
        }
    }
}

fn replay(r: &Report, path: &std::path::Path) {
    let txt = std::fs::read_to_string(path).unwrap_or_default();
    let v: serde_json::Value = serde_json::from_str(&txt).unwrap_or_default();
    let case = &v["detail"]["case"];
    let Some(scen) = scenarios(1).into_iter().find(|s| Some(s.name) == case["scenario"].as_str()) else {
        r.machinery_error("replay: case has no scenario (policy cases: re-run the tier)");
        return;
    };
    let seq: Vec<Cand> = case["sequence"].as_array().map(|a| a.iter().filter_map(|c| {
        let c = c.as_str()?;
        scen.pool.iter().map(|(k, _)| *k).find(|k| format!("{}@W{}.n{}", k.0, k.1, k.2) == c)
    }).collect()).unwrap_or_default();
    let workers = case["workers"].as_u64().unwrap_or(2) as usize;
    let schedule: Vec<usize> = case["schedule"].as_array().map(|a| a.iter().filter_map(|x| x.as_u64().map(|x| x as usize)).collect()).unwrap_or_default();
    let Some(w) = make_workload(r, &scen, seq) else { return };
    let script = Arc::new(Mutex::new(Script::new(schedule.clone())));
    let (res, log) = controlled(workers.min(w.units.max(1)), script, || run_tick(&w.scen.pre, &w.seq, SchedulerKind::Radix, workers));
    r.eval(1);
    println!("replay: grants {:?} error {:?}", log.grants, log.error);
    match res {
        Ok(o) => {
            if outcome_fingerprint(&o) != w.base_fp {
                r.violation(&format!("schedule-changes-outcome:{}:U={}:W={}:replay", w.scen.name, w.units, workers), json!({"case": case}));
            } else {
                println!("replay: outcome equals the 1-worker outcome");
            }
        }
        Err((f, _)) => r.violation(&format!("schedule-makes-tick-fail:{}:U={}:W={}", w.scen.name, w.units, workers), json!({"case": case, "failure": format!("{f:?}")})),
    }
    r.nontrivial(b"replay-1");
    r.nontrivial(b"replay-2");
    r.sample(case.clone());
}

fn main() {
    mc::quiet_panics();
    let r = Report::new("C02", Level::Exploration);
    let build = Report::build_tag();
    r.rule("cases = (workload tick, worker count, complete claim schedule) executed on the real execute_work_queue under the controlled claim counter, plus policy executors; \
            distinct_nontrivial = distinct (workload, worker count) pairs for which >= 2 different unit->worker assignments were executed, plus dynamic-policy configurations with >= 2 distinct delta partitions");
    r.assume("scheduling points are the claim counter's fetch_add calls (the only cross-thread mutable state) plus thread exit; weak-memory effects are not modelled: the claim is a Relaxed RMW (atomic under any ordering), all other shared data is immutable and published by spawn/join");
    r.assume("spawn timing is not a choice point: outputs depend only on which worker executed which unit");
    r.note("build", json!(build));
    if let Some(p) = r.replay.clone() {
        replay(&r, &p);
        r.finish();
    }

    // workloads: candidate sets in canonical enqueue order, chosen to cover U = 1..5 units,
    // same-shard pairs (carriers 4,5 and 6,7 share a shard) and a two-instance tick
    let level = if r.quick() { 0 } else { 1 };
    // multi-instance scenarios first: if a loaded machine makes the wall cap cut the enumeration,
    // the single-instance tail is what is dropped (and reported), not the cross-instance workloads
    let mut scens = scenarios(level);
    scens.sort_by_key(|s| s.pool.iter().map(|(c, _)| c.1).collect::<BTreeSet<_>>().len() < 2);
    let max_units = r.pick(4, 5);
    let max_workers = r.pick(3, 4);
    let mut seen_units: BTreeSet<usize> = BTreeSet::new();
    for scen in &scens {
        let n = scen.pool.len();
        // every subset of rule-A candidates, deduplicated by (units, accepted count) so the
        // workload list stays small but covers each unit count with and without rejections
        let mut picked: BTreeSet<(usize, usize, bool, Vec<u8>)> = BTreeSet::new();
        for k in 1..=n.min(6) {
            for ixs in mc::enumerate::subsets_k(n, k) {
                if r.over_budget_frac(0.6) {
                    r.cap_hit("workload enumeration stopped by wall cap");
                    break;
                }
                let seq: Vec<Cand> = ixs.iter().map(|i| scen.pool[*i].0).collect();
                let Ok(o) = run_tick(&scen.pre, &seq, SchedulerKind::Radix, 1) else { continue };
                let accepted = o.applied.iter().filter(|a| **a).count();
                let same_shard = {
                    let u = universe();
                    let mut shards: Vec<u8> = seq.iter().zip(o.applied.iter()).filter(|(_, a)| **a).map(|(c, _)| u.node(c.2).0[0]).collect();
                    let l = shards.len();
                    shards.sort_unstable();
                    shards.dedup();
                    shards.len() < l
                };
                if accepted == 0 || accepted > max_units + 1 {
                    continue;
                }
                // how the accepted rewrites are spread over instances (sorted): a worker moving from a
                // unit of one instance to a *later* unit of another instance is its own code path
                let inst_sig = {
                    let mut v: Vec<u8> = seq.iter().zip(o.applied.iter()).filter(|(_, a)| **a).map(|(c, _)| c.1).collect();
                    v.sort_unstable();
                    v
                };
                if !picked.insert((accepted, seq.len() - accepted.min(seq.len()), same_shard, inst_sig)) {
                    continue;
                }
                let Some(w) = make_workload(&r, scen, seq) else { continue };
                if w.units > max_units {
                    continue;
                }
                seen_units.insert(w.units);
                r.counter("workloads", 1);
                for workers in 1..=max_workers {
                    if workers == 4 && w.units > 3 {
                        continue;
                    }
                    // quick: the 3-worker full search stops at 3 units (1944 schedules per
                    // workload); 4 units x 3 workers (4860 each) is thorough-only
                    if r.quick() && workers >= 3 && w.units > 3 {
                        continue;
                    }
                    explore_workload(&r, &w, workers);
                }
            }
        }
    }
    r.note("unit_counts_covered", json!(seen_units));
    r.guard("unit_counts_1_to_4_covered", (1..=4).all(|u| seen_units.contains(&u)));
    r.guard("a_schedule_was_replayed_twice", r.counter_value("schedules_replayed_twice") > 0);
    r.guard("all_assignments_observed", r.counter_value("assignments_observed") == r.counter_value("assignments_expected"));

    policies(&r);
    policies_many_shards(&r);

    if build == "main" && r.thorough() {
        r.run_extra_build("prod", &[]);
        r.run_extra_build("dv", &[]);
    }
    r.finish();
}
