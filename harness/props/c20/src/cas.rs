//! Part 1 of C20 — explicit-state BFS over the real `echo-cas` stores against a reference model.
//!
//! Subjects: `MemoryTier`, `DiskTier`, and `RetainedBlobIndex` over each of them.
//!
//! * The transition function is the REAL store: a BFS node is reached by re-executing its whole
//!   operation history into a fresh store (fresh directory for the disk tier) — neither tier is
//!   `Clone`, and re-execution makes no assumption about what the in-memory part of a tier is.
//! * The reference (`RefCas`) is a `BTreeMap` of "bytes currently held under hash h_i" + a pin
//!   set + (retention subjects) a coordinate→blob map.  "Corrupted set" = entries whose held bytes
//!   differ from the blob whose hash names them.  It is written from the property text.
//! * At EVERY step the real observation is compared with the reference's expected observation and
//!   the real store's complete observable state is compared with the reference state.
//!
//! State key / why merged states have equal futures.  The key is NOT the reference state; it is
//! the complete concrete state of the real subject taken after the step:
//!   - disk tier: every file below the tier root (relative path → bytes; this includes stray temp
//!     files), `is_pinned` for every universe hash and `pinned_count`.  `DiskTier` consists of
//!     `root`, `blobs_dir` (both functions of the directory, which only enters as a path prefix)
//!     and `pins`; everything else lives in the directory.  Two histories with the same key
//!     therefore lead to stores that differ only in the scratch path prefix.
//!   - memory tier: `get` for every universe hash, `len`, `byte_count`, `is_pinned`, `pinned_count`.
//!     `MemoryTier` = `blobs`, `pins`, `byte_count`, `max_bytes(=None)`; `len` equal to the number
//!     of universe hashes present shows there is no blob outside the universe, `pinned_count`
//!     likewise for pins.
//!   - retention subjects: additionally the `Debug` rendering of the `RetainedBlobIndex`
//!     (one ordered map) .
//! This key refines the (stored set, pinned set, corrupted set) abstraction of the design: it
//! determines all three and additionally distinguishes *how* a blob is corrupted, so no argument
//! that different corruptions behave alike is needed.  All code under test is deterministic
//! (`HashMap`s are used for membership only; the temp-file counter only names files that are
//! renamed away), hence equal key ⇒ equal futures.  Re-execution determinism is asserted: the key
//! recomputed after replaying a history must equal the key stored in the node.

use echo_cas::{
    blob_hash, BlobHash, BlobStore, CasError, DiskTier, DiskTierError, MemoryTier,
    RetainedBlobDescriptor, RetainedBlobIndex, RetainedBlobRole, RetentionError,
    SemanticBlobCoordinate,
};
use mc::{json, Report, Value};
use std::collections::{BTreeMap, BTreeSet};
use std::path::{Path, PathBuf};
use std::sync::atomic::{AtomicU64, Ordering};
use std::sync::{Arc, Mutex};

/// The blob universe: the empty blob, two DIFFERENT one-byte blobs (equal length, so a
/// length-only comparison cannot tell them apart) and a multi-byte blob.
pub const BLOBS: [&[u8]; 4] = [b"", b"a", b"b", b"echo-cas blob #2"];
pub const NB: u8 = 4;
pub const NC: u8 = 3;

fn h(i: u8) -> BlobHash {
    blob_hash(BLOBS[i as usize])
}
fn hb(i: u8) -> [u8; 32] {
    *h(i).as_bytes()
}
fn hex8(x: &[u8; 32]) -> String {
    mc::hex(&x[..6])
}

/// Three semantic coordinates that differ from each other in exactly one field
/// (c0/c1: semantic digest, c0/c2: role) — the closest distinct coordinates there are.
pub fn coord(c: u8) -> SemanticBlobCoordinate {
    SemanticBlobCoordinate {
        namespace: "echo:verif-c20".to_owned(),
        schema_hash_hex: "0123456789abcdef0123456789abcdef0123456789abcdef0123456789abcdef"
            .to_owned(),
        artifact_hash_hex: "bbbbbbbbbbbbbbbbbbbbbbbbbbbbbbbbbbbbbbbbbbbbbbbbbbbbbbbbbbbbbbbb"
            .to_owned(),
        role: if c == 2 {
            RetainedBlobRole::ReadingEnvelope
        } else {
            RetainedBlobRole::ReadingPayload
        },
        semantic_digest: if c == 1 { [0x11; 32] } else { [0x10; 32] },
    }
}
fn coord_idx(c: &SemanticBlobCoordinate) -> u8 {
    (0..NC).find(|i| &coord(*i) == c).unwrap_or(255)
}

/// (offset, len, max_bytes) menu for `load_range`.
pub const RANGES: [(u64, u64, u64); 4] = [(0, 1, 1), (1, 1, 8), (0, 2, 1), (u64::MAX, 2, 8)];

/// How a blob file is damaged.  Every kind is defined relative to the clean content so the set of
/// file contents stays finite: per blob {absent, clean, flip, truncate, append, swap}.
#[derive(Clone, Copy, Debug, PartialEq, Eq, PartialOrd, Ord, Hash)]
pub enum Ck {
    /// first byte xor 1 (not for the empty blob)
    Flip,
    /// last byte dropped (not for the empty blob)
    Truncate,
    /// one byte 0x5a appended
    Append,
    /// file replaced by the bytes of the next blob of the universe (valid blob, wrong address)
    Swap,
    /// file removed
    Delete,
}
pub const CKS: [Ck; 5] = [Ck::Flip, Ck::Truncate, Ck::Append, Ck::Swap, Ck::Delete];

fn damaged(i: u8, k: Ck) -> Option<Option<Vec<u8>>> {
    let b = BLOBS[i as usize];
    match k {
        Ck::Flip => {
            if b.is_empty() {
                None
            } else {
                let mut v = b.to_vec();
                v[0] ^= 1;
                Some(Some(v))
            }
        }
        Ck::Truncate => {
            if b.is_empty() {
                None
            } else {
                Some(Some(b[..b.len() - 1].to_vec()))
            }
        }
        Ck::Append => {
            let mut v = b.to_vec();
            v.push(0x5a);
            Some(Some(v))
        }
        Ck::Swap => Some(Some(BLOBS[((i + 1) % NB) as usize].to_vec())),
        Ck::Delete => Some(None),
    }
}

#[derive(Clone, Copy, Debug, PartialEq, Eq, PartialOrd, Ord, Hash)]
pub enum Op {
    Put(u8),
    PutVerified(u8),
    /// `put_verified(h(expect), BLOBS[bytes])`, `expect != bytes`
    PutMismatch(u8, u8),
    Get(u8),
    Has(u8),
    Pin(u8),
    Unpin(u8),
    Reopen,
    Corrupt(u8, Ck),
    Retain(u8, u8),
    Load(u8),
    LoadByHash(u8),
    Descriptor(u8),
    LoadRange(u8, u8),
}

impl Op {
    pub fn kind(&self) -> &'static str {
        match self {
            Op::Put(_) => "put",
            Op::PutVerified(_) => "put_verified",
            Op::PutMismatch(..) => "put_verified_mismatch",
            Op::Get(_) => "get",
            Op::Has(_) => "has",
            Op::Pin(_) => "pin",
            Op::Unpin(_) => "unpin",
            Op::Reopen => "reopen",
            Op::Corrupt(_, Ck::Flip) => "corrupt_flip",
            Op::Corrupt(_, Ck::Truncate) => "corrupt_truncate",
            Op::Corrupt(_, Ck::Append) => "corrupt_append",
            Op::Corrupt(_, Ck::Swap) => "corrupt_swap",
            Op::Corrupt(_, Ck::Delete) => "corrupt_delete",
            Op::Retain(..) => "retain",
            Op::Load(_) => "load",
            Op::LoadByHash(_) => "load_by_hash",
            Op::Descriptor(_) => "descriptor",
            Op::LoadRange(..) => "load_range",
        }
    }
    pub fn render(&self) -> String {
        match self {
            Op::Put(i) => format!("put({i})"),
            Op::PutVerified(i) => format!("put_verified({i},{i})"),
            Op::PutMismatch(e, b) => format!("put_verified({e},{b})"),
            Op::Get(i) => format!("get({i})"),
            Op::Has(i) => format!("has({i})"),
            Op::Pin(i) => format!("pin({i})"),
            Op::Unpin(i) => format!("unpin({i})"),
            Op::Reopen => "reopen()".into(),
            Op::Corrupt(i, k) => format!("corrupt({i},{})", format!("{k:?}").to_lowercase()),
            Op::Retain(c, b) => format!("retain({c},{b})"),
            Op::Load(c) => format!("load({c})"),
            Op::LoadByHash(i) => format!("load_by_hash({i})"),
            Op::Descriptor(c) => format!("descriptor({c})"),
            Op::LoadRange(c, m) => format!("load_range({c},{m})"),
        }
    }
    pub fn parse(s: &str) -> Option<Op> {
        let s = s.trim();
        let (name, rest) = s.split_once('(')?;
        let args: Vec<&str> = rest
            .trim_end_matches(')')
            .split(',')
            .map(|x| x.trim())
            .filter(|x| !x.is_empty())
            .collect();
        let n = |k: usize| -> Option<u8> { args.get(k)?.parse::<u8>().ok() };
        Some(match name {
            "put" => Op::Put(n(0)?),
            "put_verified" => {
                let (e, b) = (n(0)?, n(1)?);
                if e == b {
                    Op::PutVerified(e)
                } else {
                    Op::PutMismatch(e, b)
                }
            }
            "get" => Op::Get(n(0)?),
            "has" => Op::Has(n(0)?),
            "pin" => Op::Pin(n(0)?),
            "unpin" => Op::Unpin(n(0)?),
            "reopen" => Op::Reopen,
            "corrupt" => {
                let k = match *args.get(1)? {
                    "flip" => Ck::Flip,
                    "truncate" => Ck::Truncate,
                    "append" => Ck::Append,
                    "swap" => Ck::Swap,
                    "delete" => Ck::Delete,
                    _ => return None,
                };
                Op::Corrupt(n(0)?, k)
            }
            "retain" => Op::Retain(n(0)?, n(1)?),
            "load" => Op::Load(n(0)?),
            "load_by_hash" => Op::LoadByHash(n(0)?),
            "descriptor" => Op::Descriptor(n(0)?),
            "load_range" => Op::LoadRange(n(0)?, n(1)?),
            _ => return None,
        })
    }
}

/// Descriptor in harness terms: (coordinate index or 255, content hash, byte_len).
pub type Desc = (u8, [u8; 32], u64);

fn desc_of(d: &RetainedBlobDescriptor) -> Desc {
    (coord_idx(&d.coordinate), *d.content_hash.as_bytes(), d.byte_len)
}

#[derive(Clone, Debug, PartialEq, Eq)]
pub enum RetErr {
    MissingCoord(u8),
    MissingBlob([u8; 32]),
    Budget(u64, u64),
    OutOfBounds(u64, u64, u64),
    Conflict(u8, [u8; 32], [u8; 32]),
}

fn reterr(e: &RetentionError) -> RetErr {
    match e {
        RetentionError::MissingSemanticCoordinate { coordinate } => {
            RetErr::MissingCoord(coord_idx(coordinate))
        }
        RetentionError::MissingBlob { content_hash } => RetErr::MissingBlob(*content_hash.as_bytes()),
        RetentionError::RangeExceedsBudget {
            requested_bytes,
            max_bytes,
        } => RetErr::Budget(*requested_bytes, *max_bytes),
        RetentionError::RangeOutOfBounds {
            offset,
            len,
            byte_len,
        } => RetErr::OutOfBounds(*offset, *len, *byte_len),
        RetentionError::SemanticCoordinateConflict {
            coordinate,
            existing_content_hash,
            new_content_hash,
        } => RetErr::Conflict(
            coord_idx(coordinate),
            *existing_content_hash.as_bytes(),
            *new_content_hash.as_bytes(),
        ),
    }
}

/// What one real call returned.
#[derive(Clone, Debug, PartialEq, Eq)]
pub enum Obs {
    PutOk([u8; 32]),
    PvOk,
    PvErr([u8; 32], [u8; 32]),
    GetSome(Vec<u8>),
    GetNone,
    /// typed integrity error on read: (expected, computed)
    GetMismatch([u8; 32], [u8; 32]),
    OtherErr(String),
    Has(bool),
    Unit,
    RetainOk(Desc),
    LoadOk(Desc, Vec<u8>),
    RangeOk(Desc, u64, Vec<u8>),
    BytesOk(Vec<u8>),
    DescSome(Desc),
    DescNone,
    Ret(RetErr),
}

impl Obs {
    pub fn kind(&self) -> String {
        match self {
            Obs::PutOk(_) => "PutOk".into(),
            Obs::PvOk => "Ok".into(),
            Obs::PvErr(..) => "HashMismatch".into(),
            Obs::GetSome(_) => "Some".into(),
            Obs::GetNone => "None".into(),
            Obs::GetMismatch(..) => "HashMismatch".into(),
            Obs::OtherErr(_) => "OtherErr".into(),
            Obs::Has(b) => format!("{b}"),
            Obs::Unit => "unit".into(),
            Obs::RetainOk(_) => "Ok".into(),
            Obs::LoadOk(..) => "Ok".into(),
            Obs::RangeOk(..) => "Ok".into(),
            Obs::BytesOk(_) => "Ok".into(),
            Obs::DescSome(_) => "Some".into(),
            Obs::DescNone => "None".into(),
            Obs::Ret(RetErr::MissingCoord(_)) => "MissingSemanticCoordinate".into(),
            Obs::Ret(RetErr::MissingBlob(_)) => "MissingBlob".into(),
            Obs::Ret(RetErr::Budget(..)) => "RangeExceedsBudget".into(),
            Obs::Ret(RetErr::OutOfBounds(..)) => "RangeOutOfBounds".into(),
            Obs::Ret(RetErr::Conflict(..)) => "SemanticCoordinateConflict".into(),
        }
    }
    pub fn show(&self) -> String {
        let d = |d: &Desc| format!("desc(c{},h={},len={})", d.0, hex8(&d.1), d.2);
        match self {
            Obs::PutOk(h) => format!("Ok(hash={})", hex8(h)),
            Obs::PvOk => "Ok(())".into(),
            Obs::PvErr(e, c) | Obs::GetMismatch(e, c) => {
                format!("Err(HashMismatch{{expected={},computed={}}})", hex8(e), hex8(c))
            }
            Obs::GetSome(b) => format!("Some(bytes={})", mc::hex(b)),
            Obs::GetNone => "None".into(),
            Obs::OtherErr(e) => format!("Err(other: {e})"),
            Obs::Has(b) => format!("{b}"),
            Obs::Unit => "()".into(),
            Obs::RetainOk(x) => format!("Ok({})", d(x)),
            Obs::LoadOk(x, b) => format!("Ok({}, bytes={})", d(x), mc::hex(b)),
            Obs::RangeOk(x, o, b) => format!("Ok({}, offset={o}, bytes={})", d(x), mc::hex(b)),
            Obs::BytesOk(b) => format!("Ok(bytes={})", mc::hex(b)),
            Obs::DescSome(x) => format!("Some({})", d(x)),
            Obs::DescNone => "None".into(),
            Obs::Ret(RetErr::MissingCoord(c)) => format!("Err(MissingSemanticCoordinate(c{c}))"),
            Obs::Ret(RetErr::MissingBlob(h)) => format!("Err(MissingBlob({}))", hex8(h)),
            Obs::Ret(RetErr::Budget(a, b)) => format!("Err(RangeExceedsBudget{{requested={a},max={b}}})"),
            Obs::Ret(RetErr::OutOfBounds(a, b, c)) => {
                format!("Err(RangeOutOfBounds{{offset={a},len={b},blob_len={c}}})")
            }
            Obs::Ret(RetErr::Conflict(c, a, b)) => format!(
                "Err(SemanticCoordinateConflict{{c{c},existing={},new={}}})",
                hex8(a),
                hex8(b)
            ),
        }
    }
    pub fn to_json(&self) -> Value {
        json!(self.show())
    }
}

// ───────────────────────────── the real subjects ─────────────────────────────

#[derive(Clone, Copy, Debug, PartialEq, Eq, PartialOrd, Ord, Hash)]
pub enum Subject {
    Memory,
    Disk,
    RetentionMemory,
    RetentionDisk,
}
pub const SUBJECTS: [Subject; 4] = [
    Subject::Memory,
    Subject::Disk,
    Subject::RetentionMemory,
    Subject::RetentionDisk,
];

impl Subject {
    pub fn name(&self) -> &'static str {
        match self {
            Subject::Memory => "memory-tier",
            Subject::Disk => "disk-tier",
            Subject::RetentionMemory => "retention-over-memory-tier",
            Subject::RetentionDisk => "retention-over-disk-tier",
        }
    }
    pub fn parse(s: &str) -> Option<Subject> {
        SUBJECTS.iter().copied().find(|x| x.name() == s)
    }
    pub fn disk(&self) -> bool {
        matches!(self, Subject::Disk | Subject::RetentionDisk)
    }
    pub fn retention(&self) -> bool {
        matches!(self, Subject::RetentionMemory | Subject::RetentionDisk)
    }
}

/// The backing store, adapted to `BlobStore` so `RetainedBlobIndex` can sit on the disk tier too.
/// Adapter rules (harness code, stated in the evidence assumptions): an I/O error is a harness
/// panic (machinery), an integrity error on `get` is reported to the index as absence.
pub enum Backend {
    Mem(MemoryTier),
    Disk { dir: PathBuf, tier: DiskTier },
}

impl BlobStore for Backend {
    fn put(&mut self, bytes: &[u8]) -> BlobHash {
        match self {
            Backend::Mem(m) => m.put(bytes),
            Backend::Disk { tier, .. } => match tier.put(bytes) {
                Ok(h) => h,
                Err(e) => panic!("harness: disk put failed: {e}"),
            },
        }
    }
    fn put_verified(&mut self, expected: BlobHash, bytes: &[u8]) -> Result<(), CasError> {
        match self {
            Backend::Mem(m) => m.put_verified(expected, bytes),
            Backend::Disk { tier, .. } => match tier.put_verified(expected, bytes) {
                Ok(()) => Ok(()),
                Err(DiskTierError::Cas(e)) => Err(e),
                Err(e) => panic!("harness: disk put_verified failed: {e}"),
            },
        }
    }
    fn get(&self, hash: &BlobHash) -> Option<Arc<[u8]>> {
        match self {
            Backend::Mem(m) => m.get(hash),
            Backend::Disk { tier, .. } => match tier.get(hash) {
                Ok(x) => x,
                Err(DiskTierError::Cas(_)) => None,
                Err(e) => panic!("harness: disk get failed: {e}"),
            },
        }
    }
    fn has(&self, hash: &BlobHash) -> bool {
        match self {
            Backend::Mem(m) => m.has(hash),
            Backend::Disk { tier, .. } => match tier.has(hash) {
                Ok(x) => x,
                Err(e) => panic!("harness: disk has failed: {e}"),
            },
        }
    }
    fn pin(&mut self, hash: &BlobHash) {
        match self {
            Backend::Mem(m) => m.pin(hash),
            Backend::Disk { tier, .. } => tier.pin(hash),
        }
    }
    fn unpin(&mut self, hash: &BlobHash) {
        match self {
            Backend::Mem(m) => m.unpin(hash),
            Backend::Disk { tier, .. } => tier.unpin(hash),
        }
    }
}

pub struct Real {
    pub backend: Backend,
    pub index: RetainedBlobIndex,
    pub retention: bool,
}

static DIR_COUNTER: AtomicU64 = AtomicU64::new(0);

fn blob_rel_path(i: u8) -> String {
    let hex = mc::hex(&hb(i));
    format!("blobs/{}/{}", &hex[..2], hex)
}

impl Real {
    pub fn fresh(subject: Subject) -> Real {
        let backend = if subject.disk() {
            let n = DIR_COUNTER.fetch_add(1, Ordering::Relaxed);
            // sharded parents: sibling creation/removal in one tmpfs directory serialises on its lock
            let dir = mc::scratch_root()
                .join("c20-cas")
                .join(format!("s{}", n % 251))
                .join(format!("d{n}"));
            let _ = std::fs::remove_dir_all(&dir);
            std::fs::create_dir_all(&dir).expect("scratch dir");
            let tier = DiskTier::open(&dir).expect("DiskTier::open");
            Backend::Disk { dir, tier }
        } else {
            Backend::Mem(MemoryTier::new())
        };
        Real {
            backend,
            index: RetainedBlobIndex::default(),
            retention: subject.retention(),
        }
    }

    pub fn cleanup(self) {
        if let Backend::Disk { dir, tier } = self.backend {
            drop(tier);
            let _ = std::fs::remove_dir_all(dir);
        }
    }

    /// Apply one operation to the real store and report what it returned.
    pub fn apply(&mut self, op: Op) -> Obs {
        match op {
            Op::Put(i) => match &mut self.backend {
                Backend::Mem(m) => Obs::PutOk(*m.put(BLOBS[i as usize]).as_bytes()),
                Backend::Disk { tier, .. } => match tier.put(BLOBS[i as usize]) {
                    Ok(x) => Obs::PutOk(*x.as_bytes()),
                    Err(e) => Obs::OtherErr(e.to_string()),
                },
            },
            Op::PutVerified(i) => self.put_verified(i, i),
            Op::PutMismatch(e, b) => self.put_verified(e, b),
            Op::Get(i) => match &self.backend {
                Backend::Mem(m) => match m.get(&h(i)) {
                    Some(b) => Obs::GetSome(b.to_vec()),
                    None => Obs::GetNone,
                },
                Backend::Disk { tier, .. } => match tier.get(&h(i)) {
                    Ok(Some(b)) => Obs::GetSome(b.to_vec()),
                    Ok(None) => Obs::GetNone,
                    Err(DiskTierError::Cas(CasError::HashMismatch { expected, computed })) => {
                        Obs::GetMismatch(*expected.as_bytes(), *computed.as_bytes())
                    }
                    Err(e) => Obs::OtherErr(e.to_string()),
                },
            },
            Op::Has(i) => match &self.backend {
                Backend::Mem(m) => Obs::Has(m.has(&h(i))),
                Backend::Disk { tier, .. } => match tier.has(&h(i)) {
                    Ok(b) => Obs::Has(b),
                    Err(e) => Obs::OtherErr(e.to_string()),
                },
            },
            Op::Pin(i) => {
                self.backend.pin(&h(i));
                Obs::Unit
            }
            Op::Unpin(i) => {
                self.backend.unpin(&h(i));
                Obs::Unit
            }
            Op::Reopen => match &mut self.backend {
                Backend::Mem(_) => Obs::OtherErr("reopen on memory tier".into()),
                Backend::Disk { dir, tier } => match DiskTier::open(&*dir) {
                    Ok(t) => {
                        *tier = t; // the previous handle is dropped here
                        Obs::Unit
                    }
                    Err(e) => Obs::OtherErr(e.to_string()),
                },
            },
            Op::Corrupt(i, k) => match &self.backend {
                Backend::Mem(_) => Obs::OtherErr("corrupt on memory tier".into()),
                Backend::Disk { dir, .. } => {
                    let p = dir.join(blob_rel_path(i));
                    let r = match damaged(i, k) {
                        Some(Some(bytes)) => std::fs::write(&p, bytes),
                        Some(None) => std::fs::remove_file(&p),
                        None => Err(std::io::Error::other("inapplicable corruption")),
                    };
                    match r {
                        Ok(()) => Obs::Unit,
                        Err(e) => Obs::OtherErr(e.to_string()),
                    }
                }
            },
            Op::Retain(c, b) => {
                match self
                    .index
                    .retain(&mut self.backend, coord(c), BLOBS[b as usize])
                {
                    Ok(d) => Obs::RetainOk(desc_of(&d)),
                    Err(e) => Obs::Ret(reterr(&e)),
                }
            }
            Op::Load(c) => match self.index.load(&self.backend, &coord(c)) {
                Ok(b) => Obs::LoadOk(desc_of(&b.descriptor), b.bytes.to_vec()),
                Err(e) => Obs::Ret(reterr(&e)),
            },
            Op::LoadByHash(i) => match self.index.load_by_hash(&self.backend, h(i)) {
                Ok(b) => Obs::BytesOk(b.to_vec()),
                Err(e) => Obs::Ret(reterr(&e)),
            },
            Op::Descriptor(c) => match self.index.descriptor(&coord(c)) {
                Some(d) => Obs::DescSome(desc_of(d)),
                None => Obs::DescNone,
            },
            Op::LoadRange(c, m) => {
                let (off, len, max) = RANGES[m as usize];
                match self
                    .index
                    .load_range(&self.backend, &coord(c), off, len, max)
                {
                    Ok(r) => Obs::RangeOk(desc_of(&r.descriptor), r.offset, r.bytes.to_vec()),
                    Err(e) => Obs::Ret(reterr(&e)),
                }
            }
        }
    }

    fn put_verified(&mut self, e: u8, b: u8) -> Obs {
        let r = match &mut self.backend {
            Backend::Mem(m) => m.put_verified(h(e), BLOBS[b as usize]).map_err(Ok),
            Backend::Disk { tier, .. } => match tier.put_verified(h(e), BLOBS[b as usize]) {
                Ok(()) => Ok(()),
                Err(DiskTierError::Cas(c)) => Err(Ok(c)),
                Err(o) => Err(Err(o.to_string())),
            },
        };
        match r {
            Ok(()) => Obs::PvOk,
            Err(Ok(CasError::HashMismatch { expected, computed })) => {
                Obs::PvErr(*expected.as_bytes(), *computed.as_bytes())
            }
            Err(Err(s)) => Obs::OtherErr(s),
        }
    }

    /// Complete observable state of the real subject (see module docs).
    pub fn snapshot(&self) -> Snapshot {
        let mut s = Snapshot::default();
        match &self.backend {
            Backend::Mem(m) => {
                for i in 0..NB {
                    if let Some(b) = m.get(&h(i)) {
                        s.held.insert(i, b.to_vec());
                    }
                    if m.is_pinned(&h(i)) {
                        s.pins.insert(i);
                    }
                }
                s.len = m.len() as u64;
                s.byte_count = m.byte_count() as u64;
                s.pinned_count = m.pinned_count() as u64;
            }
            Backend::Disk { dir, tier } => {
                let mut files = BTreeMap::new();
                walk(dir, dir, &mut files);
                for i in 0..NB {
                    if let Some(b) = files.remove(&blob_rel_path(i)) {
                        s.held.insert(i, b);
                    }
                    if tier.is_pinned(&h(i)) {
                        s.pins.insert(i);
                    }
                }
                s.stray = files;
                s.listed = Some(match tier.list() {
                    Ok(v) => Ok(v.iter().map(|h| *h.as_bytes()).collect()),
                    Err(e) => Err(e.to_string()),
                });
                s.len = s.held.len() as u64;
                s.byte_count = 0;
                s.pinned_count = tier.pinned_count() as u64;
            }
        }
        if self.retention {
            for c in 0..NC {
                if let Some(d) = self.index.descriptor(&coord(c)) {
                    s.index.insert(c, desc_of(d));
                }
            }
            s.index_debug = format!("{:?}", self.index);
        }
        s
    }
}

fn walk(root: &Path, dir: &Path, out: &mut BTreeMap<String, Vec<u8>>) {
    let Ok(rd) = std::fs::read_dir(dir) else {
        return;
    };
    for e in rd.flatten() {
        let p = e.path();
        if p.is_dir() {
            walk(root, &p, out);
        } else if let Ok(b) = std::fs::read(&p) {
            let rel = p
                .strip_prefix(root)
                .map(|x| x.to_string_lossy().to_string())
                .unwrap_or_default();
            out.insert(rel, b);
        }
    }
}

#[derive(Clone, Debug, Default, PartialEq, Eq)]
pub struct Snapshot {
    /// bytes currently held under h_i (memory: what `get` returns; disk: the file content)
    pub held: BTreeMap<u8, Vec<u8>>,
    pub pins: BTreeSet<u8>,
    pub len: u64,
    pub byte_count: u64,
    pub pinned_count: u64,
    /// disk: any file that is not one of the three blob files
    pub stray: BTreeMap<String, Vec<u8>>,
    pub index: BTreeMap<u8, Desc>,
    pub index_debug: String,
    /// disk: what `DiskTier::list()` returns (documented: all stored hashes, sorted)
    pub listed: Option<Result<Vec<[u8; 32]>, String>>,
}

impl Snapshot {
    pub fn key(&self) -> Vec<u8> {
        format!("{self:?}").into_bytes()
    }
}

// ───────────────────────────── the reference model ─────────────────────────────

/// `BTreeMap<hash, bytes>` + pin set; an entry whose bytes are not the blob named by its hash is
/// "corrupted".  `index`: coordinate → blob for the retention subjects.
#[derive(Clone, Debug, Default, PartialEq, Eq)]
pub struct RefCas {
    pub held: BTreeMap<u8, Vec<u8>>,
    pub pins: BTreeSet<u8>,
    pub index: BTreeMap<u8, u8>,
}

#[derive(Clone, Copy, Debug, PartialEq, Eq)]
pub enum BlobState {
    Absent,
    Clean,
    Corrupt,
}

impl RefCas {
    pub fn state(&self, i: u8) -> BlobState {
        match self.held.get(&i) {
            None => BlobState::Absent,
            Some(b) if b.as_slice() == BLOBS[i as usize] => BlobState::Clean,
            Some(_) => BlobState::Corrupt,
        }
    }
    fn state_name(&self, i: u8) -> &'static str {
        match self.state(i) {
            BlobState::Absent => "absent",
            BlobState::Clean => "present",
            BlobState::Corrupt => "corrupt",
        }
    }
    fn desc(&self, c: u8, b: u8) -> Desc {
        (c, hb(b), BLOBS[b as usize].len() as u64)
    }

    /// Operations enabled in this (reference) state for a subject.
    pub fn menu(&self, subject: Subject) -> Vec<Op> {
        // read-only operations first: they leave the store as it is, so the re-executed store of
        // this node can be reused for the next operation (see `explore`)
        let mut v = Vec::new();
        if !subject.retention() {
            for i in 0..NB {
                v.push(Op::Get(i));
            }
            for i in 0..NB {
                v.push(Op::Has(i));
            }
            for e in 0..NB {
                for b in 0..NB {
                    if e != b {
                        v.push(Op::PutMismatch(e, b));
                    }
                }
            }
            for i in 0..NB {
                v.push(Op::Put(i));
            }
            for i in 0..NB {
                v.push(Op::PutVerified(i));
            }
            for i in 0..NB {
                v.push(Op::Pin(i));
            }
            for i in 0..NB {
                v.push(Op::Unpin(i));
            }
        } else {
            for c in 0..NC {
                v.push(Op::Load(c));
            }
            for i in 0..NB {
                v.push(Op::LoadByHash(i));
            }
            for c in 0..NC {
                v.push(Op::Descriptor(c));
            }
            for c in 0..NC {
                for m in 0..RANGES.len() as u8 {
                    v.push(Op::LoadRange(c, m));
                }
            }
            for c in 0..NC {
                for b in 0..NB {
                    v.push(Op::Retain(c, b));
                }
            }
            // store-level operations interleaved under the index
            for i in 0..NB {
                v.push(Op::Put(i));
            }
            for i in 0..NB {
                v.push(Op::Unpin(i));
            }
        }
        if subject.disk() {
            v.push(Op::Reopen);
            for i in 0..NB {
                if self.held.contains_key(&i) {
                    // every kind on the tiers themselves; under the index (whose view of a
                    // damaged blob is "absent" whatever the damage) one of each class: content
                    // damaged, other valid blob swapped in, file gone
                    let kinds: &[Ck] = if subject.retention() {
                        &[Ck::Flip, Ck::Append, Ck::Swap, Ck::Delete]
                    } else {
                        &CKS
                    };
                    for &k in kinds {
                        if let Some(d) = damaged(i, k) {
                            // skip a "corruption" that would leave the file as it is
                            if d.as_ref() != self.held.get(&i) {
                                v.push(Op::Corrupt(i, k));
                            }
                        }
                    }
                }
            }
        }
        v
    }

    /// Expected observation + successor(s).  More than one successor means the property leaves
    /// the outcome open (only: re-retaining equal content over a *corrupted* blob may or may not
    /// repair it); the real post-state must equal one of them.
    pub fn expect(&self, op: Op) -> (Obs, Vec<RefCas>) {
        let mut n = self.clone();
        match op {
            Op::Put(i) => {
                // put(b) stores b under h(b): afterwards the store holds exactly b there.
                n.held.insert(i, BLOBS[i as usize].to_vec());
                (Obs::PutOk(hb(i)), vec![n])
            }
            Op::PutVerified(i) => {
                n.held.insert(i, BLOBS[i as usize].to_vec());
                (Obs::PvOk, vec![n])
            }
            // Err IFF blake3(bytes) != expected; an Err leaves the store unchanged.
            Op::PutMismatch(e, b) => (Obs::PvErr(hb(e), hb(b)), vec![n]),
            Op::Get(i) => {
                let o = match self.state(i) {
                    BlobState::Absent => Obs::GetNone,
                    BlobState::Clean => Obs::GetSome(BLOBS[i as usize].to_vec()),
                    BlobState::Corrupt => Obs::GetMismatch(
                        hb(i),
                        *blake3::hash(self.held.get(&i).map(|v| v.as_slice()).unwrap_or(&[]))
                            .as_bytes(),
                    ),
                };
                (o, vec![n])
            }
            Op::Has(i) => (Obs::Has(self.held.contains_key(&i)), vec![n]),
            Op::Pin(i) => {
                n.pins.insert(i);
                (Obs::Unit, vec![n])
            }
            Op::Unpin(i) => {
                n.pins.remove(&i);
                (Obs::Unit, vec![n])
            }
            Op::Reopen => {
                // pins are process-local ("pinned in this process"); content persists
                n.pins.clear();
                (Obs::Unit, vec![n])
            }
            Op::Corrupt(i, k) => {
                match damaged(i, k) {
                    Some(Some(b)) => {
                        n.held.insert(i, b);
                    }
                    Some(None) => {
                        n.held.remove(&i);
                    }
                    None => {}
                }
                (Obs::Unit, vec![n])
            }
            Op::Retain(c, b) => match self.index.get(&c) {
                Some(&old) if old != b => (
                    Obs::Ret(RetErr::Conflict(c, hb(old), hb(b))),
                    vec![n], // rejected: nothing changes
                ),
                Some(_) => {
                    // idempotent: same descriptor; the content hash is (re)pinned
                    n.pins.insert(b);
                    let mut succ = Vec::new();
                    match self.state(b) {
                        BlobState::Clean => succ.push(n),
                        BlobState::Absent => {
                            n.held.insert(b, BLOBS[b as usize].to_vec());
                            succ.push(n);
                        }
                        BlobState::Corrupt => {
                            let mut repaired = n.clone();
                            repaired.held.insert(b, BLOBS[b as usize].to_vec());
                            succ.push(n);
                            succ.push(repaired);
                        }
                    }
                    (Obs::RetainOk(self.desc(c, b)), succ)
                }
                None => {
                    n.index.insert(c, b);
                    n.pins.insert(b);
                    n.held.insert(b, BLOBS[b as usize].to_vec());
                    (Obs::RetainOk(self.desc(c, b)), vec![n])
                }
            },
            Op::Load(c) => {
                let o = match self.index.get(&c) {
                    None => Obs::Ret(RetErr::MissingCoord(c)),
                    Some(&b) => match self.state(b) {
                        BlobState::Clean => Obs::LoadOk(self.desc(c, b), BLOBS[b as usize].to_vec()),
                        _ => Obs::Ret(RetErr::MissingBlob(hb(b))),
                    },
                };
                (o, vec![n])
            }
            Op::LoadByHash(i) => {
                let o = match self.state(i) {
                    BlobState::Clean => Obs::BytesOk(BLOBS[i as usize].to_vec()),
                    _ => Obs::Ret(RetErr::MissingBlob(hb(i))),
                };
                (o, vec![n])
            }
            Op::Descriptor(c) => {
                let o = match self.index.get(&c) {
                    Some(&b) => Obs::DescSome(self.desc(c, b)),
                    None => Obs::DescNone,
                };
                (o, vec![n])
            }
            Op::LoadRange(c, m) => {
                let (off, len, max) = RANGES[m as usize];
                // documented order: coordinate (and its content) first, then budget, then bounds
                let o = match self.index.get(&c) {
                    None => Obs::Ret(RetErr::MissingCoord(c)),
                    Some(&b) => match self.state(b) {
                        BlobState::Clean => {
                            let bytes = BLOBS[b as usize];
                            let bl = bytes.len() as u64;
                            if len > max {
                                Obs::Ret(RetErr::Budget(len, max))
                            } else if off.checked_add(len).map_or(true, |e| e > bl) {
                                Obs::Ret(RetErr::OutOfBounds(off, len, bl))
                            } else {
                                Obs::RangeOk(
                                    self.desc(c, b),
                                    off,
                                    bytes[off as usize..(off + len) as usize].to_vec(),
                                )
                            }
                        }
                        _ => Obs::Ret(RetErr::MissingBlob(hb(b))),
                    },
                };
                (o, vec![n])
            }
        }
    }

    /// Does the real snapshot agree with this reference state?  Returns the first disagreeing
    /// aspect.
    pub fn disagreement(&self, subject: Subject, s: &Snapshot) -> Option<&'static str> {
        if !s.stray.is_empty() {
            return Some("stray-file");
        }
        if s.held != self.held {
            return Some("content");
        }
        if s.pins != self.pins || s.pinned_count != self.pins.len() as u64 {
            return Some("pins");
        }
        if s.len != self.held.len() as u64 {
            return Some("len");
        }
        if let Some(l) = &s.listed {
            let mut want: Vec<[u8; 32]> = self.held.keys().map(|i| hb(*i)).collect();
            want.sort_unstable();
            if l.as_ref().ok() != Some(&want) {
                return Some("list");
            }
        }
        if !subject.disk() {
            let bc: u64 = self.held.keys().map(|i| BLOBS[*i as usize].len() as u64).sum();
            if s.byte_count != bc {
                return Some("byte_count");
            }
        }
        if subject.retention() {
            let want: BTreeMap<u8, Desc> =
                self.index.iter().map(|(c, b)| (*c, self.desc(*c, *b))).collect();
            if s.index != want {
                return Some("index");
            }
        }
        None
    }

    pub fn to_json(&self) -> Value {
        json!({
            "held": self.held.iter().map(|(i, b)| (format!("h{i}"), json!({"bytes_hex": mc::hex(b), "state": self.state_name(*i)}))).collect::<BTreeMap<_,_>>(),
            "pins": self.pins,
            "index": self.index.iter().map(|(c,b)| (format!("c{c}"), format!("blob{b}"))).collect::<BTreeMap<_,_>>(),
        })
    }
}

// ───────────────────────────── verdicts ─────────────────────────────

#[derive(Clone, Debug)]
pub struct Finding {
    pub signature: String,
    pub detail: Value,
}

/// Stable signature for an observation that differs from the reference's expectation.
fn classify(subject: Subject, op: Op, before: &RefCas, want: &Obs, got: &Obs) -> String {
    let t = subject.name();
    match (op, want, got) {
        (Op::PutMismatch(e, _), Obs::PvErr(..), Obs::PvOk) => format!(
            "{t}:put_verified-accepts-mismatch-when-hash-{}",
            before.state_name(e)
        ),
        (Op::PutMismatch(e, _), Obs::PvErr(..), Obs::PvErr(..)) => format!(
            "{t}:put_verified-mismatch-error-names-wrong-hashes-when-hash-{}",
            before.state_name(e)
        ),
        (Op::PutVerified(i), Obs::PvOk, Obs::PvErr(..)) => format!(
            "{t}:put_verified-rejects-matching-bytes-when-hash-{}",
            before.state_name(i)
        ),
        (Op::Get(i), _, Obs::GetSome(b)) if b.as_slice() != BLOBS[i as usize] => format!(
            "{t}:get-returned-wrong-bytes-when-hash-{}",
            before.state_name(i)
        ),
        (Op::Get(i), _, _) => format!(
            "{t}:get-expected-{}-got-{}-when-hash-{}",
            want.kind(),
            got.kind(),
            before.state_name(i)
        ),
        (Op::Has(i), _, _) => format!(
            "{t}:has-disagrees-with-content-got-{}-when-hash-{}",
            got.kind(),
            before.state_name(i)
        ),
        (Op::Put(i), _, _) => format!(
            "{t}:put-expected-{}-got-{}-when-hash-{}",
            want.kind(),
            got.kind(),
            before.state_name(i)
        ),
        (Op::Retain(c, b), Obs::Ret(RetErr::Conflict(..)), Obs::RetainOk(_)) => {
            let _ = (c, b);
            format!("{t}:retain-accepts-different-content-under-same-coordinate")
        }
        (Op::Retain(..), Obs::RetainOk(_), Obs::Ret(RetErr::Conflict(..))) => {
            format!("{t}:retain-rejects-equal-content-under-same-coordinate")
        }
        (Op::Retain(c, _), Obs::RetainOk(_), Obs::RetainOk(_)) => format!(
            "{t}:retain-returned-wrong-descriptor-coordinate-{}",
            if before.index.contains_key(&c) { "indexed" } else { "new" }
        ),
        (Op::Load(_) | Op::LoadRange(..) | Op::LoadByHash(_), _, Obs::LoadOk(..))
        | (Op::Load(_) | Op::LoadRange(..) | Op::LoadByHash(_), _, Obs::RangeOk(..))
        | (Op::Load(_) | Op::LoadRange(..) | Op::LoadByHash(_), _, Obs::BytesOk(_)) => format!(
            "{t}:{}-returned-wrong-content-expected-{}",
            op.kind(),
            want.kind()
        ),
        _ => format!(
            "{t}:{}-expected-{}-got-{}",
            op.kind(),
            want.kind(),
            got.kind()
        ),
    }
}

/// Outcome of checking one real step against the reference.
pub struct StepResult {
    pub obs: Obs,
    pub snapshot: Snapshot,
    /// reference state after the step; `None` when the real state left the reference (branch pruned)
    pub next: Option<RefCas>,
    pub findings: Vec<Finding>,
}

pub fn case_json(subject: Subject, path: &[Op], op: Option<Op>) -> Value {
    let mut ops: Vec<String> = path.iter().map(|o| o.render()).collect();
    if let Some(o) = op {
        ops.push(o.render());
    }
    json!({
        "part": "cas",
        "subject": subject.name(),
        "ops": ops,
        "blobs_hex": BLOBS.iter().map(|b| mc::hex(b)).collect::<Vec<_>>(),
        "blob_hashes": (0..NB).map(|i| mc::hex(&hb(i))).collect::<Vec<_>>(),
    })
}

/// Execute `op` on `real` (whose reference state is `before`) and evaluate every invariant.
pub fn checked_step(
    subject: Subject,
    real: &mut Real,
    before: &RefCas,
    op: Op,
    path: &[Op],
) -> StepResult {
    let (want, succs) = before.expect(op);
    let obs = real.apply(op);
    let snapshot = real.snapshot();
    let mut findings = Vec::new();
    let case = || case_json(subject, path, Some(op));
    if obs != want {
        findings.push(Finding {
            signature: classify(subject, op, before, &want, &obs),
            detail: json!({
                "case": case(),
                "failing_op": op.render(),
                "reference_state_before": before.to_json(),
                "expected": want.to_json(),
                "observed": obs.to_json(),
            }),
        });
    }
    // state agreement (this is where "an Err leaves the store unchanged", "put is idempotent",
    // "pin/unpin never change content", "reads change nothing" are decided)
    let mut next = None;
    let mut first_dis = None;
    for s in &succs {
        match s.disagreement(subject, &snapshot) {
            None => {
                next = Some(s.clone());
                break;
            }
            Some(d) => {
                if first_dis.is_none() {
                    first_dis = Some(d);
                }
            }
        }
    }
    if next.is_none() {
        let aspect = first_dis.unwrap_or("unknown");
        let what = match (&obs, op) {
            (Obs::PvErr(..), _) => "put_verified-err-changed-store".to_string(),
            (_, Op::Pin(_)) | (_, Op::Unpin(_)) if aspect == "content" => {
                format!("{}-changed-content", op.kind())
            }
            (_, Op::Put(i)) | (_, Op::PutVerified(i))
                if before.state(i) == BlobState::Clean =>
            {
                format!("{}-not-idempotent", op.kind())
            }
            _ => format!("{}-state-diverged", op.kind()),
        };
        findings.push(Finding {
            signature: format!("{}:{what}:{aspect}", subject.name()),
            detail: json!({
                "case": case(),
                "failing_op": op.render(),
                "reference_state_before": before.to_json(),
                "reference_state_after_allowed": succs.iter().map(|s| s.to_json()).collect::<Vec<_>>(),
                "observed": obs.to_json(),
                "real_state_after": format!("{snapshot:?}"),
            }),
        });
    }
    StepResult {
        obs,
        snapshot,
        next,
        findings,
    }
}

// ───────────────────────────── the search ─────────────────────────────

thread_local! {
    static CACHE: std::cell::RefCell<Option<(Subject, Vec<Op>, Real)>> = const { std::cell::RefCell::new(None) };
}

#[derive(Clone)]
struct Node {
    model: RefCas,
    key: Vec<u8>,
    /// how the node was first reached (last op + what the real store answered), for samples
    last: Option<(Op, Obs)>,
}

/// Minimal (shortest, then lexicographically first) witness per signature — deterministic
/// whatever the thread interleaving of the parallel frontier expansion.
#[derive(Default)]
pub struct Witnesses {
    map: Mutex<BTreeMap<String, (u64, (u64, String), Value)>>,
}

impl Witnesses {
    fn add(&self, f: Finding, full_path: Vec<Op>) {
        let order = (
            full_path.len() as u64,
            full_path.iter().map(|o| format!("{o:?}")).collect::<Vec<_>>().join(";"),
        );
        self.add_keyed(f.signature, order, f.detail);
    }
    /// Keep, per signature, the witness with the smallest `order` (shortest case first).
    pub fn add_keyed(&self, signature: String, order: (u64, String), detail: Value) {
        let mut g = self.map.lock().unwrap();
        match g.get_mut(&signature) {
            Some(e) => {
                e.0 += 1;
                if order < e.1 {
                    e.1 = order;
                    e.2 = detail;
                }
            }
            None => {
                g.insert(signature, (1, order, detail));
            }
        }
    }
    pub fn flush(self, r: &Report) {
        let g = self.map.into_inner().unwrap();
        for (sig, (n, _order, mut detail)) in g {
            if let Some(o) = detail.as_object_mut() {
                o.insert("occurrences_in_search".into(), json!(n));
            }
            r.violation(&sig, detail);
        }
    }
}

fn nontrivial(op: Op, before: &RefCas) -> bool {
    match op {
        Op::PutMismatch(..) | Op::Corrupt(..) => true,
        Op::Put(i) | Op::PutVerified(i) | Op::Get(i) | Op::Has(i) | Op::LoadByHash(i) => {
            before.held.contains_key(&i)
        }
        Op::Pin(i) | Op::Unpin(i) => before.held.contains_key(&i) || before.pins.contains(&i),
        Op::Reopen => !before.held.is_empty() || !before.pins.is_empty(),
        Op::Retain(c, _) | Op::Load(c) | Op::Descriptor(c) | Op::LoadRange(c, _) => {
            before.index.contains_key(&c)
        }
    }
}

pub fn explore(r: &Report, subject: Subject, max_depth: usize, wit: &Witnesses) -> mc::bfs::BfsStats {
    let t = subject.name();
    let init_real = Real::fresh(subject);
    let init = Node {
        model: RefCas::default(),
        key: init_real.snapshot().key(),
        last: None,
    };
    if let Some(d) = RefCas::default().disagreement(subject, &init_real.snapshot()) {
        r.machinery_error(&format!("{t}: fresh store disagrees with empty reference: {d}"));
    }
    init_real.cleanup();
    let real_ops = AtomicU64::new(0);
    let reused = AtomicU64::new(0);
    let sampled = AtomicU64::new(0);
    let stats = mc::bfs::bfs(
        init,
        max_depth,
        |n: &Node| n.key.clone(),
        |n: &Node, _path: &[Op]| n.model.menu(subject),
        |n: &Node, op: &Op, path: &[Op]| {
            // Rebuild the real store by re-executing the history on the real code — or take the
            // store this very thread re-executed for the same node a moment ago, provided the
            // operation applied to it since left its complete concrete state (= the node key)
            // untouched.
            let res = mc::catch(|| {
                let cached = CACHE.with(|c| c.borrow_mut().take());
                if let Some((cs, cp, mut real)) = cached {
                    if cs == subject && cp.as_slice() == path {
                        real_ops.fetch_add(1, Ordering::Relaxed);
                        reused.fetch_add(1, Ordering::Relaxed);
                        let out = checked_step(subject, &mut real, &n.model, *op, path);
                        if out.next.is_some() && out.snapshot.key() == n.key {
                            CACHE.with(|c| *c.borrow_mut() = Some((cs, cp, real)));
                        } else {
                            real.cleanup();
                        }
                        return Ok(out);
                    }
                    real.cleanup();
                }
                let mut real = Real::fresh(subject);
                let mut model = RefCas::default();
                for p in path {
                    let (_, mut succs) = model.expect(*p);
                    real.apply(*p);
                    if succs.len() == 1 {
                        model = succs.remove(0);
                        continue;
                    }
                    let snap = real.snapshot();
                    match succs.into_iter().find(|s| s.disagreement(subject, &snap).is_none()) {
                        Some(s) => model = s,
                        None => {
                            real.cleanup();
                            return Err(format!("{t}: replay of {:?} left the reference", path));
                        }
                    }
                }
                real_ops.fetch_add(path.len() as u64 + 1, Ordering::Relaxed);
                // re-execution must be deterministic: the reference state always, the complete
                // concrete state on a fixed quarter of the transitions (a full snapshot is the
                // most expensive step on the disk subjects)
                let full_check = (path.len() + op.render().len()) % 4 == 0;
                if model != n.model || (full_check && real.snapshot().key() != n.key) {
                    real.cleanup();
                    return Err(format!("{t}: re-execution of {:?} is not deterministic", path));
                }
                let out = checked_step(subject, &mut real, &n.model, *op, path);
                if out.next.is_some() && out.snapshot.key() == n.key {
                    CACHE.with(|c| *c.borrow_mut() = Some((subject, path.to_vec(), real)));
                } else {
                    real.cleanup();
                }
                Ok(out)
            });
            let out = match res {
                Ok(Ok(o)) => o,
                Ok(Err(m)) => {
                    r.machinery_error(&m);
                    return None;
                }
                Err(p) => {
                    r.machinery_error(&format!("{t}: panic in step {}: {p}", op.render()));
                    return None;
                }
            };
            r.eval(1);
            r.counter(&format!("{t}/op/{}", op.kind()), 1);
            r.outcome(&format!("{t}/{}→{}", op.kind(), out.obs.kind()));
            if nontrivial(*op, &n.model) {
                let mut k = n.key.clone();
                k.extend_from_slice(t.as_bytes());
                k.extend_from_slice(op.render().as_bytes());
                r.nontrivial(&k);
            }
            if let Obs::OtherErr(e) = &out.obs {
                r.machinery_error(&format!("{t}: unexpected I/O-level error in {}: {e}", op.render()));
            }
            for f in out.findings {
                let mut full = path.to_vec();
                full.push(*op);
                wit.add(f, full);
            }
            let obs = out.obs;
            let key = out.snapshot.key();
            out.next.map(|m| Node {
                model: m,
                key,
                last: Some((*op, obs)),
            })
        },
        |n: &Node, p: &[Op]| {
            // sequential, in merge order ⇒ deterministic choice of samples
            if let Some((op, obs)) = &n.last {
                if p.len() >= 3 && sampled.fetch_add(1, Ordering::Relaxed) < 1 {
                    r.sample(json!({
                        "subject": t, "history": p.iter().map(|o| o.render()).collect::<Vec<_>>(),
                        "last_op": op.render(), "real_store_answered": obs.show(),
                        "reference_state": n.model.to_json(),
                    }));
                }
            }
        },
        || r.over_budget_frac(0.6),
    );
    if stats.capped {
        r.cap_hit(&format!("{t}: BFS stopped by wall cap at depth {}", stats.max_depth));
    }
    r.add_states(stats.states);
    r.add_transitions(stats.transitions);
    r.add_traces(stats.paths);
    r.counter(&format!("{t}/real_ops_executed_incl_replay"), real_ops.load(Ordering::Relaxed));
    r.counter(&format!("{t}/steps_on_reused_reexecuted_store"), reused.load(Ordering::Relaxed));
    r.note(
        &format!("bfs_{t}"),
        json!({"states": stats.states, "transitions": stats.transitions, "max_depth": stats.max_depth,
               "states_per_depth": stats.per_depth, "capped": stats.capped}),
    );
    stats
}

/// Re-run a recorded case on the real code, one op at a time, and report what the checker says.
pub fn replay(r: &Report, case: &Value) {
    let Some(subject) = case.get("subject").and_then(|x| x.as_str()).and_then(Subject::parse) else {
        r.machinery_error("replay: unknown subject");
        return;
    };
    let ops: Vec<Op> = case
        .get("ops")
        .and_then(|x| x.as_array())
        .map(|a| a.iter().filter_map(|s| s.as_str().and_then(Op::parse)).collect())
        .unwrap_or_default();
    let mut real = Real::fresh(subject);
    let mut model = RefCas::default();
    let mut path = Vec::new();
    for op in ops {
        let out = checked_step(subject, &mut real, &model, op, &path);
        println!("[C20 replay] {:<28} -> {}", op.render(), out.obs.show());
        r.eval(1);
        r.add_transitions(1);
        r.nontrivial(op.render().as_bytes());
        for f in out.findings {
            println!("[C20 replay]   VIOLATES: {}", f.signature);
            r.violation(&f.signature, f.detail);
        }
        path.push(op);
        match out.next {
            Some(m) => model = m,
            None => break,
        }
    }
    r.add_states(path.len() as u64 + 1);
    r.add_traces(1);
    r.nontrivial(b"replay");
    r.sample(json!({"replayed": case}));
    real.cleanup();
}
