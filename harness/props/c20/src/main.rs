//! Property check C20 — retained content is returned intact or not at all (see /verif/DESIGN.md §4).
//!
//! Part 1 (`cas`): explicit-state BFS over the real `echo-cas` tiers and the semantic retention
//! index against a reference model.  Part 2 (`wsc`): WAL causal-history record sets through the
//! three WSC export profiles and back, with every referenced blob / embedded segment withheld and
//! every byte of it flipped.
mod cas;
mod wsc;

use mc::{Level, Report};
use std::alloc::{GlobalAlloc, Layout, System};
use std::sync::atomic::Ordering;

/// Recording allocator: remembers the largest single request (> 1 MiB) so that the WSC child
/// process can report an allocation sized from corrupted input even when it happens to succeed.
struct Recording;
// SAFETY: every call is forwarded unchanged to the system allocator; the only addition is an
// atomic max on a static.
unsafe impl GlobalAlloc for Recording {
    unsafe fn alloc(&self, l: Layout) -> *mut u8 {
        if l.size() > (1 << 20) {
            wsc::MAX_ALLOC_REQUEST.fetch_max(l.size(), Ordering::Relaxed);
        }
        System.alloc(l)
    }
    unsafe fn alloc_zeroed(&self, l: Layout) -> *mut u8 {
        if l.size() > (1 << 20) {
            wsc::MAX_ALLOC_REQUEST.fetch_max(l.size(), Ordering::Relaxed);
        }
        System.alloc_zeroed(l)
    }
    unsafe fn realloc(&self, p: *mut u8, l: Layout, new_size: usize) -> *mut u8 {
        if new_size > (1 << 20) {
            wsc::MAX_ALLOC_REQUEST.fetch_max(new_size, Ordering::Relaxed);
        }
        System.realloc(p, l, new_size)
    }
    unsafe fn dealloc(&self, p: *mut u8, l: Layout) {
        System.dealloc(p, l)
    }
}
#[global_allocator]
static ALLOC: Recording = Recording;

fn main() {
    if let Ok(spec) = std::env::var("C20_UNIT") {
        wsc::child_main(&spec);
    }
    let r = Report::new("C20", Level::ModelChecking);
    mc::quiet_panics();
    if let Some(p) = r.replay.clone() {
        match std::fs::read_to_string(&p)
            .ok()
            .and_then(|s| serde_json::from_str::<mc::Value>(&s).ok())
        {
            Some(v) => {
                let case = v.get("detail").and_then(|d| d.get("case")).cloned().unwrap_or(v);
                match case.get("part").and_then(|x| x.as_str()) {
                    Some("cas") => cas::replay(&r, &case),
                    Some("wsc") => wsc::replay(&r, &case),
                    _ => r.machinery_error("replay: unknown part"),
                }
            }
            None => r.machinery_error("replay: cannot read file"),
        }
        r.rule("replay of one recorded case (cas: the recorded op sequence; wsc: the recorded history with all of its faults)");
        r.finish();
    }

    r.rule(
        "Part 1: BFS over ALL sequences (depth ≤4 quick / thorough: ≤8 on the tiers, ≤5 on the retention subjects; dedup by the complete concrete state of the real store) of \
         {put(b), put_verified(h(b),b), put_verified(h(b),b') b'≠b, get, has, pin, unpin} × 3 blobs (empty, 1 byte, 16 bytes) \
         [+ reopen, corrupt(h: flip/truncate/append/swap-in-other-blob/delete the blob file) on disk] on MemoryTier and DiskTier, and of \
         {retain(c,b), load(c), load_by_hash(h), descriptor(c), load_range(c,·), put, unpin [+reopen, corrupt]} × 3 coordinates differing in one \
         field × 3 blobs on RetainedBlobIndex over each tier; every transition executed on the real store rebuilt by re-executing its history, \
         observation and complete state compared with the RefCas reference at every step. \
         Part 2: ALL valid WAL histories of 1..3 transactions over the tier's alphabet (submission, tick, retained readings incl. same-bytes/other-coordinate \
         and same-coordinate/other-bytes) × every subset of segment rotations, written with the real FilesystemWalStore, exported through the 3 WSC profiles and \
         imported back; every embedded segment / retained payload / CAS blob individually withheld and every byte of it flipped through each channel \
         (real exporter, forged self-consistent envelope, lying CAS, damaged DiskTier file, consistent reference lie), every envelope byte flipped, every \
         export validated against every other history's root. \
         distinct_nontrivial = distinct (subject, concrete state, op) transitions whose op touches stored/pinned/indexed/corrupted material or is a mismatch, \
         plus one per WAL history.",
    );
    r.assume("hash collisions of BLAKE3 are not modelled");
    r.assume("I/O failures (ENOSPC, EIO, permissions) are not injected here; DiskTier I/O errors would be reported as machinery errors");
    r.assume("DiskTier is adapted to the BlobStore trait by harness code for the retention-over-disk subject and for the CAS port: I/O error = panic, integrity error on get = absence");
    r.assume("corruption model: whole-file replacement by flip/truncate/append/other-blob/delete (cas part), single-bit flips, truncations and removal of individual blobs/segments/envelope bytes (wsc part); concurrent writers are not modelled");
    r.assume("causal-anchor admission transactions cannot be built through the public API (pub(crate) builders) and are not part of the history family; the causal_anchor envelope is exercised with the empty record set only");

    // ── Part 1 ──
    let wit = cas::Witnesses::default();
    for s in cas::SUBJECTS {
        // thorough: the two tiers are searched to depth 8 (their whole reachable space is ≤ 1152
        // concrete states), the retention subjects to depth 5
        let depth = if r.quick() { 4 } else if s.retention() { 5 } else { 8 };
        let st = cas::explore(&r, s, depth, &wit);
        println!(
            "[C20] cas {:<28} depth {} states {} transitions {} ({:.1}s)",
            s.name(),
            st.max_depth,
            st.states,
            st.transitions,
            r.elapsed_s()
        );
    }
    // vacuity guards, part 1
    for s in cas::SUBJECTS {
        let t = s.name();
        let c = |k: &str| r.counter_value(&format!("{t}/op/{k}"));
        let o = |k: &str| r.outcome_count(&format!("{t}/{k}"));
        let mut kinds: Vec<&str> = if s.retention() {
            vec!["retain", "load", "load_by_hash", "descriptor", "load_range", "put", "unpin"]
        } else {
            vec!["put", "put_verified", "put_verified_mismatch", "get", "has", "pin", "unpin"]
        };
        if s.disk() {
            kinds.extend(["reopen", "corrupt_flip", "corrupt_append", "corrupt_swap", "corrupt_delete"]);
            if !s.retention() {
                kinds.push("corrupt_truncate");
            }
        }
        for k in kinds {
            r.guard(&format!("cas_every_op_kind_executed/{t}/{k}"), c(k) > 0);
        }
        if !s.retention() {
            r.guard(&format!("cas_mismatch_refusals_seen/{t}"), o("put_verified_mismatch→HashMismatch") > 0);
            let distinct_get = ["get→Some", "get→None", "get→HashMismatch"].iter().filter(|k| o(k) > 0).count();
            r.guard(&format!("cas_at_least_two_get_outcomes/{t}"), distinct_get >= 2);
        } else {
            r.guard(&format!("cas_retain_conflict_seen/{t}"), o("retain→SemanticCoordinateConflict") > 0);
            r.guard(&format!("cas_retain_ok_seen/{t}"), o("retain→Ok") > 0);
            r.guard(&format!("cas_load_ok_and_missing_coordinate_seen/{t}"), o("load→Ok") > 0 && o("load→MissingSemanticCoordinate") > 0);
            r.guard(&format!("cas_missing_blob_seen/{t}"), o("load_by_hash→MissingBlob") > 0);
        }
        if s.disk() {
            r.guard(&format!("cas_reopen_transitions_seen/{t}"), c("reopen") > 0);
        }
    }
    r.guard("cas_corruption_detected_on_disk_read", r.outcome_count("disk-tier/get→HashMismatch") > 0);
    r.guard(
        "cas_corruption_detected_through_retention_on_disk",
        r.outcome_count("retention-over-disk-tier/load→MissingBlob") > 0,
    );

    // ── Part 2 ──
    wsc::run(&r, &wit);
    println!("[C20] wsc done ({:.1}s)", r.elapsed_s());
    for k in [
        "ref-only/altered-segment-dependency",
        "ref-only/withheld-segment-dependency",
        "self-contained/withheld-embedded-segment",
        "self-contained/withheld-embedded-retained-payload",
        "self-contained/corrupt-embedded-segment-via-exporter",
        "self-contained/corrupt-embedded-segment-forged-envelope",
        "self-contained/truncated-embedded-segment",
        "self-contained/corrupt-embedded-retained-payload-substituted",
        "self-contained/corrupt-embedded-retained-payload-forged-envelope",
        "cas-addressed/withheld-cas-blob-memory-tier",
        "cas-addressed/withheld-cas-blob-disk-tier",
        "cas-addressed/corrupt-cas-blob-lying-store",
        "cas-addressed/corrupt-cas-blob-consistent-lie",
        "cas-addressed/corrupt-cas-blob-disk-tier-file",
        "cas-addressed/cas-reference-length-lie",
    ] {
        r.guard(&format!("wsc_typed_refusals_seen/{k}"), r.counter_value(&format!("wsc-refused/{k}")) > 0);
    }
    r.guard("wsc_honest_roundtrips_seen", r.counter_value("wsc/honest_roundtrips_ok") >= 9);
    r.guard("wsc_foreign_root_pairs_checked", r.counter_value("wsc/foreign_root_pairs") > 0);
    r.guard(
        "wsc_forged_retained_envelope_reached_the_hash_check",
        r.outcome_count("wsc/self-contained/corrupt-embedded-retained-payload-forged-envelope→import-Err:RetainedMaterialDigestMismatch") > 0,
    );
    r.guard(
        "wsc_lying_store_reached_the_hash_check",
        r.outcome_count("wsc/cas-addressed/corrupt-cas-blob-lying-store→import-Err:CasBlobHashMismatch") > 0,
    );

    wit.flush(&r);
    r.finish();
}
