//! Part 2 of C20 — snapshot-store (WSC) causal-history exports: ref-only, self-contained,
//! CAS-addressed.
//!
//! A small family of WAL histories (1–3 committed transactions of kinds submission / tick /
//! retained reading, optionally with a segment rotation between transactions) is enumerated
//! exhaustively.  Each history is written with the real `FilesystemWalStore`, recovered and
//! projected to a `WalRoot` exactly the way the repository's own tests do it, pushed through each of
//! the three export profiles and imported back:
//!
//! * the import must be `Ok` and carry exactly the source records;
//! * then every referenced blob / embedded segment / embedded retained payload is individually
//!   withheld, and every single byte of it is flipped (one bit per byte in quick, all 8 in
//!   thorough), through every channel the format offers (the real exporter fed tampered bytes, a
//!   forged-but-self-consistent envelope, a lying CAS port, a corrupted DiskTier file, a consistent
//!   lie in the CAS reference) — the import must then be a typed error, never `Ok`;
//! * every byte of every envelope of the export is flipped (in the encoded form, and in the WSC
//!   payload with the envelope digest recomputed) — the import must be a typed error or an import
//!   equal to the honest one, never `Ok` with different records;
//! * an export of history A is never accepted against the root of history B.
//!
//! Isolation.  Tampered material is decoded by code that may abort the process (an allocation
//! sized from a declared count, a stack overflow).  Every fault is therefore evaluated in a
//! single-threaded CHILD process of this binary (`C20_UNIT` set) running under an address-space
//! limit, which prints `B <seq> <fault>` before each fault and one summary line at the end.  The
//! parent runs the children of all units in parallel, and when a child dies it attributes the
//! death to the fault that was in flight, records it as a violation (an abort is not a typed
//! obstruction) and re-runs the unit with that fault skipped.  A recording global allocator
//! additionally reports any single allocation request above 64 MiB made while a fault was being
//! evaluated (inputs are a few KiB).

use crate::cas::Witnesses;
use echo_cas::{
    BlobHash, BlobStore, DiskTier, MemoryTier, RetainedBlobIndex, RetainedBlobRole,
    SemanticBlobCoordinate,
};
use mc::{json, Report, Value};
use rayon::prelude::*;
use std::cell::{Cell, RefCell};
use std::collections::{BTreeMap, BTreeSet};
use std::path::{Path, PathBuf};
use std::sync::atomic::{AtomicUsize, Ordering};
use warp_core::causal_wal::{
    build_recovery_certificate, build_retained_reading_transaction,
    build_submission_acceptance_transaction, build_tick_transaction, canonical_segment_path,
    project_filesystem_wal_recovery, recover_filesystem_store, AffectedFrontier,
    AffectedFrontierKind, EvidenceMaterialPosture, FilesystemWalStore, Lsn, PayloadCodecId,
    PayloadSchemaId, ReadingRefRecord, RecoveryAccessMode, RetainedMaterialKind,
    RetainedMaterialRecord, SubmissionAcceptanceRecord, TickReceiptRecord, WalAppendAuthority,
    WalCommittedTransaction, WalDurabilityMode, WalManifest, WalReceiptCorrelationRecord, WalRoot,
    WalSegmentId, WalStorePort, WalTickDecision, WalTransactionBuilder, WalTransactionId,
    WalTransactionKind, WalWriterEpoch, WriterEpochId, WriterEpochRequest,
};
use warp_core::wsc::{
    validate_wsc_cas_addressed_wal_export, validate_wsc_ref_only_wal_export,
    validate_wsc_self_contained_wal_export, wsc_cas_addressed_wal_export, wsc_ref_only_wal_export,
    wsc_self_contained_wal_export, WscCasAddressedRetainedMaterialReference,
    WscCasAddressedWalExport, WscCasAddressedWalImport, WscCasAddressedWalSegmentMaterial,
    WscCasBlobStorePort, WscRefOnlyWalExport, WscRefOnlyWalImport, WscSelfContainedRetainedMaterial,
    WscSelfContainedWalExport, WscSelfContainedWalImport, WscSelfContainedWalSegmentMaterial,
    WscStoreEnvelope, WscWalCausalHistoryRecords,
};
use warp_core::{CausalTickReceiptRef, GlobalTick, Hash, WorldlineId, WorldlineTick};

fn digest(label: &str) -> Hash {
    blake3::hash(label.as_bytes()).into()
}

// ───────────────────────────── the history family ─────────────────────────────

/// One committed WAL transaction of the family.
#[derive(Clone, Copy, Debug, PartialEq, Eq, PartialOrd, Ord, Hash)]
pub enum Tx {
    /// submission acceptance for label a/b
    Sub(u8),
    /// scheduler tick (receipt + correlation) deciding submission a/b — needs `Sub` of the label earlier
    Tick(u8),
    /// retained reading k: one retained-material record + one reading reference.
    /// k=0 "x"; k=1 "y" (other bytes, other coordinate); k=2 "z" (SAME bytes as x, other
    /// coordinate); k=3 "w" (SAME coordinate as x, other bytes)
    Read(u8),
}

impl Tx {
    fn render(&self) -> String {
        match self {
            Tx::Sub(l) => format!("S{}", (b'a' + l) as char),
            Tx::Tick(l) => format!("T{}", (b'a' + l) as char),
            Tx::Read(k) => format!("R{}", ["x", "y", "z", "w"][*k as usize]),
        }
    }
}

#[derive(Clone, Debug, PartialEq, Eq)]
pub struct History {
    pub txs: Vec<Tx>,
    /// rotate the segment after the transactions with these indices (never after the last)
    pub rotate_after: Vec<usize>,
}

impl History {
    pub fn render(&self) -> String {
        let mut s = String::new();
        for (i, t) in self.txs.iter().enumerate() {
            if i > 0 {
                s.push(' ');
            }
            s.push_str(&t.render());
            if self.rotate_after.contains(&i) {
                s.push_str(" |rotate|");
            }
        }
        s
    }
    pub fn parse(s: &str) -> Option<History> {
        let mut txs = Vec::new();
        let mut rot = Vec::new();
        for tok in s.split_whitespace() {
            if tok == "|rotate|" {
                rot.push(txs.len().checked_sub(1)?);
                continue;
            }
            let b = tok.as_bytes();
            if b.len() != 2 {
                return None;
            }
            txs.push(match b[0] {
                b'S' => Tx::Sub(b[1].checked_sub(b'a')?),
                b'T' => Tx::Tick(b[1].checked_sub(b'a')?),
                b'R' => Tx::Read(match b[1] {
                    b'x' => 0,
                    b'y' => 1,
                    b'z' => 2,
                    b'w' => 3,
                    _ => return None,
                }),
                _ => return None,
            });
        }
        Some(History {
            txs,
            rotate_after: rot,
        })
    }
}

/// All valid sequences (no repetition, a tick only after its submission) of length 1..=max_len over
/// `alphabet`, each with every subset of rotation points.
pub fn family(alphabet: &[Tx], max_len: usize) -> Vec<History> {
    fn rec(alphabet: &[Tx], max_len: usize, cur: &mut Vec<Tx>, out: &mut Vec<Vec<Tx>>) {
        if !cur.is_empty() {
            out.push(cur.clone());
        }
        if cur.len() == max_len {
            return;
        }
        for t in alphabet {
            if cur.contains(t) {
                continue;
            }
            if let Tx::Tick(l) = t {
                if !cur.contains(&Tx::Sub(*l)) {
                    continue;
                }
            }
            cur.push(*t);
            rec(alphabet, max_len, cur, out);
            cur.pop();
        }
    }
    let mut seqs = Vec::new();
    rec(alphabet, max_len, &mut Vec::new(), &mut seqs);
    seqs.sort_by(|a, b| (a.len(), a).cmp(&(b.len(), b)));
    let mut out = Vec::new();
    for s in seqs {
        let gaps = s.len() - 1;
        for mask in 0..(1u32 << gaps) {
            let rotate_after = (0..gaps).filter(|g| mask >> g & 1 == 1).collect();
            out.push(History {
                txs: s.clone(),
                rotate_after,
            });
        }
    }
    out
}

// ───────────────────────────── source records ─────────────────────────────

fn acceptance(l: u8) -> SubmissionAcceptanceRecord {
    let label = format!("c20:{}", (b'a' + l) as char);
    SubmissionAcceptanceRecord {
        submission_id: digest(&format!("submission:{label}")),
        canonical_envelope_digest: digest(&format!("envelope:{label}")),
        idempotency_key_digest: if l == 1 {
            Some(digest(&format!("idempotency:{label}")))
        } else {
            None
        },
        acceptance_evidence_digest: digest(&format!("accepted-evidence:{label}")),
    }
}

fn receipt_ref(l: u8) -> CausalTickReceiptRef {
    let label = format!("c20:{}", (b'a' + l) as char);
    CausalTickReceiptRef {
        worldline_id: WorldlineId::from_bytes(digest(&format!("worldline:{label}"))),
        worldline_tick_after: WorldlineTick::from_raw(1 + u64::from(l)),
        commit_global_tick: GlobalTick::from_raw(1 + u64::from(l)),
        commit_hash: digest(&format!("commit:{label}")),
        submission_id: digest(&format!("submission:{label}")),
        ticket_digest: digest(&format!("ticket:{label}")),
        receipt_content_digest: digest(&format!("receipt:{label}")),
    }
}

fn receipt(l: u8) -> TickReceiptRecord {
    TickReceiptRecord {
        receipt_ref: receipt_ref(l),
        decision: if l == 0 {
            WalTickDecision::Applied
        } else {
            WalTickDecision::RejectedFootprintConflict
        },
    }
}

fn correlation(l: u8) -> WalReceiptCorrelationRecord {
    WalReceiptCorrelationRecord {
        receipt_ref: receipt_ref(l),
        causal_parent_receipts: Vec::new(),
    }
}

pub fn reading_payload(k: u8) -> Vec<u8> {
    match k {
        0 | 2 => b"c20 retained reading payload X".to_vec(),
        1 => b"c20 retained reading payload Y (other)".to_vec(),
        _ => b"c20 retained reading payload W!".to_vec(),
    }
}

fn reading_coordinate(k: u8) -> Hash {
    match k {
        0 | 3 => digest("coordinate:c20:x"),
        1 => digest("coordinate:c20:y"),
        _ => digest("coordinate:c20:z"),
    }
}

fn material(k: u8) -> RetainedMaterialRecord {
    RetainedMaterialRecord {
        material_digest: blake3::hash(&reading_payload(k)).into(),
        semantic_coordinate_digest: reading_coordinate(k),
        kind: RetainedMaterialKind::ReadingPayload,
        posture: EvidenceMaterialPosture::Present,
    }
}

fn reading(k: u8) -> ReadingRefRecord {
    ReadingRefRecord {
        reading_id: digest(&format!("reading:c20:{k}")),
        semantic_coordinate_digest: reading_coordinate(k),
        payload_digest: blake3::hash(&reading_payload(k)).into(),
        envelope_digest: digest(&format!("reading-envelope:c20:{k}")),
        posture: EvidenceMaterialPosture::Present,
    }
}

fn epoch_id() -> WriterEpochId {
    WriterEpochId::from_hash(digest("c20:epoch:1"))
}

fn builder(
    label: &str,
    segment: u64,
    first_lsn: Lsn,
    authority: WalAppendAuthority,
    kind: WalTransactionKind,
) -> WalTransactionBuilder {
    WalTransactionBuilder::new(
        epoch_id(),
        WalSegmentId::from_raw(segment),
        WalTransactionId::from_hash(digest(&format!("tx:{label}"))),
        kind,
        authority,
        first_lsn,
        digest("previous-frame"),
        digest("previous-commit"),
        WalDurabilityMode::Buffered,
        PayloadCodecId::from_hash(digest("codec")),
        PayloadSchemaId::from_hash(digest("schema")),
        1,
        1,
        digest("domain"),
    )
}

fn frontier(kind: AffectedFrontierKind, label: &str) -> AffectedFrontier {
    AffectedFrontier {
        kind,
        before_digest: digest(&format!("{label}:before")),
        after_digest: digest(&format!("{label}:after")),
    }
}

fn transaction(tx: Tx, segment: u64, first_lsn: Lsn) -> Result<WalCommittedTransaction, String> {
    let label = tx.render();
    match tx {
        Tx::Sub(l) => build_submission_acceptance_transaction(
            builder(
                &label,
                segment,
                first_lsn,
                WalAppendAuthority::SubmissionIntake,
                WalTransactionKind::SubmissionIntake,
            ),
            acceptance(l),
            vec![frontier(AffectedFrontierKind::SubmissionQueue, &label)],
        ),
        Tx::Tick(l) => build_tick_transaction(
            builder(
                &label,
                segment,
                first_lsn,
                WalAppendAuthority::TrustedScheduler,
                WalTransactionKind::SchedulerTick,
            ),
            receipt(l),
            correlation(l),
            digest(&format!("state-delta:{label}")),
            vec![
                frontier(AffectedFrontierKind::RuntimeState, &format!("state:{label}")),
                frontier(AffectedFrontierKind::ReceiptIndex, &format!("receipt:{label}")),
            ],
        ),
        Tx::Read(k) => build_retained_reading_transaction(
            builder(
                &label,
                segment,
                first_lsn,
                WalAppendAuthority::TrustedScheduler,
                WalTransactionKind::SchedulerTick,
            ),
            &[material(k)],
            reading(k),
            vec![frontier(AffectedFrontierKind::ReadingIndex, &label)],
        ),
    }
    .map_err(|e| format!("build {label}: {e:?}"))
}

/// A history written to a real filesystem WAL, recovered and projected.
pub struct Built {
    pub history: History,
    pub root: WalRoot,
    pub segments: Vec<(WalSegmentId, Vec<u8>)>,
    pub acceptances: Vec<SubmissionAcceptanceRecord>,
    pub receipts: Vec<TickReceiptRecord>,
    pub correlations: Vec<WalReceiptCorrelationRecord>,
    pub materials: Vec<RetainedMaterialRecord>,
    pub readings: Vec<ReadingRefRecord>,
    pub payloads: Vec<WscSelfContainedRetainedMaterial>,
}

impl Built {
    fn records(&self) -> WscWalCausalHistoryRecords<'_> {
        WscWalCausalHistoryRecords {
            retained_materials: &self.materials,
            reading_refs: &self.readings,
            accepted_submissions: &self.acceptances,
            receipts: &self.receipts,
            correlations: &self.correlations,
            causal_anchors: &[],
        }
    }
    fn segment_materials(&self) -> Vec<WscSelfContainedWalSegmentMaterial> {
        self.segments
            .iter()
            .map(|(id, b)| WscSelfContainedWalSegmentMaterial {
                segment_id: *id,
                segment_bytes: b.clone(),
            })
            .collect()
    }
}

pub fn build(history: &History, dir: &Path) -> Result<Built, String> {
    let _ = std::fs::remove_dir_all(dir);
    std::fs::create_dir_all(dir).map_err(|e| e.to_string())?;
    let e = |x: &dyn std::fmt::Debug| format!("{x:?}");
    let mut store = FilesystemWalStore::open(dir, WalSegmentId::from_raw(1)).map_err(|x| e(&x))?;
    let writer_epoch = store
        .acquire_writer_epoch(WriterEpochRequest {
            epoch_id: epoch_id(),
            storage_fencing_token: digest("c20:fencing"),
            process_identity: digest("c20:process"),
            host_identity: digest("c20:host"),
            started_at_lsn: Lsn::from_raw(0),
            previous_epoch_id: None,
            previous_epoch_final_commit_digest: None,
            lease_or_lock_evidence: digest("c20:lease"),
        })
        .map_err(|x| e(&x))?;
    let mut segment = 1u64;
    let mut lsn = 0u64;
    let mut b = Built {
        history: history.clone(),
        root: WalRoot {
            root_digest: [0; 32],
            writer_epochs: vec![],
            segments: vec![],
            recovery_certificate: None,
        },
        segments: vec![],
        acceptances: vec![],
        receipts: vec![],
        correlations: vec![],
        materials: vec![],
        readings: vec![],
        payloads: vec![],
    };
    let mut last_commit = None;
    for (i, tx) in history.txs.iter().enumerate() {
        let t = transaction(*tx, segment, Lsn::from_raw(lsn))?;
        lsn = t.commit.last_lsn.as_u64() + 1;
        last_commit = Some((t.commit.last_lsn, t.commit.commit_digest));
        store.append_transaction(t).map_err(|x| format!("append {}: {x:?}", tx.render()))?;
        match tx {
            Tx::Sub(l) => b.acceptances.push(acceptance(*l)),
            Tx::Tick(l) => {
                b.receipts.push(receipt(*l));
                b.correlations.push(correlation(*l));
            }
            Tx::Read(k) => {
                b.materials.push(material(*k));
                b.readings.push(reading(*k));
                let m = WscSelfContainedRetainedMaterial {
                    material: material(*k),
                    material_bytes: reading_payload(*k),
                };
                if !b.payloads.iter().any(|p| p.material.material_digest == m.material.material_digest) {
                    b.payloads.push(m);
                }
            }
        }
        if history.rotate_after.contains(&i) {
            store.rotate_segment(epoch_id()).map_err(|x| format!("rotate: {x:?}"))?;
            segment += 1;
        }
    }
    store
        .seal_segment(epoch_id(), WalSegmentId::from_raw(segment))
        .map_err(|x| format!("seal: {x:?}"))?;
    let (last_lsn, last_digest) = last_commit.ok_or("empty history")?;
    store
        .publish_manifest(
            epoch_id(),
            WalManifest {
                manifest_digest: digest("c20:manifest"),
                last_committed_lsn: Some(last_lsn),
                last_commit_digest: Some(last_digest),
                sealed_segment_count: segment,
            },
        )
        .map_err(|x| format!("manifest: {x:?}"))?;
    for s in 1..=segment {
        let id = WalSegmentId::from_raw(s);
        let bytes = std::fs::read(canonical_segment_path(dir, id)).map_err(|x| format!("read segment {s}: {x}"))?;
        b.segments.push((id, bytes));
    }
    let report = recover_filesystem_store(dir, RecoveryAccessMode::ReadOnly).map_err(|x| format!("recover: {x:?}"))?;
    let certificate = build_recovery_certificate(
        &report,
        None,
        0,
        digest("c20:frontier"),
        digest("c20:indexes"),
    );
    let we = WalWriterEpoch::from_writer_epoch(&writer_epoch);
    let projection =
        project_filesystem_wal_recovery(dir, &report, std::slice::from_ref(&we), Some(&certificate));
    b.root = projection
        .root
        .ok_or_else(|| format!("projection {:?}: {:?}", projection.posture, projection.obstructions))?;
    if b.root.segments.len() != b.segments.len() {
        return Err(format!(
            "root has {} segments, {} files",
            b.root.segments.len(),
            b.segments.len()
        ));
    }
    drop(store);
    Ok(b)
}

// ───────────────────────────── CAS ports ─────────────────────────────

/// The real `MemoryTier` behind the validation port (as the repo's tests do).
struct MemPort<'a>(&'a MemoryTier);
impl WscCasBlobStorePort for MemPort<'_> {
    fn cas_blob_bytes(&self, content_hash: &Hash) -> Option<Vec<u8>> {
        self.0.get(&BlobHash::from_bytes(*content_hash)).map(|b| b.to_vec())
    }
}

/// The real `DiskTier` behind the validation port; an integrity error on read is absence.
struct DiskPort<'a>(&'a DiskTier);
impl WscCasBlobStorePort for DiskPort<'_> {
    fn cas_blob_bytes(&self, content_hash: &Hash) -> Option<Vec<u8>> {
        match self.0.get(&BlobHash::from_bytes(*content_hash)) {
            Ok(Some(b)) => Some(b.to_vec()),
            _ => None,
        }
    }
}

/// A plain map port (used for the lying / withholding variants).
struct MapPort(BTreeMap<Hash, Vec<u8>>);
impl WscCasBlobStorePort for MapPort {
    fn cas_blob_bytes(&self, content_hash: &Hash) -> Option<Vec<u8>> {
        self.0.get(content_hash).cloned()
    }
}

// ───────────────────────────── helpers ─────────────────────────────

/// Short, stable name of an error: outer variant plus the interesting inner variant.
fn err_kind<E: std::fmt::Debug>(e: &E) -> String {
    let s = format!("{e:?}");
    let ident = |t: &str| -> String {
        t.chars().take_while(|c| c.is_ascii_alphanumeric() || *c == '_').collect()
    };
    let mut out = ident(&s);
    if let Some(p) = s.find("error: ") {
        let inner: String = s[p + 7..]
            .chars()
            .take_while(|c| c.is_ascii_alphanumeric() || *c == '_' || *c == '(')
            .collect();
        out.push(':');
        out.push_str(inner.trim_end_matches('('));
        if let Some(q) = s[p + 7..].find('(') {
            let inner2 = ident(&s[p + 7 + q + 1..]);
            if !inner2.is_empty() {
                out.push(':');
                out.push_str(&inner2);
            }
        }
    } else if let Some(p) = s.find("kind: ") {
        out.push(':');
        out.push_str(&ident(&s[p + 6..]));
    }
    out
}

fn sorted_debug<T: std::fmt::Debug>(v: &[T]) -> Vec<String> {
    let mut o: Vec<String> = v.iter().map(|x| format!("{x:?}")).collect();
    o.sort();
    o
}

#[derive(Clone, Copy, PartialEq, Eq, Debug)]
pub enum Profile {
    RefOnly,
    SelfContained,
    CasAddressed,
}
impl Profile {
    fn name(&self) -> &'static str {
        match self {
            Profile::RefOnly => "ref-only",
            Profile::SelfContained => "self-contained",
            Profile::CasAddressed => "cas-addressed",
        }
    }
}

/// Largest single allocation request since the last reset (child process only; see `main.rs`).
pub static MAX_ALLOC_REQUEST: AtomicUsize = AtomicUsize::new(0);
const ALLOC_ALARM: usize = 64 << 20;

/// Context of one batch of jobs running in a child process (single-threaded).  Everything it
/// learns is written to stdout as one line per fact, immediately, so that nothing is lost when
/// the process dies; see `run_child` for the protocol.
struct Ctx {
    hist: RefCell<String>,
    hist_index: Cell<usize>,
    /// faults `< resume_after` were evaluated by an earlier child of this batch, fault
    /// `== resume_after` killed it
    resume_after: i64,
    /// index of the next fault to start
    seq: Cell<u64>,
}

#[derive(Clone, Copy, PartialEq, Eq)]
enum Oracle {
    /// withheld / corrupted referenced material: the import must be a typed error
    MustRefuse,
    /// arbitrary envelope damage: typed error, or an import equal to the honest one
    ErrOrSame,
}

/// What one fault evaluation produced.
enum Got {
    /// typed refusal before the import (exporter / envelope re-wrap / envelope decode)
    Stage(String),
    Import(Verdict),
    Machinery(String),
    /// the code under test panicked instead of returning a typed error
    Panicked(String),
}

impl Ctx {
    /// Print one protocol line unless an earlier child of this batch already printed it.
    fn emit(&self, line: String) {
        if (self.seq.get() as i64) > self.resume_after {
            println!("{line}");
        }
    }
    fn eval(&self, n: u64) {
        self.emit(format!("E\t{n}"));
    }
    fn outcome(&self, profile: Profile, fault: &str, result: &str) {
        self.emit(format!("O\twsc/{}/{fault}→{result}", profile.name()));
    }
    fn counter(&self, name: &str, n: u64) {
        self.emit(format!("C\t{name}\t{n}"));
    }
    fn machinery(&self, msg: &str) {
        self.emit(format!("M\twsc [{}]: {}", self.hist.borrow(), msg.replace(['\n', '\t'], " ")));
    }
    fn guard(&self, name: &str, ok: bool) {
        self.emit(format!("G\t{name}\t{}", u8::from(ok)));
    }
    fn sample(&self, v: Value) {
        self.emit(format!("S\t{v}"));
    }
    fn export_ok(&self) {
        self.emit("X\t1".to_string());
    }
    fn violation(&self, sig: String, fault: Value, extra: Value) {
        let order = format!("{fault}");
        self.emit(format!(
            "V\t{}",
            json!({
                "sig": sig, "hist_index": self.hist_index.get(), "order": order,
                "detail": {
                    "case": {"part": "wsc", "history": *self.hist.borrow(), "fault": fault},
                    "observed": extra,
                },
            })
        ));
    }

    /// Evaluate one fault: announce it (so the parent can attribute a process death), run it,
    /// apply the oracle.
    fn fault(&self, profile: Profile, kind: &str, oracle: Oracle, fault: Value, f: impl FnOnce() -> Got) {
        let seq = self.seq.get();
        self.seq.set(seq + 1);
        if (seq as i64) < self.resume_after {
            return; // evaluated (and reported) by an earlier child of this batch
        }
        if (seq as i64) == self.resume_after {
            // the previous child died here; the parent has recorded the violation
            self.eval(1);
            self.outcome(profile, kind, "PROCESS-ABORTED");
            return;
        }
        println!("B\t{seq}\t{}\t{}\t{kind}\t{fault}", self.hist_index.get(), profile.name());
        MAX_ALLOC_REQUEST.store(0, Ordering::Relaxed);
        let got = match mc::catch(f) {
            Ok(g) => g,
            Err(msg) => Got::Panicked(msg),
        };
        let req = MAX_ALLOC_REQUEST.load(Ordering::Relaxed);
        self.eval(1);
        if req > ALLOC_ALARM {
            self.outcome(profile, kind, "ALLOCATION-REQUEST-OVER-64MiB");
            self.violation(
                format!("wsc:{}:{kind}-huge-alloc:over-64MiB", profile.name()),
                fault.clone(),
                json!({"largest_single_allocation_request_bytes": req}),
            );
        }
        match got {
            Got::Machinery(m) => self.machinery(&m),
            Got::Panicked(msg) => {
                let short: String = msg
                    .chars()
                    .map(|c| if c.is_ascii_alphanumeric() { c } else { '-' })
                    .take(40)
                    .collect();
                self.outcome(profile, kind, &format!("PANIC:{short}"));
                let sig = if msg.contains("capacity overflow") {
                    format!("wsc:{}:{kind}-huge-alloc:capacity-panic", profile.name())
                } else {
                    format!("wsc:{}:{kind}-panics:{short}", profile.name())
                };
                self.violation(sig, fault, json!(format!("panic instead of a typed error: {msg}")));
            }
            Got::Stage(s) => self.outcome(profile, &format!("{kind}@before-import"), &s),
            Got::Import(Verdict::Err(k)) => {
                // two concrete faults with their verdicts go into the evidence samples
                if fault.get("pos").and_then(|x| x.as_u64()) == Some(100)
                    && fault.get("bit").and_then(|x| x.as_u64()) == Some(0)
                    && (kind == "corrupt-embedded-segment-via-exporter" || kind == "corrupt-cas-blob-lying-store")
                    && self.hist.borrow().contains("|rotate| Ta Rx")
                    && self.hist.borrow().starts_with("Sa ")
                {
                    self.sample(json!({"history": *self.hist.borrow(), "fault": fault, "import_result": format!("Err({k})")}));
                }
                if oracle == Oracle::MustRefuse {
                    self.counter(&format!("wsc-refused/{}/{kind}", profile.name()), 1);
                }
                self.outcome(profile, kind, &format!("import-Err:{k}"));
            }
            Got::Import(Verdict::Same) if oracle == Oracle::ErrOrSame => {
                self.outcome(profile, kind, "import-Ok-identical");
            }
            Got::Import(v) => {
                let (how, text) = match v {
                    Verdict::Different(d) => ("different-import", format!("import Ok with different content: {d}")),
                    _ => (
                        "identical-import",
                        "import Ok and equal to the honest import although the referenced material is missing/corrupt".to_string(),
                    ),
                };
                self.outcome(profile, kind, &format!("ACCEPTED-{how}"));
                let sig = match oracle {
                    Oracle::MustRefuse => format!("wsc:{}:{kind}-accepted", profile.name()),
                    Oracle::ErrOrSame => format!("wsc:{}:{kind}-ok-different", profile.name()),
                };
                self.violation(sig, fault, json!(text));
            }
        }
    }
}

/// Classify a faulted import: `Err` (typed refusal), `Same` (equal to the honest import) or
/// `Different` (accepted with other content).
enum Verdict {
    Err(String),
    Same,
    Different(String),
}

fn verdict<I: PartialEq + std::fmt::Debug, E: std::fmt::Debug>(res: Result<I, E>, honest: &I) -> Verdict {
    match res {
        Err(e) => Verdict::Err(err_kind(&e)),
        Ok(i) if &i == honest => Verdict::Same,
        Ok(i) => {
            let a = format!("{i:?}");
            let b = format!("{honest:?}");
            let p = a.bytes().zip(b.bytes()).position(|(x, y)| x != y).unwrap_or(0);
            let lo = p.saturating_sub(80);
            Verdict::Different(format!(
                "…{}… vs honest …{}…",
                a.get(lo..(p + 80).min(a.len())).unwrap_or(""),
                b.get(lo..(p + 80).min(b.len())).unwrap_or("")
            ))
        }
    }
}

/// Bits to flip at byte `pos`: the listed bits, or — for the sentinel `[255]` — the single bit
/// `pos % 8` (one flip per byte, rotating through the bit positions).
fn bits_at(bits: &[u8], pos: usize) -> Vec<u8> {
    if bits == [255] {
        vec![(pos % 8) as u8]
    } else {
        bits.to_vec()
    }
}

fn flip(bytes: &[u8], pos: usize, bit: u8) -> Vec<u8> {
    let mut v = bytes.to_vec();
    v[pos] ^= 1 << bit;
    v
}

fn find_sub(hay: &[u8], needle: &[u8]) -> Option<usize> {
    if needle.is_empty() || needle.len() > hay.len() {
        return None;
    }
    let first = hay.windows(needle.len()).position(|w| w == needle)?;
    // must be unique, otherwise the offset is ambiguous
    if hay[first + 1..].windows(needle.len()).any(|w| w == needle) {
        return None;
    }
    Some(first)
}

// envelope accessors ----------------------------------------------------------------------------

trait Export: Clone {
    fn names() -> &'static [&'static str];
    fn env(&self, i: usize) -> &WscStoreEnvelope;
    fn set_env(&mut self, i: usize, e: WscStoreEnvelope);
}
impl Export for WscRefOnlyWalExport {
    fn names() -> &'static [&'static str] {
        &["projection", "accepted_submission", "receipt_correlation", "causal_anchor", "retention"]
    }
    fn env(&self, i: usize) -> &WscStoreEnvelope {
        [
            &self.projection_envelope,
            &self.accepted_submission_envelope,
            &self.receipt_correlation_envelope,
            &self.causal_anchor_envelope,
            &self.retention_envelope,
        ][i]
    }
    fn set_env(&mut self, i: usize, e: WscStoreEnvelope) {
        *[
            &mut self.projection_envelope,
            &mut self.accepted_submission_envelope,
            &mut self.receipt_correlation_envelope,
            &mut self.causal_anchor_envelope,
            &mut self.retention_envelope,
        ][i] = e;
    }
}
impl Export for WscSelfContainedWalExport {
    fn names() -> &'static [&'static str] {
        &[
            "projection",
            "segment_material",
            "retained_material",
            "accepted_submission",
            "receipt_correlation",
            "causal_anchor",
            "retention",
        ]
    }
    fn env(&self, i: usize) -> &WscStoreEnvelope {
        [
            &self.projection_envelope,
            &self.segment_material_envelope,
            &self.retained_material_envelope,
            &self.accepted_submission_envelope,
            &self.receipt_correlation_envelope,
            &self.causal_anchor_envelope,
            &self.retention_envelope,
        ][i]
    }
    fn set_env(&mut self, i: usize, e: WscStoreEnvelope) {
        *[
            &mut self.projection_envelope,
            &mut self.segment_material_envelope,
            &mut self.retained_material_envelope,
            &mut self.accepted_submission_envelope,
            &mut self.receipt_correlation_envelope,
            &mut self.causal_anchor_envelope,
            &mut self.retention_envelope,
        ][i] = e;
    }
}
impl Export for WscCasAddressedWalExport {
    fn names() -> &'static [&'static str] {
        &[
            "projection",
            "cas_reference",
            "accepted_submission",
            "receipt_correlation",
            "causal_anchor",
            "retention",
        ]
    }
    fn env(&self, i: usize) -> &WscStoreEnvelope {
        [
            &self.projection_envelope,
            &self.cas_reference_envelope,
            &self.accepted_submission_envelope,
            &self.receipt_correlation_envelope,
            &self.causal_anchor_envelope,
            &self.retention_envelope,
        ][i]
    }
    fn set_env(&mut self, i: usize, e: WscStoreEnvelope) {
        *[
            &mut self.projection_envelope,
            &mut self.cas_reference_envelope,
            &mut self.accepted_submission_envelope,
            &mut self.receipt_correlation_envelope,
            &mut self.causal_anchor_envelope,
            &mut self.retention_envelope,
        ][i] = e;
    }
}

/// Flip every byte of envelope `ei`, (a) in the encoded form, (b) in the WSC payload with the
/// envelope digest recomputed (`WscStoreEnvelope::validated`).  Oracle: typed error, or an import
/// equal to the honest one.
fn envelope_flips<X: Export>(
    cx: &Ctx,
    profile: Profile,
    export: &X,
    (ei, lo, hi): (usize, usize, usize),
    bits: &[u8],
    validate: &dyn Fn(&X) -> Verdict,
) {
    let name = X::names()[ei];
    let env = export.env(ei).clone();
    let encoded = env.encode();
    let wsc = env.wsc_bytes().to_vec();
    let total = encoded.len() + wsc.len();
    let in_range = |p: usize| p >= lo && p < hi.min(total);
    cx.counter(
        &format!("wsc/envelope_bytes_flipped/{}/{name}", profile.name()),
        (hi.min(total).saturating_sub(lo)) as u64,
    );
    // (a) encoded form: header fields + payload
    for pos in 0..encoded.len() {
        if !in_range(pos) {
            continue;
        }
        for bit in bits_at(bits, pos) {
            let kind = format!("env-{name}-encoded-flip");
            cx.fault(
                profile,
                &kind,
                Oracle::ErrOrSame,
                json!({"kind": kind, "profile": profile.name(), "envelope": name, "pos": pos, "bit": bit}),
                || match WscStoreEnvelope::decode(&flip(&encoded, pos, bit)) {
                    Err(e) => Got::Stage(format!("decode-Err:{}", err_kind(&e))),
                    Ok(e2) => {
                        let mut x = export.clone();
                        x.set_env(ei, e2);
                        Got::Import(validate(&x))
                    }
                },
            );
        }
    }
    // (b) WSC payload with a recomputed envelope digest
    for pos in 0..wsc.len() {
        if !in_range(encoded.len() + pos) {
            continue;
        }
        for bit in bits_at(bits, pos) {
            let kind = format!("env-{name}-rewrapped-flip");
            cx.fault(
                profile,
                &kind,
                Oracle::ErrOrSame,
                json!({"kind": kind, "profile": profile.name(), "envelope": name, "pos": pos, "bit": bit}),
                || match WscStoreEnvelope::validated(env.record_kind(), *env.basis_digest(), flip(&wsc, pos, bit)) {
                    Err(e) => Got::Stage(format!("rewrap-Err:{}", err_kind(&e))),
                    Ok(e2) => {
                        let mut x = export.clone();
                        x.set_env(ei, e2);
                        Got::Import(validate(&x))
                    }
                },
            );
        }
    }
}

/// A blob-level fault (withheld / corrupted referenced material) must be refused.
fn must_refuse(cx: &Ctx, profile: Profile, fault_kind: &str, fault: Value, f: impl FnOnce() -> Got) {
    cx.fault(profile, fault_kind, Oracle::MustRefuse, fault, f);
}

// ───────────────────────────── units (run in child processes) ─────────────────────────────

#[derive(Clone, Copy, Debug, PartialEq, Eq)]
pub enum Part {
    /// honest round trip, withheld material, (optionally) every byte of every blob flipped
    Main,
    /// every byte of envelope #n flipped; positions [lo, hi) of the concatenation
    /// encoded-form ‖ WSC-payload (chunked so that a child death only repeats a small unit)
    Envelope(usize, usize, usize),
}

#[derive(Clone, Debug)]
pub struct Unit {
    pub hist_index: usize,
    pub history: History,
    pub profile: Profile,
    pub part: Part,
    pub bits: Vec<u8>,
    pub blob_flips: bool,
    /// damage the DiskTier blob file at every byte (otherwise only first and last byte)
    pub disk_flips: bool,
}

impl Unit {
    fn to_json(&self) -> Value {
        json!({
            "hist_index": self.hist_index,
            "history": self.history.render(),
            "profile": self.profile.name(),
            "part": match self.part { Part::Main => -1i64, Part::Envelope(n, _, _) => n as i64 },
            "range": match self.part { Part::Main => json!(null), Part::Envelope(_, lo, hi) => json!([lo, hi]) },
            "bits": self.bits,
            "blob_flips": self.blob_flips,
            "disk_flips": self.disk_flips,
        })
    }
    fn describe(&self) -> String {
        format!("{} / {} / {:?}", self.history.render(), self.profile.name(), self.part)
    }
}

fn check_equal_records(
    cx: &Ctx,
    profile: Profile,
    b: &Built,
    acc: &[SubmissionAcceptanceRecord],
    rec: &[TickReceiptRecord],
    cor: &[WalReceiptCorrelationRecord],
    mats: &[RetainedMaterialRecord],
    reads: &[ReadingRefRecord],
    root_identity: Hash,
) {
    let cmp = |field: &str, got: Vec<String>, want: Vec<String>| {
        if got != want {
            cx.violation(
                format!("wsc:{}:roundtrip-records-differ:{field}", profile.name()),
                json!({"kind": "honest-roundtrip", "profile": profile.name()}),
                json!({"imported": got, "source": want}),
            );
        }
    };
    cmp("accepted_submissions", sorted_debug(acc), sorted_debug(&b.acceptances));
    cmp("receipts", sorted_debug(rec), sorted_debug(&b.receipts));
    cmp("correlations", sorted_debug(cor), sorted_debug(&b.correlations));
    cmp("retained_materials", sorted_debug(mats), sorted_debug(&b.materials));
    cmp("reading_refs", sorted_debug(reads), sorted_debug(&b.readings));
    cmp(
        "root_identity",
        vec![mc::hex(&root_identity)],
        vec![mc::hex(&b.root.identity_digest())],
    );
}

fn roundtrip_failed<E: std::fmt::Debug>(cx: &Ctx, p: Profile, e: &E) {
    cx.outcome(p, "honest-roundtrip", "IMPORT-FAILED");
    cx.violation(
        format!("wsc:{}:roundtrip-import-failed", p.name()),
        json!({"kind": "honest-roundtrip", "profile": p.name()}),
        json!(format!("{e:?}")),
    );
}

/// Body of a child process: one unit, sequential.
fn run_unit(cx: &Ctx, b: &Built, u: &Unit, scratch: &Path) {
    let only_env = match u.part {
        Part::Main => None,
        Part::Envelope(n, lo, hi) => Some((n, lo, hi)),
    };
    let base_sample = json!({
        "history": *cx.hist.borrow(),
        "segments": b.segments.iter().map(|(id, s)| json!({"id": id.as_u64(), "bytes": s.len()})).collect::<Vec<_>>(),
        "records": {"accepted": b.acceptances.len(), "receipts": b.receipts.len(), "correlations": b.correlations.len(),
                    "retained_materials": b.materials.len(), "readings": b.readings.len(),
                    "retained_payload_bytes": b.payloads.iter().map(|p| p.material_bytes.len()).collect::<Vec<_>>()},
    });
    cx.eval(1);
    match u.profile {
        // ── ref-only ─────────────────────────────────────────────────────────────────────────
        Profile::RefOnly => match wsc_ref_only_wal_export(&b.root, b.records()) {
            Err(e) => cx.outcome(u.profile, "honest-export", &format!("export-Err:{}", err_kind(&e))),
            Ok(export) => match validate_wsc_ref_only_wal_export(&export, &b.root) {
                Err(e) => roundtrip_failed(cx, u.profile, &e),
                Ok(honest) => {
                    if only_env.is_none() {
                        cx.export_ok();
                        cx.outcome(u.profile, "honest-roundtrip", "Ok-equal-records");
                        check_equal_records(
                            cx,
                            u.profile,
                            b,
                            &honest.accepted_submissions,
                            &honest.receipts,
                            &honest.correlations,
                            &honest.retention.materials,
                            &honest.retention.readings,
                            honest.root_identity_digest,
                        );
                    }
                    ref_only_faults(cx, b, &export, &honest, u, only_env);
                }
            },
        },
        // ── self-contained ───────────────────────────────────────────────────────────────────
        Profile::SelfContained => {
            match wsc_self_contained_wal_export(&b.root, &b.segment_materials(), &b.payloads, b.records()) {
                Err(e) => cx.outcome(u.profile, "honest-export", &format!("export-Err:{}", err_kind(&e))),
                Ok(export) => match validate_wsc_self_contained_wal_export(&export, &b.root) {
                    Err(e) => roundtrip_failed(cx, u.profile, &e),
                    Ok(honest) => {
                        if only_env.is_none() {
                            cx.export_ok();
                            cx.outcome(u.profile, "honest-roundtrip", "Ok-equal-records");
                            check_equal_records(
                                cx,
                                u.profile,
                                b,
                                &honest.accepted_submissions,
                                &honest.receipts,
                                &honest.correlations,
                                &honest.retention.materials,
                                &honest.retention.readings,
                                honest.root_identity_digest,
                            );
                            if sorted_debug(&honest.retained_payloads) != sorted_debug(&b.payloads) {
                                cx.violation(
                                    "wsc:self-contained:roundtrip-records-differ:retained_payloads".into(),
                                    json!({"kind": "honest-roundtrip", "profile": "self-contained"}),
                                    json!({"imported": sorted_debug(&honest.retained_payloads), "source": sorted_debug(&b.payloads)}),
                                );
                            }
                            let seg_got: Vec<(u64, Hash, usize)> = honest
                                .segment_recoveries
                                .iter()
                                .map(|s| (s.segment_id.as_u64(), s.segment_digest, s.report.transactions.len()))
                                .collect();
                            let seg_want: Vec<(u64, Hash)> =
                                b.root.segments.iter().map(|s| (s.segment_id.as_u64(), s.segment_digest)).collect();
                            let total_tx: usize = seg_got.iter().map(|x| x.2).sum();
                            if seg_got.iter().map(|x| (x.0, x.1)).collect::<Vec<_>>() != seg_want
                                || total_tx != b.history.txs.len()
                            {
                                cx.violation(
                                    "wsc:self-contained:roundtrip-records-differ:segment_recoveries".into(),
                                    json!({"kind": "honest-roundtrip", "profile": "self-contained"}),
                                    json!(format!("{seg_got:?} vs {seg_want:?}; txs {total_tx} vs {}", b.history.txs.len())),
                                );
                            }
                            let sizes: BTreeMap<String, usize> = WscSelfContainedWalExport::names()
                                .iter()
                                .enumerate()
                                .map(|(i, n)| (n.to_string(), export.env(i).encode().len()))
                                .collect();
                            if b.history.txs.len() == 3 {
                                let mut sm = base_sample.clone();
                                sm["self_contained_envelope_bytes"] = json!(sizes);
                                cx.sample(sm);
                            }
                        }
                        self_contained_faults(cx, b, &export, &honest, u, only_env);
                    }
                },
            }
        }
        // ── CAS-addressed ────────────────────────────────────────────────────────────────────
        // The CAS is the real MemoryTier (segments by `put`, retained payloads through the real
        // RetainedBlobIndex, as the repository's tests do) and, in parallel, a real DiskTier.
        Profile::CasAddressed => {
            let mut mem = MemoryTier::new();
            let disk_dir = scratch.join("cas");
            let _ = std::fs::remove_dir_all(&disk_dir);
            let disk = match DiskTier::open(&disk_dir) {
                Ok(d) => d,
                Err(e) => {
                    cx.machinery(&format!("DiskTier::open: {e}"));
                    return;
                }
            };
            let mut index = RetainedBlobIndex::default();
            let mut seg_refs = Vec::new();
            let mut blobs: Vec<(String, Hash, Vec<u8>)> = Vec::new(); // (what, content hash, bytes)
            for (id, bytes) in &b.segments {
                let h = *mem.put(bytes).as_bytes();
                if disk.put(bytes).is_err() {
                    cx.machinery("DiskTier::put failed");
                }
                seg_refs.push(WscCasAddressedWalSegmentMaterial {
                    segment_id: *id,
                    content_hash: h,
                    semantic_coordinate_digest: digest(&format!("c20:segment:{}", id.as_u64())),
                    byte_len: bytes.len() as u64,
                });
                blobs.push((format!("segment-{}", id.as_u64()), h, bytes.clone()));
            }
            let mut ret_refs = Vec::new();
            for m in &b.materials {
                let bytes = b
                    .payloads
                    .iter()
                    .find(|p| p.material.material_digest == m.material_digest)
                    .map(|p| p.material_bytes.clone())
                    .unwrap_or_default();
                let coordinate = SemanticBlobCoordinate {
                    namespace: "echo:verif-c20-wsc".to_owned(),
                    schema_hash_hex: "00".repeat(32),
                    artifact_hash_hex: "11".repeat(32),
                    role: RetainedBlobRole::ReadingPayload,
                    semantic_digest: m.semantic_coordinate_digest,
                };
                match index.retain(&mut mem, coordinate, &bytes) {
                    Ok(d) => {
                        let _ = disk.put(&bytes);
                        ret_refs.push(WscCasAddressedRetainedMaterialReference {
                            material_kind: m.kind,
                            content_hash: *d.content_hash.as_bytes(),
                            semantic_coordinate_digest: d.coordinate.semantic_digest,
                            byte_len: d.byte_len,
                        });
                        if !blobs.iter().any(|x| x.1 == *d.content_hash.as_bytes()) {
                            blobs.push((
                                format!("retained-{}", mc::hex(&m.semantic_coordinate_digest[..3])),
                                *d.content_hash.as_bytes(),
                                bytes,
                            ));
                        }
                    }
                    // equal coordinate + different content: refused by the semantic index (typed)
                    Err(e) => cx.outcome(u.profile, "retain-into-cas", &format!("Err:{}", err_kind(&e))),
                }
            }
            match wsc_cas_addressed_wal_export(&b.root, &seg_refs, &ret_refs, b.records()) {
                Err(e) => cx.outcome(u.profile, "honest-export", &format!("export-Err:{}", err_kind(&e))),
                Ok(export) => {
                    let via_mem = validate_wsc_cas_addressed_wal_export(&export, &b.root, &MemPort(&mem));
                    let via_disk = validate_wsc_cas_addressed_wal_export(&export, &b.root, &DiskPort(&disk));
                    match (via_mem, via_disk) {
                        (Ok(honest), Ok(h2)) => {
                            if only_env.is_none() {
                                cx.export_ok();
                                cx.outcome(u.profile, "honest-roundtrip", "Ok-equal-records");
                                if honest != h2 {
                                    cx.violation(
                                        "wsc:cas-addressed:import-differs-between-memory-and-disk-cas".into(),
                                        json!({"kind": "honest-roundtrip", "profile": "cas-addressed"}),
                                        json!("imports differ"),
                                    );
                                }
                                check_equal_records(
                                    cx,
                                    u.profile,
                                    b,
                                    &honest.accepted_submissions,
                                    &honest.receipts,
                                    &honest.correlations,
                                    &honest.retention.materials,
                                    &honest.retention.readings,
                                    honest.root_identity_digest,
                                );
                                if sorted_debug(&honest.cas_references.retained_materials) != sorted_debug(&ret_refs) {
                                    cx.violation(
                                        "wsc:cas-addressed:roundtrip-records-differ:cas_references".into(),
                                        json!({"kind": "honest-roundtrip", "profile": "cas-addressed"}),
                                        json!({"imported": sorted_debug(&honest.cas_references.retained_materials), "source": sorted_debug(&ret_refs)}),
                                    );
                                }
                            }
                            cas_faults(cx, b, &export, &honest, &seg_refs, &ret_refs, &blobs, &disk, &disk_dir, u, only_env);
                        }
                        (a, d) => roundtrip_failed(
                            cx,
                            u.profile,
                            &format!("memory: {:?} / disk: {:?}", a.err().map(|e| err_kind(&e)), d.err().map(|e| err_kind(&e))),
                        ),
                    }
                }
            }
        }
    }
}

// ───────────────────────────── ref-only faults ─────────────────────────────

fn ref_only_faults(
    cx: &Ctx,
    b: &Built,
    export: &WscRefOnlyWalExport,
    honest: &WscRefOnlyWalImport,
    u: &Unit,
    only_env: Option<(usize, usize, usize)>,
) {
    let p = Profile::RefOnly;
    let validate = |x: &WscRefOnlyWalExport| verdict(validate_wsc_ref_only_wal_export(x, &b.root), honest);
    if let Some(range) = only_env {
        envelope_flips(cx, p, export, range, &u.bits, &validate);
        return;
    }
    // every field of every external segment dependency altered individually
    for (i, dep) in export.segment_dependencies.iter().enumerate() {
        let mut variants: Vec<(&str, warp_core::wsc::WscRefOnlyWalSegmentDependency)> = Vec::new();
        let mut d = dep.clone();
        d.segment_digest[0] ^= 1;
        variants.push(("segment_digest", d));
        let mut d = dep.clone();
        d.segment_identity_digest[31] ^= 0x80;
        variants.push(("segment_identity_digest", d));
        let mut d = dep.clone();
        d.first_lsn = Lsn::from_raw(dep.first_lsn.as_u64() + 1);
        variants.push(("first_lsn", d));
        let mut d = dep.clone();
        d.last_lsn = Lsn::from_raw(dep.last_lsn.as_u64() + 1);
        variants.push(("last_lsn", d));
        let mut d = dep.clone();
        d.segment_id = WalSegmentId::from_raw(dep.segment_id.as_u64() + 7);
        variants.push(("segment_id", d));
        let mut d = dep.clone();
        if let Some(a) = d.commit_anchor_digests.first_mut() {
            a[5] ^= 4;
        }
        variants.push(("commit_anchor_digest", d));
        let mut d = dep.clone();
        d.commit_anchor_digests.pop();
        variants.push(("commit_anchor_dropped", d));
        for (field, d) in variants {
            let mut x = export.clone();
            x.segment_dependencies[i] = d;
            must_refuse(
                cx,
                p,
                "altered-segment-dependency",
                json!({"kind": "altered-segment-dependency", "profile": p.name(), "dependency": i, "field": field}),
                || Got::Import(validate(&x)),
            );
        }
        // dependency withheld
        let mut x = export.clone();
        x.segment_dependencies.remove(i);
        must_refuse(
            cx,
            p,
            "withheld-segment-dependency",
            json!({"kind": "withheld-segment-dependency", "profile": p.name(), "dependency": i}),
            || Got::Import(validate(&x)),
        );
    }
}

// ───────────────────────────── self-contained faults ─────────────────────────────

fn retained_payload_bytes(m: &WscSelfContainedRetainedMaterial) -> Vec<u8> {
    let rec = m.material.to_payload_bytes();
    let mut out = Vec::new();
    out.extend_from_slice(&(rec.len() as u64).to_le_bytes());
    out.extend_from_slice(&rec);
    out.extend_from_slice(&(m.material_bytes.len() as u64).to_le_bytes());
    out.extend_from_slice(&m.material_bytes);
    out
}

/// What an attacker who knows the (public) format computes for a forged retained-material envelope:
/// the basis digest over the canonically ordered material payloads.
fn forged_retained_basis(materials: &[WscSelfContainedRetainedMaterial]) -> Hash {
    let mut ms = materials.to_vec();
    ms.sort_by_key(|m| m.material.material_digest);
    let mut h = blake3::Hasher::new();
    h.update(b"echo:wsc_store:self_contained_retained_basis:v1\0");
    for m in &ms {
        h.update(&retained_payload_bytes(m));
    }
    h.finalize().into()
}

fn segment_payload_bytes(id: WalSegmentId, bytes: &[u8]) -> Vec<u8> {
    let mut out = Vec::new();
    out.extend_from_slice(&id.as_u64().to_le_bytes());
    out.extend_from_slice(&(bytes.len() as u64).to_le_bytes());
    out.extend_from_slice(bytes);
    out
}

fn forged_segment_basis(segments: &[(WalSegmentId, Vec<u8>)]) -> Hash {
    let mut ss = segments.to_vec();
    ss.sort_by_key(|s| s.0);
    let mut h = blake3::Hasher::new();
    h.update(b"echo:wsc_store:self_contained_wal_segment_basis:v1\0");
    for (id, bytes) in &ss {
        h.update(&segment_payload_bytes(*id, bytes));
    }
    h.finalize().into()
}

fn self_contained_faults(
    cx: &Ctx,
    b: &Built,
    export: &WscSelfContainedWalExport,
    honest: &WscSelfContainedWalImport,
    u: &Unit,
    only_env: Option<(usize, usize, usize)>,
) {
    let p = Profile::SelfContained;
    let validate =
        |x: &WscSelfContainedWalExport| verdict(validate_wsc_self_contained_wal_export(x, &b.root), honest);
    if let Some(range) = only_env {
        envelope_flips(cx, p, export, range, &u.bits, &validate);
        return;
    }
    let empty = WscWalCausalHistoryRecords::empty;

    // sanity of the forging recipe: the honest envelopes must carry the basis we compute
    let seg_basis_ok = *export.segment_material_envelope.basis_digest() == forged_segment_basis(&b.segments);
    let ret_basis_ok = *export.retained_material_envelope.basis_digest() == forged_retained_basis(&b.payloads);
    cx.guard("wsc_forging_recipe_matches_honest_basis_digests", seg_basis_ok && ret_basis_ok);

    // ── each embedded segment withheld ──
    for (si, (id, _)) in b.segments.iter().enumerate() {
        let fault = json!({"kind": "withheld-embedded-segment", "profile": p.name(), "segment": id.as_u64()});
        let mut fewer = b.segment_materials();
        fewer.remove(si);
        // (i) the real exporter asked to leave it out
        must_refuse(cx, p, "withheld-embedded-segment", fault.clone(), || {
            match wsc_self_contained_wal_export(&b.root, &fewer, &b.payloads, b.records()) {
                Err(e) => Got::Stage(format!("export-Err:{}", err_kind(&e))),
                Ok(x) => Got::Import(validate(&x)),
            }
        });
        // (ii) a well-formed segment envelope that lacks it (built by the real exporter for the root
        //      without that segment) spliced into the honest export
        let mut sub_root = b.root.clone();
        sub_root.segments.retain(|s| s.segment_id != *id);
        must_refuse(cx, p, "withheld-embedded-segment", fault, || {
            match wsc_self_contained_wal_export(&sub_root, &fewer, &[], empty()) {
                Err(e) => Got::Machinery(format!("sub-root export failed: {}", err_kind(&e))),
                Ok(sub) => {
                    let mut x = export.clone();
                    x.segment_material_envelope = sub.segment_material_envelope;
                    Got::Import(validate(&x))
                }
            }
        });
    }

    // ── each embedded retained payload withheld ──
    for (pi, pay) in b.payloads.iter().enumerate() {
        let fault = json!({"kind": "withheld-embedded-retained-payload", "profile": p.name(), "material": mc::hex(&pay.material.material_digest[..4])});
        let mut fewer = b.payloads.clone();
        fewer.remove(pi);
        must_refuse(cx, p, "withheld-embedded-retained-payload", fault.clone(), || {
            match wsc_self_contained_wal_export(&b.root, &b.segment_materials(), &fewer, b.records()) {
                Err(e) => Got::Stage(format!("export-Err:{}", err_kind(&e))),
                Ok(x) => Got::Import(validate(&x)),
            }
        });
        // well-formed retained envelope lacking it: exporter run on the record set without the
        // material, spliced into the honest export (whose retention records still name it)
        let mats: Vec<RetainedMaterialRecord> = b
            .materials
            .iter()
            .copied()
            .filter(|m| m.material_digest != pay.material.material_digest)
            .collect();
        must_refuse(cx, p, "withheld-embedded-retained-payload", fault, || {
            let recs = WscWalCausalHistoryRecords {
                retained_materials: &mats,
                ..empty()
            };
            match wsc_self_contained_wal_export(&b.root, &b.segment_materials(), &fewer, recs) {
                Err(e) => Got::Machinery(format!("reduced retained export failed: {}", err_kind(&e))),
                Ok(sub) => {
                    let mut x = export.clone();
                    x.retained_material_envelope = sub.retained_material_envelope;
                    Got::Import(validate(&x))
                }
            }
        });
    }

    if !u.blob_flips {
        return;
    }
    // ── every byte of every embedded segment flipped ──
    let seg_wsc = export.segment_material_envelope.wsc_bytes().to_vec();
    for (si, (id, bytes)) in b.segments.iter().enumerate() {
        let off = find_sub(&seg_wsc, bytes);
        if off.is_none() {
            cx.machinery("embedded segment bytes not found (uniquely) in the segment envelope");
        }
        cx.counter("wsc/segment_bytes_flipped", bytes.len() as u64);
        for pos in 0..bytes.len() {
            for bit in bits_at(&u.bits, pos) {
                let fault = json!({"kind": "corrupt-embedded-segment", "profile": p.name(), "segment": id.as_u64(), "pos": pos, "bit": bit});
                let tampered = flip(bytes, pos, bit);
                // (i) through the real exporter (it embeds whatever bytes it is given)
                must_refuse(cx, p, "corrupt-embedded-segment-via-exporter", fault.clone(), || {
                    let mut mats = b.segment_materials();
                    mats[si].segment_bytes = tampered.clone();
                    match wsc_self_contained_wal_export(&b.root, &mats, &[], empty()) {
                        Err(e) => Got::Stage(format!("export-Err:{}", err_kind(&e))),
                        Ok(t) => {
                            let mut x = export.clone();
                            x.segment_material_envelope = t.segment_material_envelope;
                            Got::Import(validate(&x))
                        }
                    }
                });
                // (ii) forged envelope: byte flipped inside the WSC payload, envelope digest and
                //      basis digest recomputed by the attacker
                if let Some(off) = off {
                    must_refuse(cx, p, "corrupt-embedded-segment-forged-envelope", fault, || {
                        let mut segs = b.segments.clone();
                        segs[si].1 = tampered.clone();
                        match WscStoreEnvelope::validated(
                            export.segment_material_envelope.record_kind(),
                            forged_segment_basis(&segs),
                            flip(&seg_wsc, off + pos, bit),
                        ) {
                            Err(e) => Got::Stage(format!("rewrap-Err:{}", err_kind(&e))),
                            Ok(env) => {
                                let mut x = export.clone();
                                x.segment_material_envelope = env;
                                Got::Import(validate(&x))
                            }
                        }
                    });
                }
            }
        }
        // truncations of the embedded segment (every proper prefix is a crash image of the file)
        for len in 0..bytes.len() {
            let fault = json!({"kind": "truncated-embedded-segment", "profile": p.name(), "segment": id.as_u64(), "len": len});
            must_refuse(cx, p, "truncated-embedded-segment", fault, || {
                let mut mats = b.segment_materials();
                mats[si].segment_bytes.truncate(len);
                match wsc_self_contained_wal_export(&b.root, &mats, &[], empty()) {
                    Err(e) => Got::Stage(format!("export-Err:{}", err_kind(&e))),
                    Ok(t) => {
                        let mut x = export.clone();
                        x.segment_material_envelope = t.segment_material_envelope;
                        Got::Import(validate(&x))
                    }
                }
            });
        }
    }

    // ── every byte of every embedded retained payload flipped ──
    let ret_wsc = export.retained_material_envelope.wsc_bytes().to_vec();
    for (pi, pay) in b.payloads.iter().enumerate() {
        let off = find_sub(&ret_wsc, &pay.material_bytes);
        if off.is_none() {
            cx.machinery("embedded retained payload not found (uniquely) in the retained envelope");
        }
        cx.counter("wsc/retained_payload_bytes_flipped", pay.material_bytes.len() as u64);
        for pos in 0..pay.material_bytes.len() {
            for bit in bits_at(&u.bits, pos) {
                let fault = json!({"kind": "corrupt-embedded-retained-payload", "profile": p.name(), "material": mc::hex(&pay.material.material_digest[..4]), "pos": pos, "bit": bit});
                let tampered = flip(&pay.material_bytes, pos, bit);
                let mut pays = b.payloads.clone();
                pays[pi].material_bytes = tampered.clone();
                // (i) the real exporter given tampered bytes under the honest record
                must_refuse(cx, p, "corrupt-embedded-retained-payload-via-exporter", fault.clone(), || {
                    match wsc_self_contained_wal_export(&b.root, &b.segment_materials(), &pays, b.records()) {
                        Err(e) => Got::Stage(format!("export-Err:{}", err_kind(&e))),
                        Ok(x) => Got::Import(validate(&x)),
                    }
                });
                // (ii) substitution: a well-formed envelope for the tampered bytes (record
                //      re-addressed to their hash) spliced into the honest export
                must_refuse(cx, p, "corrupt-embedded-retained-payload-substituted", fault.clone(), || {
                    let mut lie = pays.clone();
                    lie[pi].material.material_digest = blake3::hash(&tampered).into();
                    let lie_mats: Vec<RetainedMaterialRecord> = lie.iter().map(|m| m.material).collect();
                    let recs = WscWalCausalHistoryRecords {
                        retained_materials: &lie_mats,
                        ..empty()
                    };
                    match wsc_self_contained_wal_export(&b.root, &b.segment_materials(), &lie, recs) {
                        Err(e) => Got::Machinery(format!("substitution export failed: {}", err_kind(&e))),
                        Ok(sub) => {
                            let mut x = export.clone();
                            x.retained_material_envelope = sub.retained_material_envelope;
                            Got::Import(validate(&x))
                        }
                    }
                });
                // (iii) forged envelope: honest record, tampered bytes, digests recomputed
                if let Some(off) = off {
                    must_refuse(cx, p, "corrupt-embedded-retained-payload-forged-envelope", fault, || {
                        match WscStoreEnvelope::validated(
                            export.retained_material_envelope.record_kind(),
                            forged_retained_basis(&pays),
                            flip(&ret_wsc, off + pos, bit),
                        ) {
                            Err(e) => Got::Stage(format!("rewrap-Err:{}", err_kind(&e))),
                            Ok(env) => {
                                let mut x = export.clone();
                                x.retained_material_envelope = env;
                                Got::Import(validate(&x))
                            }
                        }
                    });
                }
            }
        }
    }
}

// ───────────────────────────── CAS-addressed faults ─────────────────────────────

#[allow(clippy::too_many_arguments)]
fn cas_faults(
    cx: &Ctx,
    b: &Built,
    export: &WscCasAddressedWalExport,
    honest: &WscCasAddressedWalImport,
    seg_refs: &[WscCasAddressedWalSegmentMaterial],
    ret_refs: &[WscCasAddressedRetainedMaterialReference],
    blobs: &[(String, Hash, Vec<u8>)],
    disk: &DiskTier,
    disk_dir: &Path,
    u: &Unit,
    only_env: Option<(usize, usize, usize)>,
) {
    let p = Profile::CasAddressed;
    let full: BTreeMap<Hash, Vec<u8>> = blobs.iter().map(|(_, h, b)| (*h, b.clone())).collect();
    let validate_with = |x: &WscCasAddressedWalExport, port: &dyn WscCasBlobStorePort| {
        verdict(validate_wsc_cas_addressed_wal_export(x, &b.root, port), honest)
    };
    if let Some(range) = only_env {
        let port = MapPort(full.clone());
        let validate = |x: &WscCasAddressedWalExport| validate_with(x, &port);
        envelope_flips(cx, p, export, range, &u.bits, &validate);
        return;
    }
    let blob_path = |h: &Hash| -> PathBuf {
        let hex = mc::hex(h);
        disk_dir.join("blobs").join(&hex[..2]).join(hex)
    };

    for (what, h, bytes) in blobs {
        // ── withheld: a real MemoryTier holding everything else; the DiskTier file deleted ──
        let fault = json!({"kind": "withheld-cas-blob", "profile": p.name(), "blob": what});
        let mut other = MemoryTier::new();
        for (_, h2, b2) in blobs {
            if h2 != h {
                other.put(b2);
            }
        }
        must_refuse(cx, p, "withheld-cas-blob-memory-tier", fault.clone(), || {
            Got::Import(validate_with(export, &MemPort(&other)))
        });
        let path = blob_path(h);
        if std::fs::remove_file(&path).is_err() {
            cx.machinery("blob file to withhold not found in DiskTier");
        }
        must_refuse(cx, p, "withheld-cas-blob-disk-tier", fault, || {
            Got::Import(validate_with(export, &DiskPort(disk)))
        });
        let _ = disk.put(bytes);

        // ── length lie in the reference ──
        for delta in [1i64, -1] {
            let fault = json!({"kind": "cas-reference-length-lie", "profile": p.name(), "blob": what, "delta": delta});
            let mut s2 = seg_refs.to_vec();
            let mut r2 = ret_refs.to_vec();
            for s in &mut s2 {
                if s.content_hash == *h {
                    s.byte_len = (s.byte_len as i64 + delta) as u64;
                }
            }
            for s in &mut r2 {
                if s.content_hash == *h {
                    s.byte_len = (s.byte_len as i64 + delta) as u64;
                }
            }
            must_refuse(cx, p, "cas-reference-length-lie", fault, || {
                match wsc_cas_addressed_wal_export(&b.root, &s2, &r2, b.records()) {
                    Err(e) => Got::Stage(format!("export-Err:{}", err_kind(&e))),
                    Ok(x) => Got::Import(validate_with(&x, &MapPort(full.clone()))),
                }
            });
        }

        if !u.blob_flips {
            continue;
        }
        cx.counter("wsc/cas_blob_bytes_flipped", bytes.len() as u64);
        let is_segment = seg_refs.iter().any(|s| s.content_hash == *h);
        for pos in 0..bytes.len() {
            for bit in bits_at(&u.bits, pos) {
                let fault = json!({"kind": "corrupt-cas-blob", "profile": p.name(), "blob": what, "pos": pos, "bit": bit});
                let tampered = flip(bytes, pos, bit);
                // (i) a CAS that answers the honest hash with tampered bytes
                must_refuse(cx, p, "corrupt-cas-blob-lying-store", fault.clone(), || {
                    let mut lying = full.clone();
                    lying.insert(*h, tampered.clone());
                    Got::Import(validate_with(export, &MapPort(lying)))
                });
                // (ii) consistent lie: the reference names hash(tampered) and the CAS holds the
                //      tampered bytes under it
                must_refuse(cx, p, "corrupt-cas-blob-consistent-lie", fault, || {
                    let th: Hash = blake3::hash(&tampered).into();
                    let mut s2 = seg_refs.to_vec();
                    let mut r2 = ret_refs.to_vec();
                    for s in &mut s2 {
                        if s.content_hash == *h {
                            s.content_hash = th;
                        }
                    }
                    for s in &mut r2 {
                        if s.content_hash == *h {
                            s.content_hash = th;
                        }
                    }
                    let res = if is_segment {
                        wsc_cas_addressed_wal_export(&b.root, &s2, &[], WscWalCausalHistoryRecords::empty())
                    } else {
                        wsc_cas_addressed_wal_export(&b.root, &s2, &r2, b.records())
                    };
                    match res {
                        Err(e) => Got::Stage(format!("export-Err:{}", err_kind(&e))),
                        Ok(t) => {
                            let mut x = export.clone();
                            x.cas_reference_envelope = t.cas_reference_envelope;
                            let mut store = full.clone();
                            store.insert(th, tampered.clone());
                            Got::Import(validate_with(&x, &MapPort(store)))
                        }
                    }
                });
            }
        }
        // (iii) the DiskTier file itself damaged, every byte
        let path = blob_path(h);
        for pos in 0..bytes.len() {
            if !u.disk_flips && pos != 0 && pos + 1 != bytes.len() {
                continue;
            }
            let bit = bits_at(&u.bits, pos)[pos % bits_at(&u.bits, pos).len()];
            let fault = json!({"kind": "corrupt-cas-blob", "profile": p.name(), "blob": what, "pos": pos, "bit": bit, "via": "disk-tier-file"});
            if std::fs::write(&path, flip(bytes, pos, bit)).is_err() {
                cx.machinery("cannot damage DiskTier blob file");
            }
            must_refuse(cx, p, "corrupt-cas-blob-disk-tier-file", fault, || {
                Got::Import(validate_with(export, &DiskPort(disk)))
            });
        }
        // truncated / extended
        for (how, data) in [
            ("truncated", bytes[..bytes.len().saturating_sub(1)].to_vec()),
            ("extended", [bytes.as_slice(), &[0u8]].concat()),
        ] {
            let fault = json!({"kind": "corrupt-cas-blob", "profile": p.name(), "blob": what, "via": how});
            let _ = std::fs::write(&path, &data);
            must_refuse(cx, p, "corrupt-cas-blob-disk-tier-file", fault.clone(), || {
                Got::Import(validate_with(export, &DiskPort(disk)))
            });
            must_refuse(cx, p, "corrupt-cas-blob-lying-store", fault, || {
                let mut lying = full.clone();
                lying.insert(*h, data.clone());
                Got::Import(validate_with(export, &MapPort(lying)))
            });
        }
        let _ = disk.put(bytes);
        match disk.get(&BlobHash::from_bytes(*h)) {
            Ok(Some(_)) => {}
            _ => cx.machinery("DiskTier blob not restored after damage"),
        }
    }
}

// ───────────────────────────── child entry point ─────────────────────────────

fn profile_from(s: &str) -> Option<Profile> {
    [Profile::RefOnly, Profile::SelfContained, Profile::CasAddressed]
        .into_iter()
        .find(|p| p.name() == s)
}

fn unit_from_json(v: &Value) -> Option<Unit> {
    let history = v.get("history").and_then(|x| x.as_str()).and_then(History::parse)?;
    let profile = v.get("profile").and_then(|x| x.as_str()).and_then(profile_from)?;
    let range = v.get("range").and_then(|x| x.as_array()).map(|a| {
        (
            a.first().and_then(|x| x.as_u64()).unwrap_or(0) as usize,
            a.get(1).and_then(|x| x.as_u64()).unwrap_or(u64::MAX) as usize,
        )
    });
    let part = match v.get("part").and_then(|x| x.as_i64()).unwrap_or(-1) {
        n if n < 0 => Part::Main,
        n => Part::Envelope(n as usize, range.map_or(0, |r| r.0), range.map_or(usize::MAX, |r| r.1)),
    };
    Some(Unit {
        hist_index: v.get("hist_index").and_then(|x| x.as_u64()).unwrap_or(0) as usize,
        history,
        profile,
        part,
        bits: v
            .get("bits")
            .and_then(|x| x.as_array())
            .map(|a| a.iter().filter_map(|b| b.as_u64()).map(|b| b as u8).collect())
            .unwrap_or_else(|| vec![0]),
        blob_flips: v.get("blob_flips").and_then(|x| x.as_bool()).unwrap_or(false),
        disk_flips: v.get("disk_flips").and_then(|x| x.as_bool()).unwrap_or(false),
    })
}

/// `C20_UNIT=<json {jobs:[…], resume_after:n}>`: run a batch of jobs sequentially, printing
/// protocol lines (`B` before each fault, facts as they are learnt, `END` at the end).
pub fn child_main(spec: &str) -> ! {
    // address-space limit: an allocation sized from a corrupted count fails deterministically
    // instead of depending on the host's overcommit policy
    let lim = libc::rlimit {
        rlim_cur: 3 << 30,
        rlim_max: 3 << 30,
    };
    // SAFETY: plain syscall with a valid pointer to a local struct.
    unsafe {
        libc::setrlimit(libc::RLIMIT_AS, &lim);
    }
    let v: Value = serde_json::from_str(spec).unwrap_or(Value::Null);
    let jobs: Vec<Unit> = v
        .get("jobs")
        .and_then(|x| x.as_array())
        .map(|a| a.iter().filter_map(unit_from_json).collect())
        .unwrap_or_default();
    let cx = Ctx {
        hist: RefCell::new(String::new()),
        hist_index: Cell::new(0),
        resume_after: v.get("resume_after").and_then(|x| x.as_i64()).unwrap_or(-1),
        seq: Cell::new(0),
    };
    if jobs.is_empty() {
        println!("M\twsc child: empty or unparsable batch");
    }
    let scratch = mc::scratch_root();
    let mut built: Option<Built> = None;
    for u in &jobs {
        *cx.hist.borrow_mut() = u.history.render();
        cx.hist_index.set(u.hist_index);
        if built.as_ref().map(|b| &b.history) != Some(&u.history) {
            built = match build(&u.history, &scratch.join("wal")) {
                Ok(b) => Some(b),
                Err(e) => {
                    cx.machinery(&format!("cannot build history: {e}"));
                    None
                }
            };
        }
        if let Some(b) = &built {
            if let Err(p) = mc::catch(|| run_unit(&cx, b, u, &scratch)) {
                cx.machinery(&format!("panic in job {}: {p}", u.describe()));
            }
        }
    }
    println!("END\t{}", cx.seq.get());
    let _ = std::fs::remove_dir_all(&scratch);
    std::process::exit(0);
}

// ───────────────────────────── parent: drive the children ─────────────────────────────

#[derive(Default)]
struct BatchResult {
    /// all protocol lines of all children of the batch (each fault evaluated exactly once)
    lines: Vec<String>,
    /// (hist_index, profile, kind, fault json, reason) for every fault that killed a child
    deaths: Vec<(usize, String, String, Value, String)>,
    error: Option<String>,
}

fn run_child(jobs: &[Unit], idx: usize) -> BatchResult {
    use std::os::unix::process::ExitStatusExt;
    let mut res = BatchResult::default();
    let exe = match std::env::current_exe() {
        Ok(e) => e,
        Err(e) => {
            res.error = Some(format!("current_exe: {e}"));
            return res;
        }
    };
    let jobs_json: Vec<Value> = jobs.iter().map(|u| u.to_json()).collect();
    let mut resume_after: i64 = -1;
    for _attempt in 0..400 {
        let scratch = mc::scratch_root().join("c20-wsc-children").join(format!("u{idx}"));
        let out = std::process::Command::new(&exe)
            .env("C20_UNIT", json!({"jobs": jobs_json, "resume_after": resume_after}).to_string())
            .env("VERIF_SCRATCH", &scratch)
            .env("RAYON_NUM_THREADS", "1")
            .stdin(std::process::Stdio::null())
            .output();
        let _ = std::fs::remove_dir_all(&scratch);
        let out = match out {
            Ok(o) => o,
            Err(e) => {
                res.error = Some(format!("spawn: {e}"));
                return res;
            }
        };
        let stdout = String::from_utf8_lossy(&out.stdout);
        let finished = out.status.success() && stdout.lines().any(|l| l.starts_with("END\t"));
        let last_b = stdout.lines().rev().find(|l| l.starts_with("B\t")).map(|x| x.to_string());
        res.lines.extend(stdout.lines().filter(|l| !l.starts_with("B\t") && !l.starts_with("END\t")).map(|x| x.to_string()));
        if finished {
            return res;
        }
        // the child died: the last announced fault was in flight
        let stderr = String::from_utf8_lossy(&out.stderr);
        let Some(last) = last_b else {
            res.error = Some(format!(
                "child died before any fault ({:?}): {}",
                out.status,
                stderr.lines().last().unwrap_or("")
            ));
            return res;
        };
        let f: Vec<&str> = last.splitn(6, '\t').collect();
        let seq = f.get(1).and_then(|x| x.parse::<i64>().ok()).unwrap_or(-1);
        if seq <= resume_after {
            res.error = Some("child died without progress".into());
            return res;
        }
        let reason = if stderr.contains("memory allocation of") {
            "memory-allocation-failed".to_string()
        } else if stderr.contains("stack overflow") {
            "stack-overflow".to_string()
        } else {
            match out.status.signal() {
                Some(s) => format!("signal-{s}"),
                None => format!("exit-{}", out.status.code().unwrap_or(-1)),
            }
        };
        res.deaths.push((
            f.get(2).and_then(|x| x.parse().ok()).unwrap_or(0),
            f.get(3).unwrap_or(&"?").to_string(),
            f.get(4).unwrap_or(&"?").to_string(),
            f.get(5).and_then(|x| serde_json::from_str(x).ok()).unwrap_or(Value::Null),
            format!("{reason}: {}", stderr.lines().last().unwrap_or("").trim()),
        ));
        resume_after = seq;
    }
    res.error = Some("too many child deaths in one batch".into());
    res
}

fn merge(r: &Report, wit: &Witnesses, jobs: &[Unit], res: &BatchResult, samples: &mut Vec<Value>) -> u64 {
    let hist_of = |i: usize| jobs.iter().find(|u| u.hist_index == i).map(|u| u.history.render()).unwrap_or_default();
    for (hist_index, profile, kind, fault, reason) in &res.deaths {
        let sig = if reason.starts_with("memory-allocation-failed") {
            format!("wsc:{profile}:{kind}-huge-alloc:aborts-process")
        } else {
            format!("wsc:{profile}:{kind}-aborts-process:{}", reason.split(':').next().unwrap_or("?"))
        };
        wit.add_keyed(
            sig,
            (*hist_index as u64, format!("{fault}")),
            json!({
                "case": {"part": "wsc", "history": hist_of(*hist_index), "fault": fault},
                "observed": format!("the importing process died instead of returning a typed error — {reason} (child under RLIMIT_AS = 3 GiB)"),
            }),
        );
    }
    if let Some(e) = &res.error {
        r.machinery_error(&format!("wsc batch [{} …]: {e}", jobs.first().map(|u| u.describe()).unwrap_or_default()));
    }
    let mut exports = 0;
    for l in &res.lines {
        let f: Vec<&str> = l.splitn(3, '\t').collect();
        match f.first().copied() {
            Some("E") => r.eval(f.get(1).and_then(|x| x.parse().ok()).unwrap_or(0)),
            Some("O") => r.outcome(f.get(1).unwrap_or(&"?")),
            Some("C") => r.counter(f.get(1).unwrap_or(&"?"), f.get(2).and_then(|x| x.parse().ok()).unwrap_or(0)),
            Some("G") => r.guard(f.get(1).unwrap_or(&"?"), f.get(2) == Some(&"1")),
            Some("M") => r.machinery_error(f.get(1).unwrap_or(&"?")),
            Some("X") => exports += 1,
            Some("S") => {
                if let Some(v) = f.get(1).and_then(|x| serde_json::from_str::<Value>(&l[2..]).ok().or_else(|| serde_json::from_str(x).ok())) {
                    samples.push(v);
                }
            }
            Some("V") => {
                if let Ok(v) = serde_json::from_str::<Value>(&l[2..]) {
                    wit.add_keyed(
                        v.get("sig").and_then(|x| x.as_str()).unwrap_or("?").to_string(),
                        (
                            v.get("hist_index").and_then(|x| x.as_u64()).unwrap_or(0),
                            v.get("order").and_then(|x| x.as_str()).unwrap_or("").to_string(),
                        ),
                        v.get("detail").cloned().unwrap_or(Value::Null),
                    );
                }
            }
            _ => {}
        }
    }
    exports
}

/// Rough cost of a job in "fault evaluations" (for balancing the batches; results do not depend
/// on it).
fn job_cost(u: &Unit, b: &Built) -> u64 {
    let seg: u64 = b.segments.iter().map(|s| s.1.len() as u64).sum();
    let pay: u64 = b.payloads.iter().map(|p| p.material_bytes.len() as u64).sum();
    let bits = u.bits.len() as u64;
    match (u.part, u.profile) {
        (Part::Envelope(_, lo, hi), _) => (hi.saturating_sub(lo)) as u64 * bits.min(8),
        (Part::Main, Profile::RefOnly) => 30,
        (Part::Main, Profile::SelfContained) => 30 + if u.blob_flips { (seg * 2 + pay * 3) * bits + seg } else { 0 },
        (Part::Main, Profile::CasAddressed) => {
            30 + if u.blob_flips { (seg + pay) * 2 * bits + if u.disk_flips { (seg + pay) * 2 } else { 0 } } else { 0 }
        }
    }
}

/// Longest-processing-time-first packing of the jobs into `bins` batches; a batch pays a fixed
/// price per distinct history (the child rebuilds the WAL) and per process start.
fn pack(jobs: Vec<(Unit, u64)>, bins: usize) -> Vec<Vec<Unit>> {
    const BUILD: u64 = 2500;
    let mut order: Vec<usize> = (0..jobs.len()).collect();
    order.sort_by_key(|&i| (std::cmp::Reverse(jobs[i].1), i));
    let mut load = vec![0u64; bins];
    let mut hists: Vec<BTreeSet<usize>> = vec![BTreeSet::new(); bins];
    let mut out: Vec<Vec<usize>> = vec![Vec::new(); bins];
    for i in order {
        let (u, c) = &jobs[i];
        let best = (0..bins)
            .min_by_key(|&b| (load[b] + c + if hists[b].contains(&u.hist_index) { 0 } else { BUILD }, b))
            .unwrap_or(0);
        load[best] += c + if hists[best].contains(&u.hist_index) { 0 } else { BUILD };
        hists[best].insert(u.hist_index);
        out[best].push(i);
    }
    out.into_iter()
        .filter(|b| !b.is_empty())
        .map(|mut b| {
            // same history adjacent (one WAL build), otherwise original order
            b.sort_by_key(|&i| (jobs[i].0.hist_index, i));
            b.into_iter().map(|i| jobs[i].0.clone()).collect()
        })
        .collect()
}

// ───────────────────────────── driver ─────────────────────────────

fn env_count(p: Profile) -> usize {
    match p {
        Profile::RefOnly => WscRefOnlyWalExport::names().len(),
        Profile::SelfContained => WscSelfContainedWalExport::names().len(),
        Profile::CasAddressed => WscCasAddressedWalExport::names().len(),
    }
}

/// encoded length + WSC length of envelope `ei` of the honest export (honest material, in-process).
fn envelope_total(b: &Built, p: Profile, ei: usize) -> usize {
    let size = |e: &WscStoreEnvelope| e.encode().len() + e.wsc_bytes().len();
    match p {
        Profile::RefOnly => wsc_ref_only_wal_export(&b.root, b.records()).map(|x| size(x.env(ei))).unwrap_or(0),
        Profile::SelfContained => {
            wsc_self_contained_wal_export(&b.root, &b.segment_materials(), &b.payloads, b.records())
                .map(|x| size(x.env(ei)))
                .unwrap_or(0)
        }
        Profile::CasAddressed => {
            // the reference envelope does not depend on the hashes' values for its size
            let segs: Vec<WscCasAddressedWalSegmentMaterial> = b
                .segments
                .iter()
                .map(|(id, bytes)| WscCasAddressedWalSegmentMaterial {
                    segment_id: *id,
                    content_hash: blake3::hash(bytes).into(),
                    semantic_coordinate_digest: digest(&format!("c20:segment:{}", id.as_u64())),
                    byte_len: bytes.len() as u64,
                })
                .collect();
            let rets: Vec<WscCasAddressedRetainedMaterialReference> = b
                .materials
                .iter()
                .map(|m| WscCasAddressedRetainedMaterialReference {
                    material_kind: m.kind,
                    content_hash: m.material_digest,
                    semantic_coordinate_digest: m.semantic_coordinate_digest,
                    byte_len: b
                        .payloads
                        .iter()
                        .find(|p| p.material.material_digest == m.material_digest)
                        .map_or(0, |p| p.material_bytes.len() as u64),
                })
                .collect();
            wsc_cas_addressed_wal_export(&b.root, &segs, &rets, b.records())
                .map(|x| size(x.env(ei)))
                .unwrap_or(0)
        }
    }
}

pub fn run(r: &Report, wit: &Witnesses) {
    let scratch = mc::scratch_root().join("c20-wsc");
    let _ = std::fs::create_dir_all(&scratch);
    // quick: letters {Sa, Ta, Rx, Rz} (z = same bytes as x under another coordinate), length ≤ 3
    // thorough: + {Ry, Rw} (y = other bytes and coordinate, w = same coordinate as x, other
    // bytes), length ≤ 3.  (A second submission/tick label would only add histories that are
    // images of these under renaming; `Tx::Sub(1)`/`Tx::Tick(1)` stay available for replays.)
    let alphabet: Vec<Tx> = if r.quick() {
        vec![Tx::Sub(0), Tx::Tick(0), Tx::Read(0), Tx::Read(2)]
    } else {
        vec![Tx::Sub(0), Tx::Tick(0), Tx::Read(0), Tx::Read(2), Tx::Read(1), Tx::Read(3)]
    };
    let fam = family(&alphabet, 3);
    let bits: Vec<u8> = if r.quick() { vec![0] } else { (0..8).collect() };
    // the designated rich history: 2 segments, all three transaction kinds
    let rich = History {
        txs: vec![Tx::Sub(0), Tx::Tick(0), Tx::Read(0)],
        rotate_after: vec![0],
    };
    r.note(
        "wsc_family",
        json!({"alphabet": alphabet.iter().map(|t| t.render()).collect::<Vec<_>>(), "max_len": 3, "histories": fam.len(),
               "bits_flipped_per_byte": if r.quick() { "1 (bit 0)" } else { "all 8 on histories of length ≤2 and the rich history; 1 (bit pos%8) on the other length-3 histories and on envelope bytes of non-rich histories" },
               "blob_byte_flips_on": if r.quick() { "unrotated histories of length ≤2 and the rich history 'Sa |rotate| Ta Rx'" } else { "all histories" },
               "envelope_byte_flips_on": if r.quick() { "the rich history" } else { "histories of length ≤2 and the rich history (1 bit per byte; all 8 bits on the rich history)" }}),
    );

    // build every history with the real WAL store (in-process: honest material only)
    let built: Vec<Result<Built, String>> = fam
        .par_iter()
        .enumerate()
        .map(|(i, h)| build(h, &scratch.join(format!("wal-{i}"))))
        .collect();
    let mut ok: Vec<(usize, Built)> = Vec::new();
    for (i, b) in built.into_iter().enumerate() {
        match b {
            Ok(b) => ok.push((i, b)),
            Err(e) => r.machinery_error(&format!("wsc: cannot build history '{}': {e}", fam[i].render())),
        }
    }
    r.counter("wsc/histories_built", ok.len() as u64);

    // units
    let mut units: Vec<Unit> = Vec::new();
    for (i, b) in &ok {
        let len = b.history.txs.len();
        let is_rich = b.history == rich;
        for p in [Profile::RefOnly, Profile::SelfContained, Profile::CasAddressed] {
            units.push(Unit {
                hist_index: *i,
                history: b.history.clone(),
                profile: p,
                part: Part::Main,
                bits: if r.quick() || len <= 2 || is_rich { bits.clone() } else { vec![255] },
                // quick: rotation variants of the short histories carry the same bytes split over
                // two files; the rich history covers the two-segment shape
                blob_flips: if r.quick() { (len <= 2 && b.history.rotate_after.is_empty()) || is_rich } else { true },
                disk_flips: if r.quick() { is_rich } else { true },
            });
            let env_flips = if r.quick() { is_rich } else { len <= 2 || is_rich };
            if env_flips {
                for ei in 0..env_count(p) {
                    // upper bound of the position space (an envelope of this family is < 64 KiB);
                    // chunks beyond the real size are empty
                    let total = envelope_total(b, p, ei);
                    let chunk = 2048;
                    let mut lo = 0;
                    while lo < total {
                        units.push(Unit {
                            hist_index: *i,
                            history: b.history.clone(),
                            profile: p,
                            part: Part::Envelope(ei, lo, lo + chunk),
                            bits: if is_rich { bits.clone() } else { vec![255] },
                            blob_flips: false,
                            disk_flips: false,
                        });
                        lo += chunk;
                    }
                }
            }
        }
    }
    r.counter("wsc/jobs", units.len() as u64);
    let costed: Vec<(Unit, u64)> = units
        .into_iter()
        .map(|u| {
            let c = ok.iter().find(|(i, _)| *i == u.hist_index).map_or(0, |(_, b)| job_cost(&u, b));
            (u, c)
        })
        .collect();
    let batches = pack(costed, if r.quick() { 32 } else { 192 });
    r.counter("wsc/child_process_batches", batches.len() as u64);
    let results: Vec<Option<BatchResult>> = batches
        .par_iter()
        .with_max_len(1)
        .enumerate()
        .map(|(idx, jobs)| {
            // quick: 85 % of the machinery cap; thorough: stop launching batches after 25 min
            if r.over_budget_frac(0.85) || r.elapsed_s() > 1500.0 {
                return None;
            }
            Some(run_child(jobs, idx))
        })
        .collect();
    let mut exports = 0u64;
    let mut samples = Vec::new();
    let mut skipped = 0u64;
    for (jobs, res) in batches.iter().zip(results.iter()) {
        match res {
            Some(res) => {
                exports += merge(r, wit, jobs, res, &mut samples);
                for u in jobs {
                    r.nontrivial(format!("wsc-job:{}", u.describe()).as_bytes());
                }
            }
            None => skipped += 1,
        }
    }
    if skipped > 0 {
        r.cap_hit(&format!("wsc: {skipped} of {} child batches not run (wall cap)", batches.len()));
    }
    samples.sort_by_key(|s| (s.get("fault").is_none(), s.to_string()));
    for s in samples.into_iter().take(4) {
        r.sample(s);
    }
    r.counter("wsc/honest_roundtrips_ok", exports);

    // ── an export of history A is never accepted against the root of history B ──
    // (honest material only, so this runs in-process)
    let exports: Vec<_> = ok
        .iter()
        .map(|(_, b)| {
            (
                wsc_ref_only_wal_export(&b.root, b.records()).ok(),
                wsc_self_contained_wal_export(&b.root, &b.segment_materials(), &b.payloads, b.records()).ok(),
            )
        })
        .collect();
    let pairs: Vec<(usize, usize)> = (0..ok.len())
        .flat_map(|a| (0..ok.len()).map(move |b| (a, b)))
        .filter(|(a, b)| a != b && ok[*a].1.root.identity_digest() != ok[*b].1.root.identity_digest())
        .collect();
    pairs.par_iter().for_each(|(a, bidx)| {
        let other = &ok[*bidx].1;
        let viol = |profile: &str| {
            wit.add_keyed(
                format!("wsc:{profile}:foreign-root-accepted"),
                (ok[*a].0 as u64, other.history.render()),
                json!({"case": {"part": "wsc", "history": ok[*a].1.history.render(),
                       "fault": {"kind": "foreign-root", "profile": profile, "other_history": other.history.render()}},
                       "observed": "Ok"}),
            );
        };
        if let Some(x) = &exports[*a].0 {
            r.eval(1);
            match validate_wsc_ref_only_wal_export(x, &other.root) {
                Err(e) => r.outcome(&format!("wsc/ref-only/foreign-root→import-Err:{}", err_kind(&e))),
                Ok(_) => {
                    r.outcome("wsc/ref-only/foreign-root→ACCEPTED");
                    viol("ref-only");
                }
            }
        }
        if let Some(x) = &exports[*a].1 {
            r.eval(1);
            match validate_wsc_self_contained_wal_export(x, &other.root) {
                Err(e) => r.outcome(&format!("wsc/self-contained/foreign-root→import-Err:{}", err_kind(&e))),
                Ok(_) => {
                    r.outcome("wsc/self-contained/foreign-root→ACCEPTED");
                    viol("self-contained");
                }
            }
        }
    });
    r.counter("wsc/foreign_root_pairs", pairs.len() as u64);
}

/// Replay one recorded WSC case: re-run every unit of its history with full bounds (in children).
pub fn replay(r: &Report, case: &Value) {
    let Some(h) = case.get("history").and_then(|x| x.as_str()).and_then(History::parse) else {
        r.machinery_error("replay: cannot parse history");
        return;
    };
    let wit = Witnesses::default();
    let only_profile = case
        .get("fault")
        .and_then(|f| f.get("profile"))
        .and_then(|x| x.as_str())
        .and_then(profile_from);
    // narrow the replay to what the recorded fault names: its profile, its envelope (or the
    // main part), its bit
    let fault = case.get("fault");
    let bits: Vec<u8> = match fault.and_then(|f| f.get("bit")).and_then(|x| x.as_u64()) {
        Some(b) => vec![b as u8],
        None => (0..8).collect(),
    };
    let envelope = fault.and_then(|f| f.get("envelope")).and_then(|x| x.as_str());
    let mut units = Vec::new();
    for p in [Profile::RefOnly, Profile::SelfContained, Profile::CasAddressed] {
        if only_profile.is_some_and(|o| o != p) {
            continue;
        }
        let names: &[&str] = match p {
            Profile::RefOnly => WscRefOnlyWalExport::names(),
            Profile::SelfContained => WscSelfContainedWalExport::names(),
            Profile::CasAddressed => WscCasAddressedWalExport::names(),
        };
        if envelope.is_none() {
            units.push(Unit { hist_index: 0, history: h.clone(), profile: p, part: Part::Main, bits: bits.clone(), blob_flips: true, disk_flips: true });
        }
        for (ei, name) in names.iter().enumerate() {
            if envelope.is_some_and(|e| e == *name) || (envelope.is_none() && fault.is_none()) {
                units.push(Unit { hist_index: 0, history: h.clone(), profile: p, part: Part::Envelope(ei, 0, usize::MAX), bits: bits.clone(), blob_flips: false, disk_flips: false });
            }
        }
    }
    let batches: Vec<Vec<Unit>> = units.into_iter().map(|u| vec![u]).collect();
    let results: Vec<BatchResult> = batches.par_iter().enumerate().map(|(i, j)| run_child(j, i)).collect();
    let mut samples = Vec::new();
    for (jobs, res) in batches.iter().zip(results.iter()) {
        merge(r, &wit, jobs, res, &mut samples);
        r.nontrivial(jobs[0].describe().as_bytes());
    }
    r.sample(json!({"replayed": case}));
    r.nontrivial(b"replay-a");
    r.nontrivial(b"replay-b");
    r.add_states(1);
    r.add_transitions(1);
    r.add_traces(1);
    wit.flush(r);
}
