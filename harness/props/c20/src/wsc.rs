//! Part 2 of C20 — snapshot-store (WSC) causal-history exports: ref-only, self-contained,
//! CAS-addressed.
//!
//! A small family of WAL histories (1–3 committed transactions of kinds submission / tick /
//! retained reading, optionally with a segment rotation between transactions) is enumerated
//! exhaustively.  Each history is written with the real `FilesystemWalStore`, recovered and
//! projected to a `WalRoot` exactly the way the repository's own tests do it, pushed through each of
//! the three export profiles and imported back:
//!
//! * the import must be `Ok` and carry exactly the source records;
//! * then every referenced blob / embedded segment / embedded retained payload is individually
//!   withheld, and every single byte of it is flipped (one bit per byte in quick, all 8 in
//!   thorough), through every channel the format offers (the real exporter fed tampered bytes, a
//!   forged-but-self-consistent envelope, a lying CAS port, a corrupted DiskTier file, a consistent
//!   lie in the CAS reference) — the import must then be a typed error, never `Ok`;
//! * every byte of every envelope of the export is flipped (in the encoded form, and in the WSC
//!   payload with the envelope digest recomputed) — the import must be a typed error or an import
//!   equal to the honest one, never `Ok` with different records;
//! * an export of history A is never accepted against the root of history B.

use crate::cas::Witnesses;
use echo_cas::{
    BlobHash, BlobStore, DiskTier, MemoryTier, RetainedBlobIndex, RetainedBlobRole,
    SemanticBlobCoordinate,
};
use mc::{json, Report, Value};
use rayon::prelude::*;
use std::collections::BTreeMap;
use std::path::{Path, PathBuf};
use warp_core::causal_wal::{
    build_recovery_certificate, build_retained_reading_transaction,
    build_submission_acceptance_transaction, build_tick_transaction, canonical_segment_path,
    project_filesystem_wal_recovery, recover_filesystem_store, AffectedFrontier,
    AffectedFrontierKind, EvidenceMaterialPosture, FilesystemWalStore, Lsn, PayloadCodecId,
    PayloadSchemaId, ReadingRefRecord, RecoveryAccessMode, RetainedMaterialKind,
    RetainedMaterialRecord, SubmissionAcceptanceRecord, TickReceiptRecord, WalAppendAuthority,
    WalCommittedTransaction, WalDurabilityMode, WalManifest, WalReceiptCorrelationRecord, WalRoot,
    WalSegmentId, WalStorePort, WalTickDecision, WalTransactionBuilder, WalTransactionId,
    WalTransactionKind, WalWriterEpoch, WriterEpochId, WriterEpochRequest,
};
use warp_core::wsc::{
    validate_wsc_cas_addressed_wal_export, validate_wsc_ref_only_wal_export,
    validate_wsc_self_contained_wal_export, wsc_cas_addressed_wal_export, wsc_ref_only_wal_export,
    wsc_self_contained_wal_export, WscCasAddressedRetainedMaterialReference,
    WscCasAddressedWalExport, WscCasAddressedWalImport, WscCasAddressedWalSegmentMaterial,
    WscCasBlobStorePort, WscRefOnlyWalExport, WscRefOnlyWalImport, WscSelfContainedRetainedMaterial,
    WscSelfContainedWalExport, WscSelfContainedWalImport, WscSelfContainedWalSegmentMaterial,
    WscStoreEnvelope, WscWalCausalHistoryRecords,
};
use warp_core::{CausalTickReceiptRef, GlobalTick, Hash, WorldlineId, WorldlineTick};

fn digest(label: &str) -> Hash {
    blake3::hash(label.as_bytes()).into()
}

// ───────────────────────────── the history family ─────────────────────────────

/// One committed WAL transaction of the family.
#[derive(Clone, Copy, Debug, PartialEq, Eq, PartialOrd, Ord, Hash)]
pub enum Tx {
    /// submission acceptance for label a/b
    Sub(u8),
    /// scheduler tick (receipt + correlation) deciding submission a/b — needs `Sub` of the label earlier
    Tick(u8),
    /// retained reading k: one retained-material record + one reading reference.
    /// k=0 "x"; k=1 "y" (other bytes, other coordinate); k=2 "z" (SAME bytes as x, other
    /// coordinate); k=3 "w" (SAME coordinate as x, other bytes)
    Read(u8),
}

impl Tx {
    fn render(&self) -> String {
        match self {
            Tx::Sub(l) => format!("S{}", (b'a' + l) as char),
            Tx::Tick(l) => format!("T{}", (b'a' + l) as char),
            Tx::Read(k) => format!("R{}", ["x", "y", "z", "w"][*k as usize]),
        }
    }
}

#[derive(Clone, Debug, PartialEq, Eq)]
pub struct History {
    pub txs: Vec<Tx>,
    /// rotate the segment after the transactions with these indices (never after the last)
    pub rotate_after: Vec<usize>,
}

impl History {
    pub fn render(&self) -> String {
        let mut s = String::new();
        for (i, t) in self.txs.iter().enumerate() {
            if i > 0 {
                s.push(' ');
            }
            s.push_str(&t.render());
            if self.rotate_after.contains(&i) {
                s.push_str(" |rotate|");
            }
        }
        s
    }
    pub fn parse(s: &str) -> Option<History> {
        let mut txs = Vec::new();
        let mut rot = Vec::new();
        for tok in s.split_whitespace() {
            if tok == "|rotate|" {
                rot.push(txs.len().checked_sub(1)?);
                continue;
            }
            let b = tok.as_bytes();
            if b.len() != 2 {
                return None;
            }
            txs.push(match b[0] {
                b'S' => Tx::Sub(b[1].checked_sub(b'a')?),
                b'T' => Tx::Tick(b[1].checked_sub(b'a')?),
                b'R' => Tx::Read(match b[1] {
                    b'x' => 0,
                    b'y' => 1,
                    b'z' => 2,
                    b'w' => 3,
                    _ => return None,
                }),
                _ => return None,
            });
        }
        Some(History {
            txs,
            rotate_after: rot,
        })
    }
}

/// All valid sequences (no repetition, a tick only after its submission) of length 1..=max_len over
/// `alphabet`, each with every subset of rotation points.
pub fn family(alphabet: &[Tx], max_len: usize) -> Vec<History> {
    fn rec(alphabet: &[Tx], max_len: usize, cur: &mut Vec<Tx>, out: &mut Vec<Vec<Tx>>) {
        if !cur.is_empty() {
            out.push(cur.clone());
        }
        if cur.len() == max_len {
            return;
        }
        for t in alphabet {
            if cur.contains(t) {
                continue;
            }
            if let Tx::Tick(l) = t {
                if !cur.contains(&Tx::Sub(*l)) {
                    continue;
                }
            }
            cur.push(*t);
            rec(alphabet, max_len, cur, out);
            cur.pop();
        }
    }
    let mut seqs = Vec::new();
    rec(alphabet, max_len, &mut Vec::new(), &mut seqs);
    seqs.sort_by(|a, b| (a.len(), a).cmp(&(b.len(), b)));
    let mut out = Vec::new();
    for s in seqs {
        let gaps = s.len() - 1;
        for mask in 0..(1u32 << gaps) {
            let rotate_after = (0..gaps).filter(|g| mask >> g & 1 == 1).collect();
            out.push(History {
                txs: s.clone(),
                rotate_after,
            });
        }
    }
    out
}

// ───────────────────────────── source records ─────────────────────────────

fn acceptance(l: u8) -> SubmissionAcceptanceRecord {
    let label = format!("c20:{}", (b'a' + l) as char);
    SubmissionAcceptanceRecord {
        submission_id: digest(&format!("submission:{label}")),
        canonical_envelope_digest: digest(&format!("envelope:{label}")),
        idempotency_key_digest: if l == 1 {
            Some(digest(&format!("idempotency:{label}")))
        } else {
            None
        },
        acceptance_evidence_digest: digest(&format!("accepted-evidence:{label}")),
    }
}

fn receipt_ref(l: u8) -> CausalTickReceiptRef {
    let label = format!("c20:{}", (b'a' + l) as char);
    CausalTickReceiptRef {
        worldline_id: WorldlineId::from_bytes(digest(&format!("worldline:{label}"))),
        worldline_tick_after: WorldlineTick::from_raw(1 + u64::from(l)),
        commit_global_tick: GlobalTick::from_raw(1 + u64::from(l)),
        commit_hash: digest(&format!("commit:{label}")),
        submission_id: digest(&format!("submission:{label}")),
        ticket_digest: digest(&format!("ticket:{label}")),
        receipt_content_digest: digest(&format!("receipt:{label}")),
    }
}

fn receipt(l: u8) -> TickReceiptRecord {
    TickReceiptRecord {
        receipt_ref: receipt_ref(l),
        decision: if l == 0 {
            WalTickDecision::Applied
        } else {
            WalTickDecision::RejectedFootprintConflict
        },
    }
}

fn correlation(l: u8) -> WalReceiptCorrelationRecord {
    WalReceiptCorrelationRecord {
        receipt_ref: receipt_ref(l),
        causal_parent_receipts: Vec::new(),
    }
}

pub fn reading_payload(k: u8) -> Vec<u8> {
    match k {
        0 | 2 => b"c20 retained reading payload X".to_vec(),
        1 => b"c20 retained reading payload Y (other)".to_vec(),
        _ => b"c20 retained reading payload W!".to_vec(),
    }
}

fn reading_coordinate(k: u8) -> Hash {
    match k {
        0 | 3 => digest("coordinate:c20:x"),
        1 => digest("coordinate:c20:y"),
        _ => digest("coordinate:c20:z"),
    }
}

fn material(k: u8) -> RetainedMaterialRecord {
    RetainedMaterialRecord {
        material_digest: blake3::hash(&reading_payload(k)).into(),
        semantic_coordinate_digest: reading_coordinate(k),
        kind: RetainedMaterialKind::ReadingPayload,
        posture: EvidenceMaterialPosture::Present,
    }
}

fn reading(k: u8) -> ReadingRefRecord {
    ReadingRefRecord {
        reading_id: digest(&format!("reading:c20:{k}")),
        semantic_coordinate_digest: reading_coordinate(k),
        payload_digest: blake3::hash(&reading_payload(k)).into(),
        envelope_digest: digest(&format!("reading-envelope:c20:{k}")),
        posture: EvidenceMaterialPosture::Present,
    }
}

fn epoch_id() -> WriterEpochId {
    WriterEpochId::from_hash(digest("c20:epoch:1"))
}

fn builder(
    label: &str,
    segment: u64,
    first_lsn: Lsn,
    authority: WalAppendAuthority,
    kind: WalTransactionKind,
) -> WalTransactionBuilder {
    WalTransactionBuilder::new(
        epoch_id(),
        WalSegmentId::from_raw(segment),
        WalTransactionId::from_hash(digest(&format!("tx:{label}"))),
        kind,
        authority,
        first_lsn,
        digest("previous-frame"),
        digest("previous-commit"),
        WalDurabilityMode::Buffered,
        PayloadCodecId::from_hash(digest("codec")),
        PayloadSchemaId::from_hash(digest("schema")),
        1,
        1,
        digest("domain"),
    )
}

fn frontier(kind: AffectedFrontierKind, label: &str) -> AffectedFrontier {
    AffectedFrontier {
        kind,
        before_digest: digest(&format!("{label}:before")),
        after_digest: digest(&format!("{label}:after")),
    }
}

fn transaction(tx: Tx, segment: u64, first_lsn: Lsn) -> Result<WalCommittedTransaction, String> {
    let label = tx.render();
    match tx {
        Tx::Sub(l) => build_submission_acceptance_transaction(
            builder(
                &label,
                segment,
                first_lsn,
                WalAppendAuthority::SubmissionIntake,
                WalTransactionKind::SubmissionIntake,
            ),
            acceptance(l),
            vec![frontier(AffectedFrontierKind::SubmissionQueue, &label)],
        ),
        Tx::Tick(l) => build_tick_transaction(
            builder(
                &label,
                segment,
                first_lsn,
                WalAppendAuthority::TrustedScheduler,
                WalTransactionKind::SchedulerTick,
            ),
            receipt(l),
            correlation(l),
            digest(&format!("state-delta:{label}")),
            vec![
                frontier(AffectedFrontierKind::RuntimeState, &format!("state:{label}")),
                frontier(AffectedFrontierKind::ReceiptIndex, &format!("receipt:{label}")),
            ],
        ),
        Tx::Read(k) => build_retained_reading_transaction(
            builder(
                &label,
                segment,
                first_lsn,
                WalAppendAuthority::TrustedScheduler,
                WalTransactionKind::SchedulerTick,
            ),
            &[material(k)],
            reading(k),
            vec![frontier(AffectedFrontierKind::ReadingIndex, &label)],
        ),
    }
    .map_err(|e| format!("build {label}: {e:?}"))
}

/// A history written to a real filesystem WAL, recovered and projected.
pub struct Built {
    pub history: History,
    pub root: WalRoot,
    pub segments: Vec<(WalSegmentId, Vec<u8>)>,
    pub acceptances: Vec<SubmissionAcceptanceRecord>,
    pub receipts: Vec<TickReceiptRecord>,
    pub correlations: Vec<WalReceiptCorrelationRecord>,
    pub materials: Vec<RetainedMaterialRecord>,
    pub readings: Vec<ReadingRefRecord>,
    pub payloads: Vec<WscSelfContainedRetainedMaterial>,
}

impl Built {
    fn records(&self) -> WscWalCausalHistoryRecords<'_> {
        WscWalCausalHistoryRecords {
            retained_materials: &self.materials,
            reading_refs: &self.readings,
            accepted_submissions: &self.acceptances,
            receipts: &self.receipts,
            correlations: &self.correlations,
            causal_anchors: &[],
        }
    }
    fn segment_materials(&self) -> Vec<WscSelfContainedWalSegmentMaterial> {
        self.segments
            .iter()
            .map(|(id, b)| WscSelfContainedWalSegmentMaterial {
                segment_id: *id,
                segment_bytes: b.clone(),
            })
            .collect()
    }
}

pub fn build(history: &History, dir: &Path) -> Result<Built, String> {
    let _ = std::fs::remove_dir_all(dir);
    std::fs::create_dir_all(dir).map_err(|e| e.to_string())?;
    let e = |x: &dyn std::fmt::Debug| format!("{x:?}");
    let mut store = FilesystemWalStore::open(dir, WalSegmentId::from_raw(1)).map_err(|x| e(&x))?;
    let writer_epoch = store
        .acquire_writer_epoch(WriterEpochRequest {
            epoch_id: epoch_id(),
            storage_fencing_token: digest("c20:fencing"),
            process_identity: digest("c20:process"),
            host_identity: digest("c20:host"),
            started_at_lsn: Lsn::from_raw(0),
            previous_epoch_id: None,
            previous_epoch_final_commit_digest: None,
            lease_or_lock_evidence: digest("c20:lease"),
        })
        .map_err(|x| e(&x))?;
    let mut segment = 1u64;
    let mut lsn = 0u64;
    let mut b = Built {
        history: history.clone(),
        root: WalRoot {
            root_digest: [0; 32],
            writer_epochs: vec![],
            segments: vec![],
            recovery_certificate: None,
        },
        segments: vec![],
        acceptances: vec![],
        receipts: vec![],
        correlations: vec![],
        materials: vec![],
        readings: vec![],
        payloads: vec![],
    };
    let mut last_commit = None;
    for (i, tx) in history.txs.iter().enumerate() {
        let t = transaction(*tx, segment, Lsn::from_raw(lsn))?;
        lsn = t.commit.last_lsn.as_u64() + 1;
        last_commit = Some((t.commit.last_lsn, t.commit.commit_digest));
        store.append_transaction(t).map_err(|x| format!("append {}: {x:?}", tx.render()))?;
        match tx {
            Tx::Sub(l) => b.acceptances.push(acceptance(*l)),
            Tx::Tick(l) => {
                b.receipts.push(receipt(*l));
                b.correlations.push(correlation(*l));
            }
            Tx::Read(k) => {
                b.materials.push(material(*k));
                b.readings.push(reading(*k));
                let m = WscSelfContainedRetainedMaterial {
                    material: material(*k),
                    material_bytes: reading_payload(*k),
                };
                if !b.payloads.iter().any(|p| p.material.material_digest == m.material.material_digest) {
                    b.payloads.push(m);
                }
            }
        }
        if history.rotate_after.contains(&i) {
            store.rotate_segment(epoch_id()).map_err(|x| format!("rotate: {x:?}"))?;
            segment += 1;
        }
    }
    store
        .seal_segment(epoch_id(), WalSegmentId::from_raw(segment))
        .map_err(|x| format!("seal: {x:?}"))?;
    let (last_lsn, last_digest) = last_commit.ok_or("empty history")?;
    store
        .publish_manifest(
            epoch_id(),
            WalManifest {
                manifest_digest: digest("c20:manifest"),
                last_committed_lsn: Some(last_lsn),
                last_commit_digest: Some(last_digest),
                sealed_segment_count: segment,
            },
        )
        .map_err(|x| format!("manifest: {x:?}"))?;
    for s in 1..=segment {
        let id = WalSegmentId::from_raw(s);
        let bytes = std::fs::read(canonical_segment_path(dir, id)).map_err(|x| format!("read segment {s}: {x}"))?;
        b.segments.push((id, bytes));
    }
    let report = recover_filesystem_store(dir, RecoveryAccessMode::ReadOnly).map_err(|x| format!("recover: {x:?}"))?;
    let certificate = build_recovery_certificate(
        &report,
        None,
        0,
        digest("c20:frontier"),
        digest("c20:indexes"),
    );
    let we = WalWriterEpoch::from_writer_epoch(&writer_epoch);
    let projection =
        project_filesystem_wal_recovery(dir, &report, std::slice::from_ref(&we), Some(&certificate));
    b.root = projection
        .root
        .ok_or_else(|| format!("projection {:?}: {:?}", projection.posture, projection.obstructions))?;
    if b.root.segments.len() != b.segments.len() {
        return Err(format!(
            "root has {} segments, {} files",
            b.root.segments.len(),
            b.segments.len()
        ));
    }
    drop(store);
    Ok(b)
}

// ───────────────────────────── CAS ports ─────────────────────────────

/// The real `MemoryTier` behind the validation port (as the repo's tests do).
struct MemPort<'a>(&'a MemoryTier);
impl WscCasBlobStorePort for MemPort<'_> {
    fn cas_blob_bytes(&self, content_hash: &Hash) -> Option<Vec<u8>> {
        self.0.get(&BlobHash::from_bytes(*content_hash)).map(|b| b.to_vec())
    }
}

/// The real `DiskTier` behind the validation port; an integrity error on read is absence.
struct DiskPort<'a>(&'a DiskTier);
impl WscCasBlobStorePort for DiskPort<'_> {
    fn cas_blob_bytes(&self, content_hash: &Hash) -> Option<Vec<u8>> {
        match self.0.get(&BlobHash::from_bytes(*content_hash)) {
            Ok(Some(b)) => Some(b.to_vec()),
            _ => None,
        }
    }
}

/// A plain map port (used for the lying / withholding variants).
struct MapPort(BTreeMap<Hash, Vec<u8>>);
impl WscCasBlobStorePort for MapPort {
    fn cas_blob_bytes(&self, content_hash: &Hash) -> Option<Vec<u8>> {
        self.0.get(content_hash).cloned()
    }
}

// ───────────────────────────── helpers ─────────────────────────────

/// Short, stable name of an error: outer variant plus the interesting inner variant.
fn err_kind<E: std::fmt::Debug>(e: &E) -> String {
    let s = format!("{e:?}");
    let ident = |t: &str| -> String {
        t.chars().take_while(|c| c.is_ascii_alphanumeric() || *c == '_').collect()
    };
    let mut out = ident(&s);
    if let Some(p) = s.find("error: ") {
        let inner: String = s[p + 7..]
            .chars()
            .take_while(|c| c.is_ascii_alphanumeric() || *c == '_' || *c == '(')
            .collect();
        out.push(':');
        out.push_str(inner.trim_end_matches('('));
        if let Some(q) = s[p + 7..].find('(') {
            let inner2 = ident(&s[p + 7 + q + 1..]);
            if !inner2.is_empty() {
                out.push(':');
                out.push_str(&inner2);
            }
        }
    } else if let Some(p) = s.find("kind: ") {
        out.push(':');
        out.push_str(&ident(&s[p + 6..]));
    }
    out
}

fn sorted_debug<T: std::fmt::Debug>(v: &[T]) -> Vec<String> {
    let mut o: Vec<String> = v.iter().map(|x| format!("{x:?}")).collect();
    o.sort();
    o
}

#[derive(Clone, Copy, PartialEq, Eq, Debug)]
pub enum Profile {
    RefOnly,
    SelfContained,
    CasAddressed,
}
impl Profile {
    fn name(&self) -> &'static str {
        match self {
            Profile::RefOnly => "ref-only",
            Profile::SelfContained => "self-contained",
            Profile::CasAddressed => "cas-addressed",
        }
    }
}

/// Shared context of one history job.
struct Ctx<'a> {
    r: &'a Report,
    wit: &'a Witnesses,
    hist_index: usize,
    hist: String,
}

impl Ctx<'_> {
    fn outcome(&self, profile: Profile, fault: &str, result: &str) {
        self.r.outcome(&format!("wsc/{}/{fault}→{result}", profile.name()));
    }
    fn violation(&self, sig: String, fault: Value, extra: Value) {
        let order = (self.hist_index as u64, format!("{fault}"));
        self.wit.add_keyed(
            sig,
            order,
            json!({
                "case": {"part": "wsc", "history": self.hist, "fault": fault},
                "observed": extra,
            }),
        );
    }
}

/// Classify a faulted import: `Err` (typed refusal), `Same` (equal to the honest import) or
/// `Different` (accepted with other content).
enum Verdict {
    Err(String),
    Same,
    Different(String),
}

fn verdict<I: PartialEq + std::fmt::Debug, E: std::fmt::Debug>(res: Result<I, E>, honest: &I) -> Verdict {
    match res {
        Err(e) => Verdict::Err(err_kind(&e)),
        Ok(i) if &i == honest => Verdict::Same,
        Ok(i) => {
            let a = format!("{i:?}");
            let b = format!("{honest:?}");
            let p = a.bytes().zip(b.bytes()).position(|(x, y)| x != y).unwrap_or(0);
            let lo = p.saturating_sub(80);
            Verdict::Different(format!(
                "…{}… vs honest …{}…",
                a.get(lo..(p + 80).min(a.len())).unwrap_or(""),
                b.get(lo..(p + 80).min(b.len())).unwrap_or("")
            ))
        }
    }
}

fn flip(bytes: &[u8], pos: usize, bit: u8) -> Vec<u8> {
    let mut v = bytes.to_vec();
    v[pos] ^= 1 << bit;
    v
}

fn find_sub(hay: &[u8], needle: &[u8]) -> Option<usize> {
    if needle.is_empty() || needle.len() > hay.len() {
        return None;
    }
    let first = hay.windows(needle.len()).position(|w| w == needle)?;
    // must be unique, otherwise the offset is ambiguous
    if hay[first + 1..].windows(needle.len()).any(|w| w == needle) {
        return None;
    }
    Some(first)
}

// envelope accessors ----------------------------------------------------------------------------

trait Export: Clone + Sync {
    fn names() -> &'static [&'static str];
    fn env(&self, i: usize) -> &WscStoreEnvelope;
    fn set_env(&mut self, i: usize, e: WscStoreEnvelope);
}
impl Export for WscRefOnlyWalExport {
    fn names() -> &'static [&'static str] {
        &["projection", "accepted_submission", "receipt_correlation", "causal_anchor", "retention"]
    }
    fn env(&self, i: usize) -> &WscStoreEnvelope {
        [
            &self.projection_envelope,
            &self.accepted_submission_envelope,
            &self.receipt_correlation_envelope,
            &self.causal_anchor_envelope,
            &self.retention_envelope,
        ][i]
    }
    fn set_env(&mut self, i: usize, e: WscStoreEnvelope) {
        *[
            &mut self.projection_envelope,
            &mut self.accepted_submission_envelope,
            &mut self.receipt_correlation_envelope,
            &mut self.causal_anchor_envelope,
            &mut self.retention_envelope,
        ][i] = e;
    }
}
impl Export for WscSelfContainedWalExport {
    fn names() -> &'static [&'static str] {
        &[
            "projection",
            "segment_material",
            "retained_material",
            "accepted_submission",
            "receipt_correlation",
            "causal_anchor",
            "retention",
        ]
    }
    fn env(&self, i: usize) -> &WscStoreEnvelope {
        [
            &self.projection_envelope,
            &self.segment_material_envelope,
            &self.retained_material_envelope,
            &self.accepted_submission_envelope,
            &self.receipt_correlation_envelope,
            &self.causal_anchor_envelope,
            &self.retention_envelope,
        ][i]
    }
    fn set_env(&mut self, i: usize, e: WscStoreEnvelope) {
        *[
            &mut self.projection_envelope,
            &mut self.segment_material_envelope,
            &mut self.retained_material_envelope,
            &mut self.accepted_submission_envelope,
            &mut self.receipt_correlation_envelope,
            &mut self.causal_anchor_envelope,
            &mut self.retention_envelope,
        ][i] = e;
    }
}
impl Export for WscCasAddressedWalExport {
    fn names() -> &'static [&'static str] {
        &[
            "projection",
            "cas_reference",
            "accepted_submission",
            "receipt_correlation",
            "causal_anchor",
            "retention",
        ]
    }
    fn env(&self, i: usize) -> &WscStoreEnvelope {
        [
            &self.projection_envelope,
            &self.cas_reference_envelope,
            &self.accepted_submission_envelope,
            &self.receipt_correlation_envelope,
            &self.causal_anchor_envelope,
            &self.retention_envelope,
        ][i]
    }
    fn set_env(&mut self, i: usize, e: WscStoreEnvelope) {
        *[
            &mut self.projection_envelope,
            &mut self.cas_reference_envelope,
            &mut self.accepted_submission_envelope,
            &mut self.receipt_correlation_envelope,
            &mut self.causal_anchor_envelope,
            &mut self.retention_envelope,
        ][i] = e;
    }
}

/// Flip every byte of every envelope, (a) in the encoded form, (b) in the WSC payload with the
/// envelope digest recomputed (`WscStoreEnvelope::validated`).  Oracle: typed error, or an import
/// equal to the honest one.
fn envelope_flips<X: Export>(
    cx: &Ctx,
    profile: Profile,
    export: &X,
    bits: &[u8],
    validate: &(dyn Fn(&X) -> Verdict + Sync),
) {
    for (ei, name) in X::names().iter().enumerate() {
        let env = export.env(ei).clone();
        let encoded = env.encode();
        let wsc = env.wsc_bytes().to_vec();
        // (a) encoded form: header fields + payload
        let n = encoded.len();
        (0..n).into_par_iter().for_each(|pos| {
            for &bit in bits {
                cx.r.eval(1);
                let fault = format!("envelope-{name}-encoded-byte-flip");
                match WscStoreEnvelope::decode(&flip(&encoded, pos, bit)) {
                    Err(e) => cx.outcome(profile, &fault, &format!("decode-Err:{}", err_kind(&e))),
                    Ok(e2) => {
                        let mut x = export.clone();
                        x.set_env(ei, e2);
                        match validate(&x) {
                            Verdict::Err(k) => cx.outcome(profile, &fault, &format!("import-Err:{k}")),
                            Verdict::Same => cx.outcome(profile, &fault, "import-Ok-identical"),
                            Verdict::Different(d) => {
                                cx.outcome(profile, &fault, "import-Ok-DIFFERENT");
                                cx.violation(
                                    format!("wsc:{}:envelope-{name}-encoded-byte-flip-import-ok-with-different-records", profile.name()),
                                    json!({"kind": fault, "profile": profile.name(), "envelope": name, "pos": pos, "bit": bit}),
                                    json!(d),
                                );
                            }
                        }
                    }
                }
            }
        });
        // (b) WSC payload with a recomputed envelope digest
        (0..wsc.len()).into_par_iter().for_each(|pos| {
            for &bit in bits {
                cx.r.eval(1);
                let fault = format!("envelope-{name}-rewrapped-byte-flip");
                match WscStoreEnvelope::validated(env.record_kind(), *env.basis_digest(), flip(&wsc, pos, bit)) {
                    Err(e) => cx.outcome(profile, &fault, &format!("rewrap-Err:{}", err_kind(&e))),
                    Ok(e2) => {
                        let mut x = export.clone();
                        x.set_env(ei, e2);
                        match validate(&x) {
                            Verdict::Err(k) => cx.outcome(profile, &fault, &format!("import-Err:{k}")),
                            Verdict::Same => cx.outcome(profile, &fault, "import-Ok-identical"),
                            Verdict::Different(d) => {
                                cx.outcome(profile, &fault, "import-Ok-DIFFERENT");
                                cx.violation(
                                    format!("wsc:{}:envelope-{name}-rewrapped-byte-flip-import-ok-with-different-records", profile.name()),
                                    json!({"kind": fault, "profile": profile.name(), "envelope": name, "pos": pos, "bit": bit}),
                                    json!(d),
                                );
                            }
                        }
                    }
                }
            }
        });
    }
}

/// A blob-level fault (withheld / corrupted referenced material) must be refused.
fn must_refuse(cx: &Ctx, profile: Profile, fault_kind: &str, fault: Value, v: Verdict) {
    cx.r.eval(1);
    match v {
        Verdict::Err(k) => {
            cx.r.counter(&format!("wsc-refused/{}/{fault_kind}", profile.name()), 1);
            cx.outcome(profile, fault_kind, &format!("Err:{k}"))
        }
        Verdict::Same | Verdict::Different(_) => {
            let how = if matches!(v, Verdict::Same) { "identical-import" } else { "different-import" };
            cx.outcome(profile, fault_kind, &format!("ACCEPTED-{how}"));
            cx.violation(
                format!("wsc:{}:{fault_kind}-accepted", profile.name()),
                fault,
                json!(match v {
                    Verdict::Different(d) => format!("import Ok with different content: {d}"),
                    _ => "import Ok, equal to the honest import although the material is missing/corrupt".to_string(),
                }),
            );
        }
    }
}

// ───────────────────────────── one history ─────────────────────────────

pub struct Bounds {
    /// bits flipped per byte
    pub bits: Vec<u8>,
    /// flip every byte of every blob/segment for this history
    pub blob_flips: bool,
    /// flip every byte of every envelope for this history
    pub envelope_flips: bool,
}

fn check_equal_records(
    cx: &Ctx,
    profile: Profile,
    b: &Built,
    acc: &[SubmissionAcceptanceRecord],
    rec: &[TickReceiptRecord],
    cor: &[WalReceiptCorrelationRecord],
    mats: &[RetainedMaterialRecord],
    reads: &[ReadingRefRecord],
    root_identity: Hash,
) -> bool {
    let mut ok = true;
    let mut cmp = |field: &str, got: Vec<String>, want: Vec<String>| {
        if got != want {
            ok = false;
            cx.violation(
                format!("wsc:{}:roundtrip-records-differ:{field}", profile.name()),
                json!({"kind": "honest-roundtrip", "profile": profile.name()}),
                json!({"imported": got, "source": want}),
            );
        }
    };
    cmp("accepted_submissions", sorted_debug(acc), sorted_debug(&b.acceptances));
    cmp("receipts", sorted_debug(rec), sorted_debug(&b.receipts));
    cmp("correlations", sorted_debug(cor), sorted_debug(&b.correlations));
    cmp("retained_materials", sorted_debug(mats), sorted_debug(&b.materials));
    cmp("reading_refs", sorted_debug(reads), sorted_debug(&b.readings));
    cmp(
        "root_identity",
        vec![mc::hex(&root_identity)],
        vec![mc::hex(&b.root.identity_digest())],
    );
    ok
}

pub struct HistoryOutcome {
    pub sample: Value,
    pub exports_ok: u32,
    pub segment_bytes: usize,
}

pub fn check_history(
    r: &Report,
    wit: &Witnesses,
    hist_index: usize,
    b: &Built,
    bounds: &Bounds,
    scratch: &Path,
) -> HistoryOutcome {
    let cx = Ctx {
        r,
        wit,
        hist_index,
        hist: b.history.render(),
    };
    let mut exports_ok = 0;
    let mut sample = json!({"history": cx.hist, "segments": b.segments.iter().map(|(id, s)| json!({"id": id.as_u64(), "bytes": s.len()})).collect::<Vec<_>>(),
        "records": {"accepted": b.acceptances.len(), "receipts": b.receipts.len(), "retained_materials": b.materials.len(), "readings": b.readings.len()}});
    let bits = &bounds.bits;

    // ── ref-only ─────────────────────────────────────────────────────────────────────────────
    r.eval(1);
    match wsc_ref_only_wal_export(&b.root, b.records()) {
        Err(e) => cx.outcome(Profile::RefOnly, "honest-export", &format!("export-Err:{}", err_kind(&e))),
        Ok(export) => match validate_wsc_ref_only_wal_export(&export, &b.root) {
            Err(e) => {
                cx.outcome(Profile::RefOnly, "honest-roundtrip", "IMPORT-FAILED");
                cx.violation(
                    "wsc:ref-only:roundtrip-import-failed".into(),
                    json!({"kind": "honest-roundtrip", "profile": "ref-only"}),
                    json!(format!("{e:?}")),
                );
            }
            Ok(honest) => {
                exports_ok += 1;
                cx.outcome(Profile::RefOnly, "honest-roundtrip", "Ok-equal-records");
                check_equal_records(
                    &cx,
                    Profile::RefOnly,
                    b,
                    &honest.accepted_submissions,
                    &honest.receipts,
                    &honest.correlations,
                    &honest.retention.materials,
                    &honest.retention.readings,
                    honest.root_identity_digest,
                );
                ref_only_faults(&cx, b, &export, &honest, bounds);
            }
        },
    }

    // ── self-contained ───────────────────────────────────────────────────────────────────────
    r.eval(1);
    match wsc_self_contained_wal_export(&b.root, &b.segment_materials(), &b.payloads, b.records()) {
        Err(e) => cx.outcome(Profile::SelfContained, "honest-export", &format!("export-Err:{}", err_kind(&e))),
        Ok(export) => match validate_wsc_self_contained_wal_export(&export, &b.root) {
            Err(e) => {
                cx.outcome(Profile::SelfContained, "honest-roundtrip", "IMPORT-FAILED");
                cx.violation(
                    "wsc:self-contained:roundtrip-import-failed".into(),
                    json!({"kind": "honest-roundtrip", "profile": "self-contained"}),
                    json!(format!("{e:?}")),
                );
            }
            Ok(honest) => {
                exports_ok += 1;
                cx.outcome(Profile::SelfContained, "honest-roundtrip", "Ok-equal-records");
                let ok = check_equal_records(
                    &cx,
                    Profile::SelfContained,
                    b,
                    &honest.accepted_submissions,
                    &honest.receipts,
                    &honest.correlations,
                    &honest.retention.materials,
                    &honest.retention.readings,
                    honest.root_identity_digest,
                );
                if sorted_debug(&honest.retained_payloads) != sorted_debug(&b.payloads) && ok {
                    cx.violation(
                        "wsc:self-contained:roundtrip-records-differ:retained_payloads".into(),
                        json!({"kind": "honest-roundtrip", "profile": "self-contained"}),
                        json!({"imported": sorted_debug(&honest.retained_payloads), "source": sorted_debug(&b.payloads)}),
                    );
                }
                let seg_got: Vec<(u64, Hash, usize)> = honest
                    .segment_recoveries
                    .iter()
                    .map(|s| (s.segment_id.as_u64(), s.segment_digest, s.report.transactions.len()))
                    .collect();
                let seg_want: Vec<(u64, Hash)> =
                    b.root.segments.iter().map(|s| (s.segment_id.as_u64(), s.segment_digest)).collect();
                let total_tx: usize = seg_got.iter().map(|x| x.2).sum();
                if seg_got.iter().map(|x| (x.0, x.1)).collect::<Vec<_>>() != seg_want || total_tx != b.history.txs.len() {
                    cx.violation(
                        "wsc:self-contained:roundtrip-records-differ:segment_recoveries".into(),
                        json!({"kind": "honest-roundtrip", "profile": "self-contained"}),
                        json!(format!("{seg_got:?} vs {seg_want:?}; txs {total_tx} vs {}", b.history.txs.len())),
                    );
                }
                sample["self_contained_envelope_bytes"] = json!(WscSelfContainedWalExport::names()
                    .iter()
                    .enumerate()
                    .map(|(i, n)| (n.to_string(), export.env(i).encode().len()))
                    .collect::<BTreeMap<_, _>>());
                self_contained_faults(&cx, b, &export, &honest, bounds);
            }
        },
    }

    // ── CAS-addressed ────────────────────────────────────────────────────────────────────────
    // The CAS is the real MemoryTier (segments by `put`, retained payloads through the real
    // RetainedBlobIndex, as the repository's tests do) and, in parallel, a real DiskTier.
    let mut mem = MemoryTier::new();
    let disk_dir = scratch.join(format!("cas-{hist_index}"));
    let _ = std::fs::remove_dir_all(&disk_dir);
    let disk = match DiskTier::open(&disk_dir) {
        Ok(d) => d,
        Err(e) => {
            r.machinery_error(&format!("wsc: DiskTier::open: {e}"));
            return HistoryOutcome { sample, exports_ok, segment_bytes: 0 };
        }
    };
    let mut index = RetainedBlobIndex::default();
    let mut seg_refs = Vec::new();
    let mut blobs: Vec<(String, Hash, Vec<u8>)> = Vec::new(); // (what, content hash, bytes)
    for (id, bytes) in &b.segments {
        let h = *mem.put(bytes).as_bytes();
        let _ = disk.put(bytes);
        seg_refs.push(WscCasAddressedWalSegmentMaterial {
            segment_id: *id,
            content_hash: h,
            semantic_coordinate_digest: digest(&format!("c20:segment:{}", id.as_u64())),
            byte_len: bytes.len() as u64,
        });
        blobs.push((format!("segment-{}", id.as_u64()), h, bytes.clone()));
    }
    let mut ret_refs = Vec::new();
    for m in &b.materials {
        let bytes = b
            .payloads
            .iter()
            .find(|p| p.material.material_digest == m.material_digest)
            .map(|p| p.material_bytes.clone())
            .unwrap_or_default();
        let coordinate = SemanticBlobCoordinate {
            namespace: "echo:verif-c20-wsc".to_owned(),
            schema_hash_hex: "00".repeat(32),
            artifact_hash_hex: "11".repeat(32),
            role: RetainedBlobRole::ReadingPayload,
            semantic_digest: m.semantic_coordinate_digest,
        };
        match index.retain(&mut mem, coordinate, &bytes) {
            Ok(d) => {
                let _ = disk.put(&bytes);
                ret_refs.push(WscCasAddressedRetainedMaterialReference {
                    material_kind: m.kind,
                    content_hash: *d.content_hash.as_bytes(),
                    semantic_coordinate_digest: d.coordinate.semantic_digest,
                    byte_len: d.byte_len,
                });
                if !blobs.iter().any(|x| x.1 == *d.content_hash.as_bytes()) {
                    blobs.push((format!("retained-{}", mc::hex(&m.semantic_coordinate_digest[..3])), *d.content_hash.as_bytes(), bytes));
                }
            }
            Err(e) => {
                // equal coordinate + different content: refused by the semantic index (typed)
                cx.outcome(Profile::CasAddressed, "retain-into-cas", &format!("Err:{}", err_kind(&e)));
            }
        }
    }
    r.eval(1);
    match wsc_cas_addressed_wal_export(&b.root, &seg_refs, &ret_refs, b.records()) {
        Err(e) => cx.outcome(Profile::CasAddressed, "honest-export", &format!("export-Err:{}", err_kind(&e))),
        Ok(export) => {
            let via_mem = validate_wsc_cas_addressed_wal_export(&export, &b.root, &MemPort(&mem));
            let via_disk = validate_wsc_cas_addressed_wal_export(&export, &b.root, &DiskPort(&disk));
            match (via_mem, via_disk) {
                (Ok(honest), Ok(h2)) => {
                    exports_ok += 1;
                    cx.outcome(Profile::CasAddressed, "honest-roundtrip", "Ok-equal-records");
                    if honest != h2 {
                        cx.violation(
                            "wsc:cas-addressed:import-differs-between-memory-and-disk-cas".into(),
                            json!({"kind": "honest-roundtrip", "profile": "cas-addressed"}),
                            json!("imports differ"),
                        );
                    }
                    check_equal_records(
                        &cx,
                        Profile::CasAddressed,
                        b,
                        &honest.accepted_submissions,
                        &honest.receipts,
                        &honest.correlations,
                        &honest.retention.materials,
                        &honest.retention.readings,
                        honest.root_identity_digest,
                    );
                    if sorted_debug(&honest.cas_references.retained_materials) != sorted_debug(&ret_refs) {
                        cx.violation(
                            "wsc:cas-addressed:roundtrip-records-differ:cas_references".into(),
                            json!({"kind": "honest-roundtrip", "profile": "cas-addressed"}),
                            json!({"imported": sorted_debug(&honest.cas_references.retained_materials), "source": sorted_debug(&ret_refs)}),
                        );
                    }
                    cas_faults(&cx, b, &export, &honest, &seg_refs, &ret_refs, &blobs, &disk, &disk_dir, bounds);
                }
                (a, d) => {
                    cx.outcome(Profile::CasAddressed, "honest-roundtrip", "IMPORT-FAILED");
                    cx.violation(
                        "wsc:cas-addressed:roundtrip-import-failed".into(),
                        json!({"kind": "honest-roundtrip", "profile": "cas-addressed"}),
                        json!(format!("memory: {:?} / disk: {:?}", a.err().map(|e| err_kind(&e)), d.err().map(|e| err_kind(&e)))),
                    );
                }
            }
        }
    }
    drop(disk);
    let _ = std::fs::remove_dir_all(&disk_dir);
    let _ = bits;
    HistoryOutcome {
        sample,
        exports_ok,
        segment_bytes: b.segments.iter().map(|s| s.1.len()).sum(),
    }
}

// ───────────────────────────── ref-only faults ─────────────────────────────

fn ref_only_faults(cx: &Ctx, b: &Built, export: &WscRefOnlyWalExport, honest: &WscRefOnlyWalImport, bounds: &Bounds) {
    let p = Profile::RefOnly;
    let validate = |x: &WscRefOnlyWalExport| verdict(validate_wsc_ref_only_wal_export(x, &b.root), honest);
    // every field of every external segment dependency altered individually
    for (i, dep) in export.segment_dependencies.iter().enumerate() {
        let mut variants: Vec<(&str, warp_core::wsc::WscRefOnlyWalSegmentDependency)> = Vec::new();
        let mut d = dep.clone();
        d.segment_digest[0] ^= 1;
        variants.push(("segment_digest", d));
        let mut d = dep.clone();
        d.segment_identity_digest[31] ^= 0x80;
        variants.push(("segment_identity_digest", d));
        let mut d = dep.clone();
        d.first_lsn = Lsn::from_raw(dep.first_lsn.as_u64() + 1);
        variants.push(("first_lsn", d));
        let mut d = dep.clone();
        d.last_lsn = Lsn::from_raw(dep.last_lsn.as_u64() + 1);
        variants.push(("last_lsn", d));
        let mut d = dep.clone();
        d.segment_id = WalSegmentId::from_raw(dep.segment_id.as_u64() + 7);
        variants.push(("segment_id", d));
        let mut d = dep.clone();
        if let Some(a) = d.commit_anchor_digests.first_mut() {
            a[5] ^= 4;
        }
        variants.push(("commit_anchor_digest", d));
        let mut d = dep.clone();
        d.commit_anchor_digests.pop();
        variants.push(("commit_anchor_dropped", d));
        for (field, d) in variants {
            let mut x = export.clone();
            x.segment_dependencies[i] = d;
            must_refuse(
                cx,
                p,
                "altered-segment-dependency",
                json!({"kind": "altered-segment-dependency", "profile": p.name(), "dependency": i, "field": field}),
                validate(&x),
            );
        }
        // dependency withheld
        let mut x = export.clone();
        x.segment_dependencies.remove(i);
        must_refuse(
            cx,
            p,
            "withheld-segment-dependency",
            json!({"kind": "withheld-segment-dependency", "profile": p.name(), "dependency": i}),
            validate(&x),
        );
    }
    if bounds.envelope_flips {
        envelope_flips(cx, p, export, &bounds.bits, &validate);
    }
}

// ───────────────────────────── self-contained faults ─────────────────────────────

fn retained_payload_bytes(m: &WscSelfContainedRetainedMaterial) -> Vec<u8> {
    let rec = m.material.to_payload_bytes();
    let mut out = Vec::new();
    out.extend_from_slice(&(rec.len() as u64).to_le_bytes());
    out.extend_from_slice(&rec);
    out.extend_from_slice(&(m.material_bytes.len() as u64).to_le_bytes());
    out.extend_from_slice(&m.material_bytes);
    out
}

/// What an attacker who knows the (public) format computes for a forged retained-material envelope:
/// the basis digest over the canonically ordered material payloads.
fn forged_retained_basis(materials: &[WscSelfContainedRetainedMaterial]) -> Hash {
    let mut ms = materials.to_vec();
    ms.sort_by_key(|m| m.material.material_digest);
    let mut h = blake3::Hasher::new();
    h.update(b"echo:wsc_store:self_contained_retained_basis:v1\0");
    for m in &ms {
        h.update(&retained_payload_bytes(m));
    }
    h.finalize().into()
}

fn segment_payload_bytes(id: WalSegmentId, bytes: &[u8]) -> Vec<u8> {
    let mut out = Vec::new();
    out.extend_from_slice(&id.as_u64().to_le_bytes());
    out.extend_from_slice(&(bytes.len() as u64).to_le_bytes());
    out.extend_from_slice(bytes);
    out
}

fn forged_segment_basis(segments: &[(WalSegmentId, Vec<u8>)]) -> Hash {
    let mut ss = segments.to_vec();
    ss.sort_by_key(|s| s.0);
    let mut h = blake3::Hasher::new();
    h.update(b"echo:wsc_store:self_contained_wal_segment_basis:v1\0");
    for (id, bytes) in &ss {
        h.update(&segment_payload_bytes(*id, bytes));
    }
    h.finalize().into()
}

fn self_contained_faults(
    cx: &Ctx,
    b: &Built,
    export: &WscSelfContainedWalExport,
    honest: &WscSelfContainedWalImport,
    bounds: &Bounds,
) {
    let p = Profile::SelfContained;
    let validate =
        |x: &WscSelfContainedWalExport| verdict(validate_wsc_self_contained_wal_export(x, &b.root), honest);

    // sanity of the forging recipe: the honest envelopes must carry the basis we compute
    let seg_basis_ok = *export.segment_material_envelope.basis_digest() == forged_segment_basis(&b.segments);
    let ret_basis_ok = *export.retained_material_envelope.basis_digest() == forged_retained_basis(&b.payloads);
    cx.r.guard("wsc_forging_recipe_matches_honest_basis_digests", seg_basis_ok && ret_basis_ok);

    // ── each embedded segment withheld ──
    for (si, (id, _)) in b.segments.iter().enumerate() {
        let fault = json!({"kind": "withheld-embedded-segment", "profile": p.name(), "segment": id.as_u64()});
        // (i) the real exporter asked to leave it out
        cx.r.eval(1);
        let mut fewer = b.segment_materials();
        fewer.remove(si);
        match wsc_self_contained_wal_export(&b.root, &fewer, &b.payloads, b.records()) {
            Err(e) => cx.outcome(p, "withheld-embedded-segment@export", &format!("export-Err:{}", err_kind(&e))),
            Ok(x) => must_refuse(cx, p, "withheld-embedded-segment", fault.clone(), validate(&x)),
        }
        // (ii) a well-formed segment envelope that lacks it (built by the real exporter for the root
        //      without that segment) spliced into the honest export
        let mut sub_root = b.root.clone();
        sub_root.segments.retain(|s| s.segment_id != *id);
        match wsc_self_contained_wal_export(&sub_root, &fewer, &[], WscWalCausalHistoryRecords::empty()) {
            Err(e) => cx.r.machinery_error(&format!("wsc: sub-root export failed: {}", err_kind(&e))),
            Ok(sub) => {
                let mut x = export.clone();
                x.segment_material_envelope = sub.segment_material_envelope;
                must_refuse(cx, p, "withheld-embedded-segment", fault, validate(&x));
            }
        }
    }

    // ── each embedded retained payload withheld ──
    for (pi, pay) in b.payloads.iter().enumerate() {
        let fault = json!({"kind": "withheld-embedded-retained-payload", "profile": p.name(), "material": mc::hex(&pay.material.material_digest[..4])});
        cx.r.eval(1);
        let mut fewer = b.payloads.clone();
        fewer.remove(pi);
        match wsc_self_contained_wal_export(&b.root, &b.segment_materials(), &fewer, b.records()) {
            Err(e) => cx.outcome(p, "withheld-embedded-retained-payload@export", &format!("export-Err:{}", err_kind(&e))),
            Ok(x) => must_refuse(cx, p, "withheld-embedded-retained-payload", fault.clone(), validate(&x)),
        }
        // well-formed retained envelope lacking it: exporter run on the record set without the
        // material, spliced into the honest export (whose retention records still name it)
        let mats: Vec<RetainedMaterialRecord> = b
            .materials
            .iter()
            .copied()
            .filter(|m| m.material_digest != pay.material.material_digest)
            .collect();
        let recs = WscWalCausalHistoryRecords {
            retained_materials: &mats,
            ..WscWalCausalHistoryRecords::empty()
        };
        match wsc_self_contained_wal_export(&b.root, &b.segment_materials(), &fewer, recs) {
            Err(e) => cx.r.machinery_error(&format!("wsc: reduced retained export failed: {}", err_kind(&e))),
            Ok(sub) => {
                let mut x = export.clone();
                x.retained_material_envelope = sub.retained_material_envelope;
                must_refuse(cx, p, "withheld-embedded-retained-payload", fault, validate(&x));
            }
        }
    }

    if bounds.blob_flips {
        // ── every byte of every embedded segment flipped ──
        let seg_wsc = export.segment_material_envelope.wsc_bytes().to_vec();
        for (si, (id, bytes)) in b.segments.iter().enumerate() {
            let off = find_sub(&seg_wsc, bytes);
            if off.is_none() {
                cx.r.machinery_error("wsc: embedded segment bytes not found (uniquely) in the segment envelope");
            }
            (0..bytes.len()).into_par_iter().for_each(|pos| {
                for &bit in &bounds.bits {
                    let fault = json!({"kind": "corrupt-embedded-segment", "profile": p.name(), "segment": id.as_u64(), "pos": pos, "bit": bit});
                    let tampered = flip(bytes, pos, bit);
                    // (i) through the real exporter (it embeds whatever bytes it is given)
                    let mut mats = b.segment_materials();
                    mats[si].segment_bytes = tampered.clone();
                    match wsc_self_contained_wal_export(&b.root, &mats, &[], WscWalCausalHistoryRecords::empty()) {
                        Err(e) => {
                            cx.r.eval(1);
                            cx.outcome(p, "corrupt-embedded-segment-via-exporter@export", &format!("export-Err:{}", err_kind(&e)));
                        }
                        Ok(t) => {
                            let mut x = export.clone();
                            x.segment_material_envelope = t.segment_material_envelope;
                            must_refuse(cx, p, "corrupt-embedded-segment-via-exporter", fault.clone(), validate(&x));
                        }
                    }
                    // (ii) forged envelope: byte flipped inside the WSC payload, envelope digest and
                    //      basis digest recomputed by the attacker
                    if let Some(off) = off {
                        let mut segs = b.segments.clone();
                        segs[si].1 = tampered;
                        match WscStoreEnvelope::validated(
                            export.segment_material_envelope.record_kind(),
                            forged_segment_basis(&segs),
                            flip(&seg_wsc, off + pos, bit),
                        ) {
                            Err(e) => {
                                cx.r.eval(1);
                                cx.outcome(p, "corrupt-embedded-segment-forged-envelope", &format!("rewrap-Err:{}", err_kind(&e)));
                            }
                            Ok(env) => {
                                let mut x = export.clone();
                                x.segment_material_envelope = env;
                                must_refuse(cx, p, "corrupt-embedded-segment-forged-envelope", fault, validate(&x));
                            }
                        }
                    }
                }
            });
            // truncations of the embedded segment (every prefix is a crash image of the file)
            (0..bytes.len()).into_par_iter().for_each(|len| {
                let fault = json!({"kind": "truncated-embedded-segment", "profile": p.name(), "segment": id.as_u64(), "len": len});
                let mut mats = b.segment_materials();
                mats[si].segment_bytes.truncate(len);
                match wsc_self_contained_wal_export(&b.root, &mats, &[], WscWalCausalHistoryRecords::empty()) {
                    Err(e) => {
                        cx.r.eval(1);
                        cx.outcome(p, "truncated-embedded-segment@export", &format!("export-Err:{}", err_kind(&e)));
                    }
                    Ok(t) => {
                        let mut x = export.clone();
                        x.segment_material_envelope = t.segment_material_envelope;
                        must_refuse(cx, p, "truncated-embedded-segment", fault, validate(&x));
                    }
                }
            });
        }

        // ── every byte of every embedded retained payload flipped ──
        let ret_wsc = export.retained_material_envelope.wsc_bytes().to_vec();
        for (pi, pay) in b.payloads.iter().enumerate() {
            let off = find_sub(&ret_wsc, &pay.material_bytes);
            if off.is_none() {
                cx.r.machinery_error("wsc: embedded retained payload not found (uniquely) in the retained envelope");
            }
            for pos in 0..pay.material_bytes.len() {
                for &bit in &bounds.bits {
                    let fault = json!({"kind": "corrupt-embedded-retained-payload", "profile": p.name(), "material": mc::hex(&pay.material.material_digest[..4]), "pos": pos, "bit": bit});
                    let tampered = flip(&pay.material_bytes, pos, bit);
                    // (i) the real exporter given tampered bytes under the honest record
                    cx.r.eval(1);
                    let mut pays = b.payloads.clone();
                    pays[pi].material_bytes = tampered.clone();
                    match wsc_self_contained_wal_export(&b.root, &b.segment_materials(), &pays, b.records()) {
                        Err(e) => cx.outcome(p, "corrupt-embedded-retained-payload-via-exporter@export", &format!("export-Err:{}", err_kind(&e))),
                        Ok(x) => must_refuse(cx, p, "corrupt-embedded-retained-payload-via-exporter", fault.clone(), validate(&x)),
                    }
                    // (ii) substitution: a well-formed envelope for the tampered bytes (record
                    //      re-addressed to their hash) spliced into the honest export
                    let mut lie = pays.clone();
                    lie[pi].material.material_digest = blake3::hash(&tampered).into();
                    let lie_mats: Vec<RetainedMaterialRecord> = lie.iter().map(|m| m.material).collect();
                    let recs = WscWalCausalHistoryRecords {
                        retained_materials: &lie_mats,
                        ..WscWalCausalHistoryRecords::empty()
                    };
                    match wsc_self_contained_wal_export(&b.root, &b.segment_materials(), &lie, recs) {
                        Err(e) => cx.r.machinery_error(&format!("wsc: substitution export failed: {}", err_kind(&e))),
                        Ok(sub) => {
                            let mut x = export.clone();
                            x.retained_material_envelope = sub.retained_material_envelope;
                            must_refuse(cx, p, "corrupt-embedded-retained-payload-substituted", fault.clone(), validate(&x));
                        }
                    }
                    // (iii) forged envelope: honest record, tampered bytes, digests recomputed
                    if let Some(off) = off {
                        match WscStoreEnvelope::validated(
                            export.retained_material_envelope.record_kind(),
                            forged_retained_basis(&pays),
                            flip(&ret_wsc, off + pos, bit),
                        ) {
                            Err(e) => {
                                cx.r.eval(1);
                                cx.outcome(p, "corrupt-embedded-retained-payload-forged-envelope", &format!("rewrap-Err:{}", err_kind(&e)));
                            }
                            Ok(env) => {
                                let mut x = export.clone();
                                x.retained_material_envelope = env;
                                must_refuse(cx, p, "corrupt-embedded-retained-payload-forged-envelope", fault, validate(&x));
                            }
                        }
                    }
                }
            }
        }
    }
    if bounds.envelope_flips {
        envelope_flips(cx, p, export, &bounds.bits, &validate);
    }
}

// ───────────────────────────── CAS-addressed faults ─────────────────────────────

#[allow(clippy::too_many_arguments)]
fn cas_faults(
    cx: &Ctx,
    b: &Built,
    export: &WscCasAddressedWalExport,
    honest: &WscCasAddressedWalImport,
    seg_refs: &[WscCasAddressedWalSegmentMaterial],
    ret_refs: &[WscCasAddressedRetainedMaterialReference],
    blobs: &[(String, Hash, Vec<u8>)],
    disk: &DiskTier,
    disk_dir: &Path,
    bounds: &Bounds,
) {
    let p = Profile::CasAddressed;
    let full: BTreeMap<Hash, Vec<u8>> = blobs.iter().map(|(_, h, b)| (*h, b.clone())).collect();
    let validate_with = |x: &WscCasAddressedWalExport, port: &dyn WscCasBlobStorePort| {
        verdict(validate_wsc_cas_addressed_wal_export(x, &b.root, port), honest)
    };
    let blob_path = |h: &Hash| -> PathBuf {
        let hex = mc::hex(h);
        disk_dir.join("blobs").join(&hex[..2]).join(hex)
    };

    for (what, h, bytes) in blobs {
        // ── withheld: a real MemoryTier holding everything else; the DiskTier file deleted ──
        let fault = json!({"kind": "withheld-cas-blob", "profile": p.name(), "blob": what});
        let mut other = MemoryTier::new();
        for (_, h2, b2) in blobs {
            if h2 != h {
                other.put(b2);
            }
        }
        must_refuse(cx, p, "withheld-cas-blob-memory-tier", fault.clone(), validate_with(export, &MemPort(&other)));
        let path = blob_path(h);
        if std::fs::remove_file(&path).is_err() {
            cx.r.machinery_error("wsc: blob file to withhold not found in DiskTier");
        }
        must_refuse(cx, p, "withheld-cas-blob-disk-tier", fault, validate_with(export, &DiskPort(disk)));
        let _ = disk.put(bytes);

        // ── length lie in the reference ──
        for delta in [1i64, -1] {
            let fault = json!({"kind": "cas-reference-length-lie", "profile": p.name(), "blob": what, "delta": delta});
            let mut s2 = seg_refs.to_vec();
            let mut r2 = ret_refs.to_vec();
            for s in &mut s2 {
                if s.content_hash == *h {
                    s.byte_len = (s.byte_len as i64 + delta) as u64;
                }
            }
            for s in &mut r2 {
                if s.content_hash == *h {
                    s.byte_len = (s.byte_len as i64 + delta) as u64;
                }
            }
            cx.r.eval(1);
            match wsc_cas_addressed_wal_export(&b.root, &s2, &r2, b.records()) {
                Err(e) => cx.outcome(p, "cas-reference-length-lie@export", &format!("export-Err:{}", err_kind(&e))),
                Ok(x) => must_refuse(cx, p, "cas-reference-length-lie", fault, validate_with(&x, &MapPort(full.clone()))),
            }
        }

        if !bounds.blob_flips {
            continue;
        }
        let is_segment = seg_refs.iter().any(|s| s.content_hash == *h);
        (0..bytes.len()).into_par_iter().for_each(|pos| {
            for &bit in &bounds.bits {
                let fault = json!({"kind": "corrupt-cas-blob", "profile": p.name(), "blob": what, "pos": pos, "bit": bit});
                let tampered = flip(bytes, pos, bit);
                // (i) a CAS that answers the honest hash with tampered bytes
                let mut lying = full.clone();
                lying.insert(*h, tampered.clone());
                must_refuse(cx, p, "corrupt-cas-blob-lying-store", fault.clone(), validate_with(export, &MapPort(lying)));
                // (ii) consistent lie: the reference names hash(tampered) and the CAS holds the
                //      tampered bytes under it
                let th: Hash = blake3::hash(&tampered).into();
                let mut s2 = seg_refs.to_vec();
                let mut r2 = ret_refs.to_vec();
                for s in &mut s2 {
                    if s.content_hash == *h {
                        s.content_hash = th;
                    }
                }
                for s in &mut r2 {
                    if s.content_hash == *h {
                        s.content_hash = th;
                    }
                }
                let recs = if is_segment { WscWalCausalHistoryRecords::empty() } else { b.records() };
                let (s2u, r2u): (&[_], &[_]) = if is_segment { (&s2, &[]) } else { (&s2, &r2) };
                match wsc_cas_addressed_wal_export(&b.root, s2u, r2u, recs) {
                    Err(e) => {
                        cx.r.eval(1);
                        cx.outcome(p, "corrupt-cas-blob-consistent-lie@export", &format!("export-Err:{}", err_kind(&e)));
                    }
                    Ok(t) => {
                        let mut x = export.clone();
                        x.cas_reference_envelope = t.cas_reference_envelope;
                        let mut store = full.clone();
                        store.insert(th, tampered);
                        must_refuse(cx, p, "corrupt-cas-blob-consistent-lie", fault, validate_with(&x, &MapPort(store)));
                    }
                }
            }
        });
        // (iii) the DiskTier file itself damaged, every byte (sequential: one file)
        let path = blob_path(h);
        for pos in 0..bytes.len() {
            let fault = json!({"kind": "corrupt-cas-blob", "profile": p.name(), "blob": what, "pos": pos, "bit": 0, "via": "disk-tier-file"});
            if std::fs::write(&path, flip(bytes, pos, bounds.bits[pos % bounds.bits.len()])).is_err() {
                cx.r.machinery_error("wsc: cannot damage DiskTier blob file");
            }
            must_refuse(cx, p, "corrupt-cas-blob-disk-tier-file", fault, validate_with(export, &DiskPort(disk)));
        }
        // truncated / extended file
        for (how, data) in [("truncated", bytes[..bytes.len().saturating_sub(1)].to_vec()), ("extended", [bytes.as_slice(), &[0u8]].concat())] {
            let fault = json!({"kind": "corrupt-cas-blob", "profile": p.name(), "blob": what, "via": format!("disk-tier-file-{how}")});
            let _ = std::fs::write(&path, &data);
            must_refuse(cx, p, "corrupt-cas-blob-disk-tier-file", fault.clone(), validate_with(export, &DiskPort(disk)));
            let mut lying = full.clone();
            lying.insert(*h, data);
            must_refuse(cx, p, "corrupt-cas-blob-lying-store", fault, validate_with(export, &MapPort(lying)));
        }
        let _ = disk.put(bytes);
        match disk.get(&BlobHash::from_bytes(*h)) {
            Ok(Some(_)) => {}
            _ => cx.r.machinery_error("wsc: DiskTier blob not restored after damage"),
        }
    }
    if bounds.envelope_flips {
        let port = MapPort(full.clone());
        let validate = |x: &WscCasAddressedWalExport| validate_with(x, &port);
        envelope_flips(cx, p, export, &bounds.bits, &validate);
    }
}

// ───────────────────────────── driver ─────────────────────────────

pub fn run(r: &Report, wit: &Witnesses) {
    let scratch = mc::scratch_root().join("c20-wsc");
    let _ = std::fs::create_dir_all(&scratch);
    // quick: letters {Sa, Ta, Rx, Rz} (z = same bytes as x under another coordinate), length ≤ 3
    // thorough: + {Sb, Tb, Ry, Rw} (w = same coordinate as x, other bytes), length ≤ 3
    let alphabet: Vec<Tx> = if r.quick() {
        vec![Tx::Sub(0), Tx::Tick(0), Tx::Read(0), Tx::Read(2)]
    } else {
        vec![
            Tx::Sub(0),
            Tx::Tick(0),
            Tx::Read(0),
            Tx::Read(2),
            Tx::Sub(1),
            Tx::Tick(1),
            Tx::Read(1),
            Tx::Read(3),
        ]
    };
    let fam = family(&alphabet, 3);
    let bits: Vec<u8> = if r.quick() { vec![0] } else { (0..8).collect() };
    // the designated rich history for envelope flips in quick: 2 segments, all three kinds
    let rich = History {
        txs: vec![Tx::Sub(0), Tx::Tick(0), Tx::Read(0)],
        rotate_after: vec![0],
    };
    r.note(
        "wsc_family",
        json!({"alphabet": alphabet.iter().map(|t| t.render()).collect::<Vec<_>>(), "max_len": 3, "histories": fam.len(),
               "bits_per_byte": bits.len()}),
    );

    // build every history with the real WAL store
    let built: Vec<Result<Built, String>> = fam
        .par_iter()
        .enumerate()
        .map(|(i, h)| build(h, &scratch.join(format!("wal-{i}"))))
        .collect();
    let mut ok: Vec<(usize, Built)> = Vec::new();
    for (i, b) in built.into_iter().enumerate() {
        match b {
            Ok(b) => ok.push((i, b)),
            Err(e) => r.machinery_error(&format!("wsc: cannot build history '{}': {e}", fam[i].render())),
        }
    }
    r.counter("wsc/histories_built", ok.len() as u64);

    let outs: Vec<HistoryOutcome> = ok
        .par_iter()
        .map(|(i, b)| {
            let len = b.history.txs.len();
            let bounds = Bounds {
                bits: bits.clone(),
                blob_flips: if r.quick() { len <= 2 || b.history == rich } else { true },
                envelope_flips: if r.quick() { b.history == rich } else { len <= 2 || b.history == rich },
            };
            if r.over_budget_frac(0.9) {
                r.cap_hit(&format!("wsc: history '{}' skipped by wall cap", b.history.render()));
                return HistoryOutcome { sample: json!(null), exports_ok: 0, segment_bytes: 0 };
            }
            let o = check_history(r, wit, *i, b, &bounds, &scratch);
            r.nontrivial(format!("wsc-history:{}", b.history.render()).as_bytes());
            o
        })
        .collect();
    let mut exports = 0u64;
    let mut sampled = 0;
    for o in &outs {
        exports += u64::from(o.exports_ok);
        if o.exports_ok == 3 && sampled < 3 && o.segment_bytes > 0 {
            r.sample(o.sample.clone());
            sampled += 1;
        }
    }
    r.counter("wsc/honest_roundtrips_ok", exports);

    // ── an export of history A is never accepted against the root of history B ──
    let exports: Vec<_> = ok
        .iter()
        .map(|(_, b)| {
            (
                wsc_ref_only_wal_export(&b.root, b.records()).ok(),
                wsc_self_contained_wal_export(&b.root, &b.segment_materials(), &b.payloads, b.records()).ok(),
            )
        })
        .collect();
    let pairs: Vec<(usize, usize)> = (0..ok.len())
        .flat_map(|a| (0..ok.len()).map(move |b| (a, b)))
        .filter(|(a, b)| a != b && ok[*a].1.root.identity_digest() != ok[*b].1.root.identity_digest())
        .collect();
    pairs.par_iter().for_each(|(a, bidx)| {
        let cx = Ctx {
            r,
            wit,
            hist_index: ok[*a].0,
            hist: ok[*a].1.history.render(),
        };
        let other = &ok[*bidx].1;
        if let Some(x) = &exports[*a].0 {
            r.eval(1);
            match validate_wsc_ref_only_wal_export(x, &other.root) {
                Err(e) => cx.outcome(Profile::RefOnly, "foreign-root", &format!("Err:{}", err_kind(&e))),
                Ok(_) => {
                    cx.outcome(Profile::RefOnly, "foreign-root", "ACCEPTED");
                    cx.violation(
                        "wsc:ref-only:foreign-root-accepted".into(),
                        json!({"kind": "foreign-root", "profile": "ref-only", "other_history": other.history.render()}),
                        json!("Ok"),
                    );
                }
            }
        }
        if let Some(x) = &exports[*a].1 {
            r.eval(1);
            match validate_wsc_self_contained_wal_export(x, &other.root) {
                Err(e) => cx.outcome(Profile::SelfContained, "foreign-root", &format!("Err:{}", err_kind(&e))),
                Ok(_) => {
                    cx.outcome(Profile::SelfContained, "foreign-root", "ACCEPTED");
                    cx.violation(
                        "wsc:self-contained:foreign-root-accepted".into(),
                        json!({"kind": "foreign-root", "profile": "self-contained", "other_history": other.history.render()}),
                        json!("Ok"),
                    );
                }
            }
        }
    });
    r.counter("wsc/foreign_root_pairs", pairs.len() as u64);
}

/// Replay one recorded WSC case: rebuild the history and re-run all of its faults with full bounds.
pub fn replay(r: &Report, case: &Value) {
    let Some(h) = case.get("history").and_then(|x| x.as_str()).and_then(History::parse) else {
        r.machinery_error("replay: cannot parse history");
        return;
    };
    let scratch = mc::scratch_root().join("c20-wsc-replay");
    let _ = std::fs::create_dir_all(&scratch);
    let wit = Witnesses::default();
    match build(&h, &scratch.join("wal")) {
        Err(e) => r.machinery_error(&format!("replay: build failed: {e}")),
        Ok(b) => {
            let bounds = Bounds {
                bits: (0..8).collect(),
                blob_flips: true,
                envelope_flips: true,
            };
            let o = check_history(r, &wit, 0, &b, &bounds, &scratch);
            r.sample(o.sample);
            r.nontrivial(b"replay-1");
            r.nontrivial(b"replay-2");
            r.add_states(1);
            r.add_transitions(1);
            r.add_traces(1);
        }
    }
    wit.flush(r);
}
